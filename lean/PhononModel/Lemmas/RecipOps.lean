import PhononModel.Model.RecipOps
import Mathlib.Data.List.Nodup
import Mathlib.Tactic.Ring
import Mathlib.Tactic.FinCases
import Mathlib.Algebra.BigOperators.Fin
/-!
Lemmas about the point-group / reciprocal operation lists (`Model/RecipOps.lean`), used by `Props/C03`.
-/
set_option linter.unusedSectionVars false
namespace PhononModel.RecipOps

theorem M3.beq_iff (a b : M3) : M3.beq a b = true ↔ a = b := by
  simp only [M3.beq, Bool.and_eq_true, beq_iff_eq]
  constructor
  · rintro ⟨⟨⟨⟨⟨⟨⟨⟨h1, h2⟩, h3⟩, h4⟩, h5⟩, h6⟩, h7⟩, h8⟩, h9⟩
    funext i j; fin_cases i <;> fin_cases j <;> assumption
  · intro h; subst h; simp

theorem any_beq (l : List M3) (r : M3) : (l.any fun t => M3.beq t r) = true ↔ r ∈ l := by
  simp only [List.any_eq_true, M3.beq_iff]
  constructor
  · rintro ⟨x, hx, rfl⟩; exact hx
  · intro h; exact ⟨r, h, rfl⟩

theorem any_beq' (l : List M3) (r : M3) : (l.any fun t => M3.beq r t) = true ↔ r ∈ l := by
  simp only [List.any_eq_true, M3.beq_iff]
  constructor
  · rintro ⟨x, hx, rfl⟩; exact hx
  · intro h; exact ⟨r, h, rfl⟩

/-- invariant of the fold -/
theorem foldl_unique (rots acc : List M3) (hacc : acc.Nodup) :
    let out := rots.foldl (fun acc r => if acc.any (fun t => M3.beq t r) then acc else acc ++ [r]) acc
    out.Nodup ∧ ∀ x, x ∈ out ↔ x ∈ acc ∨ x ∈ rots := by
  induction rots generalizing acc with
  | nil => simp [hacc]
  | cons r rs ih =>
    simp only [List.foldl_cons]
    by_cases h : (acc.any fun t => M3.beq t r) = true
    · rw [if_pos h]
      obtain ⟨h1, h2⟩ := ih acc hacc
      refine ⟨h1, fun x => ?_⟩
      rw [h2 x, List.mem_cons]
      have hr : r ∈ acc := (any_beq acc r).mp h
      constructor
      · rintro (hx | hx); exact Or.inl hx; exact Or.inr (Or.inr hx)
      · rintro (hx | hx | hx); exact Or.inl hx; exact Or.inl (hx ▸ hr); exact Or.inr hx
    · rw [if_neg h]
      have hr : r ∉ acc := fun hm => h ((any_beq acc r).mpr hm)
      have hnd : (acc ++ [r]).Nodup := by
        rw [List.nodup_append]
        refine ⟨hacc, List.nodup_singleton r, ?_⟩
        intro a ha b hb
        rw [List.mem_singleton] at hb
        rintro rfl; exact hr (hb ▸ ha)
      obtain ⟨h1, h2⟩ := ih (acc ++ [r]) hnd
      refine ⟨h1, fun x => ?_⟩
      rw [h2 x, List.mem_append, List.mem_singleton, List.mem_cons]
      tauto

theorem collectUnique_nodup (rots : List M3) : (collectUnique rots).Nodup :=
  (foldl_unique rots [] List.nodup_nil).1

theorem mem_collectUnique (rots : List M3) (x : M3) : x ∈ collectUnique rots ↔ x ∈ rots := by
  have := (foldl_unique rots [] List.nodup_nil).2 x
  simp only [List.not_mem_nil, false_or] at this
  exact this


/-- the reciprocal list as a set -/
theorem mem_recip (rots : List M3) (tr : Bool) (x : M3) :
    x ∈ (pointgroupOps rots tr).2 ↔
      (∃ r ∈ rots, x = M3.transpose r) ∨
        (tr = true ∧ M3.negOne ∉ rots ∧ ∃ r ∈ rots, x = M3.neg (M3.transpose r)) := by
  have hany : ((collectUnique rots).any fun r => M3.beq r M3.negOne) = true ↔ M3.negOne ∈ rots := by
    rw [any_beq, mem_collectUnique]
  simp only [pointgroupOps]
  by_cases h : (tr && !((collectUnique rots).any fun r => M3.beq r M3.negOne)) = true
  · rw [if_pos h]
    simp only [Bool.and_eq_true, Bool.not_eq_true', Bool.eq_false_iff, ne_eq, hany] at h
    simp only [List.mem_append, List.mem_map, mem_collectUnique]
    constructor
    · rintro (⟨r, hr, rfl⟩ | ⟨r, hr, rfl⟩)
      · exact Or.inl ⟨r, hr, rfl⟩
      · exact Or.inr ⟨h.1, h.2, r, hr, rfl⟩
    · rintro (⟨r, hr, rfl⟩ | ⟨_, _, r, hr, rfl⟩)
      · exact Or.inl ⟨r, hr, rfl⟩
      · exact Or.inr ⟨r, hr, rfl⟩
  · rw [if_neg h]
    simp only [Bool.and_eq_true, Bool.not_eq_true', Bool.eq_false_iff, ne_eq, hany, not_and, not_not] at h
    simp only [List.mem_map, mem_collectUnique]
    constructor
    · rintro ⟨r, hr, rfl⟩; exact Or.inl ⟨r, hr, rfl⟩
    · rintro (⟨r, hr, rfl⟩ | ⟨h1, h2, _⟩)
      · exact ⟨r, hr, rfl⟩
      · exact absurd (h h1) h2

/-! ### matrix algebra on `M3` -/
theorem M3.mul_assoc (a b c : M3) : M3.mul (M3.mul a b) c = M3.mul a (M3.mul b c) := by
  funext i j; simp only [M3.mul]; ring
theorem M3.one_mul (a : M3) : M3.mul M3.one a = a := by
  funext i j; fin_cases i <;> simp [M3.mul, M3.one]
theorem M3.mul_one (a : M3) : M3.mul a M3.one = a := by
  funext i j; fin_cases j <;> simp [M3.mul, M3.one]
theorem M3.transpose_mul (a b : M3) : M3.transpose (M3.mul a b) = M3.mul (M3.transpose b) (M3.transpose a) := by
  funext i j; simp only [M3.mul, M3.transpose]; ring
theorem M3.mul_neg (a b : M3) : M3.mul a (M3.neg b) = M3.neg (M3.mul a b) := by
  funext i j; simp only [M3.mul, M3.neg]; ring
theorem M3.neg_mul (a b : M3) : M3.mul (M3.neg a) b = M3.neg (M3.mul a b) := by
  funext i j; simp only [M3.mul, M3.neg]; ring
theorem M3.neg_neg (a : M3) : M3.neg (M3.neg a) = a := by
  funext i j; simp [M3.neg]
theorem M3.transpose_transpose (a : M3) : M3.transpose (M3.transpose a) = a := rfl
theorem M3.transpose_one : M3.transpose M3.one = M3.one := by
  funext i j; simp only [M3.transpose, M3.one, eq_comm]
theorem M3.transpose_neg (a : M3) : M3.transpose (M3.neg a) = M3.neg (M3.transpose a) := rfl
theorem M3.neg_one_eq : M3.neg M3.one = M3.negOne := by
  funext i j; simp only [M3.neg, M3.one, M3.negOne]; split <;> simp

/-- the rotation list is (the element list of) a matrix group -/
structure IsGroupList (rots : List M3) : Prop where
  one : M3.one ∈ rots
  mul : ∀ a ∈ rots, ∀ b ∈ rots, M3.mul a b ∈ rots
  inv : ∀ a ∈ rots, ∃ b ∈ rots, M3.mul a b = M3.one ∧ M3.mul b a = M3.one

theorem M3.toArr_inj (a b : M3) : M3.toArr a = M3.toArr b ↔ a = b := by
  constructor
  · intro h
    simp only [M3.toArr, Array.mk.injEq, List.cons.injEq, and_true] at h
    obtain ⟨h1, h2, h3, h4, h5, h6, h7, h8, h9⟩ := h
    funext i j; fin_cases i <;> fin_cases j <;> assumption
  · intro h; rw [h]

theorem isGroupOk_sound (rots : List M3) (h : isGroupOk rots = true) : IsGroupList rots := by
  simp only [isGroupOk, Bool.and_eq_true, List.all_eq_true, List.any_eq_true, List.contains_iff_mem, List.mem_map,
    beq_iff_eq, M3.toArr_inj] at h
  obtain ⟨⟨⟨o, ho, rfl⟩, h2⟩, h3⟩ := h
  refine ⟨ho, ?_, ?_⟩
  · intro a ha b hb
    obtain ⟨c, hc, e⟩ := h2 a ha b hb
    exact e ▸ hc
  · intro a ha
    obtain ⟨b, hb, e1, e2⟩ := h3 a ha
    exact ⟨b, hb, e1, e2⟩

/-- set of transposes = set of inverse-transposes -/
theorem transposes_eq_inverse_transposes (rots : List M3) (hG : IsGroupList rots) (x : M3) :
    (∃ r ∈ rots, x = M3.transpose r) ↔
      (∃ r ∈ rots, ∃ r' : M3, M3.mul r r' = M3.one ∧ M3.mul r' r = M3.one ∧ x = M3.transpose r') := by
  constructor
  · rintro ⟨r, hr, rfl⟩
    obtain ⟨b, hb, h1, h2⟩ := hG.inv r hr
    exact ⟨b, hb, r, h2, h1, rfl⟩
  · rintro ⟨r, hr, r', h1, h2, rfl⟩
    obtain ⟨b, hb, h3, h4⟩ := hG.inv r hr
    have : r' = b := by
      calc r' = M3.mul (M3.mul b r) r' := by rw [h4, M3.one_mul]
        _ = M3.mul b (M3.mul r r') := by rw [M3.mul_assoc]
        _ = b := by rw [h1, M3.mul_one]
    exact ⟨r', this ▸ hb, rfl⟩

theorem recip_closed (rots : List M3) (hG : IsGroupList rots) (tr : Bool) (x y : M3)
    (hx : x ∈ (pointgroupOps rots tr).2) (hy : y ∈ (pointgroupOps rots tr).2) :
    M3.mul x y ∈ (pointgroupOps rots tr).2 := by
  rw [mem_recip] at hx hy ⊢
  rcases hx with ⟨r, hr, rfl⟩ | ⟨h1, h2, r, hr, rfl⟩ <;> rcases hy with ⟨s, hs, rfl⟩ | ⟨h1', h2', s, hs, rfl⟩
  · exact Or.inl ⟨M3.mul s r, hG.mul s hs r hr, by rw [M3.transpose_mul]⟩
  · exact Or.inr ⟨h1', h2', M3.mul s r, hG.mul s hs r hr, by rw [M3.transpose_mul, M3.mul_neg]⟩
  · exact Or.inr ⟨h1, h2, M3.mul s r, hG.mul s hs r hr, by rw [M3.transpose_mul, M3.neg_mul]⟩
  · exact Or.inl ⟨M3.mul s r, hG.mul s hs r hr, by rw [M3.transpose_mul, M3.neg_mul, M3.mul_neg, M3.neg_neg]⟩

/-- the reciprocal list contains `−1` iff time reversal is on or the point group itself contains the inversion -/
theorem negOne_mem_recip (rots : List M3) (hG : IsGroupList rots) (tr : Bool) :
    M3.negOne ∈ (pointgroupOps rots tr).2 ↔ (tr = true ∨ M3.negOne ∈ rots) := by
  have htn : M3.transpose M3.negOne = M3.negOne := by rw [← M3.neg_one_eq, M3.transpose_neg, M3.transpose_one]
  rw [mem_recip]
  constructor
  · rintro (⟨r, hr, h⟩ | ⟨h1, _, _⟩)
    · right
      have : r = M3.negOne := by
        have := congrArg M3.transpose h
        rw [M3.transpose_transpose, htn] at this
        exact this.symm
      exact this ▸ hr
    · exact Or.inl h1
  · rintro (h | h)
    · by_cases hm : M3.negOne ∈ rots
      · exact Or.inl ⟨M3.negOne, hm, htn.symm⟩
      · exact Or.inr ⟨h, hm, M3.one, hG.one, by rw [M3.transpose_one, M3.neg_one_eq]⟩
    · exact Or.inl ⟨M3.negOne, h, htn.symm⟩

/-- with time reversal the reciprocal list is closed under `q ↦ −q` -/
theorem recip_neg_closed (rots : List M3) (hG : IsGroupList rots) (x : M3)
    (hx : x ∈ (pointgroupOps rots true).2) : M3.neg x ∈ (pointgroupOps rots true).2 := by
  have h1 := (negOne_mem_recip rots hG true).mpr (Or.inl rfl)
  have := recip_closed rots hG true M3.negOne x h1 hx
  rwa [← M3.neg_one_eq, M3.neg_mul, M3.one_mul] at this

end PhononModel.RecipOps
