import PhononModel.Model.KernelReads
import Mathlib.Tactic.Ring
import Mathlib.Tactic.Linarith
import Mathlib.Data.List.Perm.Basic
/-!
Helper lemmas for C13: membership in the `for*` combinators, uniqueness of mixed-radix digits,
commutation of write-disjoint iterations.
-/
namespace PhononModel.Footprint

theorem mem_cplx {x a : Nat} : x ∈ cplx a ↔ x = 2 * a ∨ x = 2 * a + 1 := by
  simp [cplx]

theorem mem_for1 {n : Nat} {f : Nat → List Nat} {x : Nat} :
    x ∈ for1 n f ↔ ∃ i, i < n ∧ x ∈ f i := by
  simp [for1, List.mem_flatMap, List.mem_range]

theorem mem_for2 {a b : Nat} {f : Nat → Nat → List Nat} {x : Nat} :
    x ∈ for2 a b f ↔ ∃ i, i < a ∧ ∃ j, j < b ∧ x ∈ f i j := by
  simp [for2, mem_for1]

theorem mem_for3 {a b c : Nat} {f : Nat → Nat → Nat → List Nat} {x : Nat} :
    x ∈ for3 a b c f ↔ ∃ i, i < a ∧ ∃ j, j < b ∧ ∃ k, k < c ∧ x ∈ f i j k := by
  simp [for3, mem_for1]

theorem mem_whole {n x : Nat} : x ∈ whole n ↔ x < n := by simp [whole]

/-- digits of a two-digit mixed-radix number are unique -/
theorem radix_inj {n a b a' b' : Nat} (hb : b < n) (hb' : b' < n) (h : a * n + b = a' * n + b') :
    a = a' ∧ b = b' := by
  have h1 : (a * n + b) / n = (a' * n + b') / n := by rw [h]
  have h2 : (a * n + b) % n = (a' * n + b') % n := by rw [h]
  have hn : 0 < n := by omega
  rw [Nat.mul_comm a n, Nat.mul_comm a' n, Nat.mul_add_div hn, Nat.mul_add_div hn,
    Nat.div_eq_of_lt hb, Nat.div_eq_of_lt hb'] at h1
  rw [Nat.mul_comm a n, Nat.mul_comm a' n, Nat.mul_add_mod, Nat.mul_add_mod,
    Nat.mod_eq_of_lt hb, Nat.mod_eq_of_lt hb'] at h2
  exact ⟨by omega, h2⟩

theorem radix_lt {m n a b : Nat} (ha : a < m) (hb : b < n) : a * n + b < m * n := by
  calc a * n + b < a * n + n := by omega
    _ = (a + 1) * n := by ring
    _ ≤ m * n := Nat.mul_le_mul_right _ ha

/-- `ij ↦ (ij / n, ij % n)` written out -/
theorem divmod_decomp {n : Nat} (hn : 0 < n) (a : Nat) :
    ∃ i j, j < n ∧ a = i * n + j ∧ a / n = i ∧ a % n = j :=
  ⟨a / n, a % n, Nat.mod_lt _ hn, (Nat.div_add_mod' a n).symm, rfl, rfl⟩

theorem div_lt_of_lt_mul' {a m n : Nat} (h : a < m * n) : a / n < m := by
  rw [Nat.mul_comm] at h; exact Nat.div_lt_of_lt_mul h

/-- disjointness from a decoder: if the iteration can be read off every written index -/
theorem PLoop.disjoint_of_decode (L : PLoop) (dec : Nat → Nat)
    (h : ∀ a, a < L.iters → ∀ x ∈ L.writes a, dec x = a) : L.Disjoint := by
  intro a b ha hb hab x hxa hxb
  exact hab ((h a ha x hxa).symm.trans (h b hb x hxb))

/-! ### commuting write-disjoint iterations -/

theorem iterBody_comm {α : Type} (W : Nat → List Nat) (f : Nat → Nat → (Nat → α) → α)
    (hloc : LocalUpd W f) (i j : Nat) (hd : ∀ x, x ∈ W i → x ∉ W j) (s : Nat → α) :
    iterBody W f j (iterBody W f i s) = iterBody W f i (iterBody W f j s) := by
  funext x
  simp only [iterBody]
  by_cases hi : x ∈ W i
  · have hj : x ∉ W j := hd x hi
    simp only [hi, hj, if_true, if_false]
    apply hloc _ _ _ _ hi
    intro y hy
    have : y ∉ W j := hd y hy
    simp [iterBody, this]
  · by_cases hj : x ∈ W j
    · simp only [hi, hj, if_true, if_false]
      apply hloc _ _ _ _ hj
      intro y hy
      have : y ∉ W i := fun h => hd y h hy
      simp [iterBody, this]
    · simp [hi, hj]


/-! ### read footprints -/

theorem allLt_sound {n b : Nat} {t : Nat → Nat} (h : allLt n t b = true) : ∀ i, i < n → t i < b := by
  simpa [allLt, List.all_eq_true] using h

theorem fixedBefore_mono (gmt : Nat → Nat) {m n : Nat} (h : m ≤ n) : fixedBefore gmt m ≤ fixedBefore gmt n := by
  unfold fixedBefore
  exact ((List.range_sublist.mpr h).filter _).length_le

theorem fixedBefore_succ_of_fixed (gmt : Nat → Nat) {f : Nat} (h : gmt f = f) :
    fixedBefore gmt (f + 1) = fixedBefore gmt f + 1 := by
  unfold fixedBefore
  rw [List.range_succ, List.filter_append]
  simp [h]

theorem fixedBefore_lt_of_fixed (gmt : Nat → Nat) {f n : Nat} (hf : f < n) (h : gmt f = f) :
    fixedBefore gmt f < fixedBefore gmt n := by
  have := fixedBefore_mono gmt (show f + 1 ≤ n from hf)
  rw [fixedBefore_succ_of_fixed gmt h] at this
  omega

end PhononModel.Footprint
