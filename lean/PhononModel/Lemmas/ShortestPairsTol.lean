import PhononModel.Lemmas.ShortestPairs
import Mathlib.Analysis.SpecialFunctions.Sqrt
/-!
The kernels' tolerance rule `length − minimum < symprec` (a comparison of lengths) decided on
squared lengths without a square root.
-/
set_option linter.unusedSectionVars false
namespace PhononModel.ShortestPairs
open PhononModel

theorem sqrt_tie_iff (a b t : ℝ) (hb : 0 ≤ b) (hab : b ≤ a) (ht : 0 < t) :
    (a - b - t * t < 0 ∨ (a - b - t * t) * (a - b - t * t) < 4 * (t * t) * b) ↔ Real.sqrt a - Real.sqrt b < t := by
  have ha : 0 ≤ a := le_trans hb hab
  have hsb := Real.sqrt_nonneg b
  have hsb2 : Real.sqrt b * Real.sqrt b = b := Real.mul_self_sqrt hb
  have key : Real.sqrt a - Real.sqrt b < t ↔ a - b - t * t < 2 * t * Real.sqrt b := by
    constructor
    · intro h
      have h1 : Real.sqrt a < Real.sqrt b + t := by linarith
      have h2 : a < (Real.sqrt b + t) ^ 2 := (Real.sqrt_lt' (by positivity)).mp h1
      nlinarith
    · intro h
      have h2 : a < (Real.sqrt b + t) ^ 2 := by nlinarith
      have := (Real.sqrt_lt' (by positivity)).mpr h2
      linarith
  rw [key]
  constructor
  · rintro (h | h)
    · have : 0 ≤ 2 * t * Real.sqrt b := by positivity
      linarith
    · by_contra hn
      have hn := not_lt.mp hn
      have h0 : 0 ≤ 2 * t * Real.sqrt b := by positivity
      have : (2 * t * Real.sqrt b) * (2 * t * Real.sqrt b) ≤ (a - b - t * t) * (a - b - t * t) :=
        mul_self_le_mul_self h0 hn
      nlinarith
  · intro h
    by_cases hD : a - b - t * t < 0
    · exact Or.inl hD
    · right
      have hD := not_lt.mp hD
      have : (a - b - t * t) * (a - b - t * t) < (2 * t * Real.sqrt b) * (2 * t * Real.sqrt b) :=
        mul_self_lt_mul_self hD h
      nlinarith

theorem tieWithin_iff_sqrt (tol m2 l2 : ℚ) (hm : 0 ≤ m2) (hml : m2 ≤ l2) (ht : 0 < tol) :
    tieWithin tol m2 l2 = true ↔ Real.sqrt (l2 : ℝ) - Real.sqrt (m2 : ℝ) < (tol : ℝ) := by
  rw [← sqrt_tie_iff (l2 : ℝ) (m2 : ℝ) (tol : ℝ) (by exact_mod_cast hm) (by exact_mod_cast hml) (by exact_mod_cast ht)]
  unfold tieWithin
  simp only [Bool.or_eq_true, decide_eq_true_eq]
  constructor
  · rintro (h | h)
    · left; exact_mod_cast h
    · right; exact_mod_cast h
  · rintro (h | h)
    · left; exact_mod_cast h
    · right; exact_mod_cast h

theorem mem_pairShortestTol (tol : ℚ) (G : M3 ℚ) (d : V3 ℚ) (pts : List (V3 ℤ)) (m : ℚ)
    (hm : minList (pts.map (fun p => len2 G (d + p.toRat))) = some m) (v : V3 ℚ) :
    v ∈ pairShortestTol tol G d pts ↔ ∃ p ∈ pts, v = d + p.toRat ∧ tieWithin tol m (len2 G (d + p.toRat)) = true := by
  unfold pairShortestTol
  simp only [List.map_map]
  have : (len2 G ∘ fun p : V3 ℤ => d + p.toRat) = fun p => len2 G (d + p.toRat) := rfl
  rw [this, hm]
  simp only [List.mem_filter, List.mem_map]
  constructor
  · rintro ⟨⟨p, hp, rfl⟩, ht⟩; exact ⟨p, hp, rfl, ht⟩
  · rintro ⟨p, hp, rfl, ht⟩; exact ⟨⟨p, hp, rfl⟩, ht⟩

/-- exact ties are always within a positive tolerance: the idealised table is contained in the coded one -/
theorem pairShortest_subset_tol (tol : ℚ) (ht : 0 < tol) (G : M3 ℚ) (d : V3 ℚ) (pts : List (V3 ℤ)) (v : V3 ℚ)
    (hv : v ∈ pairShortest G d pts) : v ∈ pairShortestTol tol G d pts := by
  unfold pairShortest at hv
  unfold pairShortestTol
  simp only at hv ⊢
  cases hm : minList ((pts.map (fun p => d + p.toRat)).map (len2 G)) with
  | none => rw [hm] at hv; simp at hv
  | some m =>
    rw [hm] at hv
    simp only [List.mem_filter, beq_iff_eq] at hv ⊢
    refine ⟨hv.1, ?_⟩
    unfold tieWithin
    rw [hv.2]
    have : m - m - tol * tol < 0 := by nlinarith
    simp only [Bool.or_eq_true, decide_eq_true_eq]
    exact Or.inl this

end PhononModel.ShortestPairs
