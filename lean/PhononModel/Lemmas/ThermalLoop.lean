import PhononModel.Model.Thermal
import PhononModel.Lemmas.CLoop
import PhononModel.Lemmas.Basic
import Mathlib.Data.Real.Basic
import Mathlib.Tactic.Linarith
/-!
The generated loop nest of `phpy_get_thermal_properties` (Gen/ThermalC.lean) computes, for every number of
temperatures, q-points and bands, the three guarded weighted sums of the model (`Thermal.cSum`).
-/
set_option linter.unusedVariables false
namespace PhononModel.C10
open PhononModel PhononModel.CLoop PhononModel.ThermalC PhononModel.Thermal Finset

/-- mixed-radix uniqueness of the index `i·nt·3 + j·3 + c` -/
theorem idx_unique {nt i i0 j j0 c c0 : Nat} (hj : j < nt) (hj0 : j0 < nt) (hc : c < 3) (hc0 : c0 < 3) :
    i0 * nt * 3 + (j0 * 3 + c0) = i * nt * 3 + j * 3 + c ↔ i = i0 ∧ j = j0 ∧ c = c0 := by
  constructor
  · intro h
    have ha : j * 3 + c < nt * 3 := by omega
    have ha0 : j0 * 3 + c0 < nt * 3 := by omega
    have hpos : 0 < nt * 3 := by omega
    have e1 : i0 * nt * 3 + (j0 * 3 + c0) = (j0 * 3 + c0) + (nt * 3) * i0 := by ring
    have e2 : i * nt * 3 + j * 3 + c = (j * 3 + c) + (nt * 3) * i := by ring
    rw [e1, e2] at h
    have hd := congrArg (· / (nt * 3)) h
    have hm := congrArg (· % (nt * 3)) h
    simp only [Nat.add_mul_div_left _ _ hpos, Nat.div_eq_of_lt ha, Nat.div_eq_of_lt ha0, Nat.zero_add,
      Nat.add_mul_mod_self_left, Nat.mod_eq_of_lt ha, Nat.mod_eq_of_lt ha0] at hd hm
    omega
  · rintro ⟨rfl, rfl, rfl⟩
    ring

section
variable (E : ThermalEnv ℝ) (temps freqs weights : Nat → ℝ) (nt nq nb : Nat) (cut : ℝ) (cl : Int)

abbrev St := phpy_get_thermal_properties_St ℝ

/-- contribution of band `k` of q-point `i` at temperature `j` to component `c` (0: F, 1: S, 2: C_V) -/
noncomputable def contrib (i j k c : Nat) : ℝ :=
  if 0 < temps j ∧ cut < freqs (i * nb + k) then
    (if c = 0 then get_free_energy E (temps j) (freqs (i * nb + k)) cl
     else if c = 1 then get_entropy E (temps j) (freqs (i * nb + k)) cl
     else get_heat_capacity E (temps j) (freqs (i * nb + k)) cl) * weights i
  else 0

/-- what one pass of the innermost body adds to cell `m` of `tp` -/
noncomputable def D4 (i j k m : Nat) : ℝ :=
  (if m = i * nt * 3 + j * 3 then contrib E temps freqs weights nb cut cl i j k 0 else 0)
  + (if m = i * nt * 3 + j * 3 + 1 then contrib E temps freqs weights nb cut cl i j k 1 else 0)
  + (if m = i * nt * 3 + j * 3 + 2 then contrib E temps freqs weights nb cut cl i j k 2 else 0)

theorem for4_tp (i j : Nat) (s : St) (m : Nat) :
    (phpy_get_thermal_properties_for4 E temps freqs weights nt nq nb cut cl i j s).buf0 m
      = s.buf0 m + ∑ k ∈ range nb, D4 E temps freqs weights nt nb cut cl i j k m := by
  unfold phpy_get_thermal_properties_for4
  refine forN_proj_add (fun s : St => s.buf0) (fun _ => True) _ _ (fun _ _ _ => trivial) ?_ nb s trivial m
  intro k s _ m
  simp only [D4, contrib]
  generalize i * nt * 3 + j * 3 = base
  by_cases hg : 0 < temps j ∧ cut < freqs (i * nb + k)
  · simp only [hg, and_self, if_true]
    by_cases h0 : m = base
    · subst h0; simp [upd]
    · by_cases h1 : m = base + 1
      · subst h1; simp [upd]
      · by_cases h2 : m = base + 2
        · subst h2; simp [upd]
        · simp [upd, h0, h1, h2]
  · simp [hg]

theorem for4_props (i j : Nat) (s : St) :
    (phpy_get_thermal_properties_for4 E temps freqs weights nt nq nb cut cl i j s).thermal_props = s.thermal_props := by
  unfold phpy_get_thermal_properties_for4
  refine forN_frame (fun s : St => s.thermal_props) _ ?_ nb s
  intro k s
  by_cases hg : 0 < temps j ∧ cut < freqs (i * nb + k) <;> simp [hg]

theorem for3_tp (i : Nat) (s : St) (m : Nat) :
    (phpy_get_thermal_properties_for3 E temps freqs weights nt nq nb cut cl i s).buf0 m
      = s.buf0 m + ∑ j ∈ range nt, ∑ k ∈ range nb, D4 E temps freqs weights nt nb cut cl i j k m := by
  unfold phpy_get_thermal_properties_for3
  exact forN_proj_add (fun s : St => s.buf0) (fun _ => True) _ _ (fun _ _ _ => trivial)
    (fun j s _ m => for4_tp E temps freqs weights nt nq nb cut cl i j s m) nt s trivial m

theorem for3_props (i : Nat) (s : St) :
    (phpy_get_thermal_properties_for3 E temps freqs weights nt nq nb cut cl i s).thermal_props = s.thermal_props := by
  unfold phpy_get_thermal_properties_for3
  exact forN_frame (fun s : St => s.thermal_props) _ (fun j s => for4_props E temps freqs weights nt nq nb cut cl i j s) nt s

theorem for2_tp (s : St) (m : Nat) :
    (phpy_get_thermal_properties_for2 E temps freqs weights nt nq nb cut cl s).buf0 m
      = s.buf0 m + ∑ i ∈ range nq, ∑ j ∈ range nt, ∑ k ∈ range nb, D4 E temps freqs weights nt nb cut cl i j k m := by
  unfold phpy_get_thermal_properties_for2
  exact forN_proj_add (fun s : St => s.buf0) (fun _ => True) _ _ (fun _ _ _ => trivial)
    (fun i s _ m => for3_tp E temps freqs weights nt nq nb cut cl i s m) nq s trivial m

theorem for2_props (s : St) :
    (phpy_get_thermal_properties_for2 E temps freqs weights nt nq nb cut cl s).thermal_props = s.thermal_props := by
  unfold phpy_get_thermal_properties_for2
  exact forN_frame (fun s : St => s.thermal_props) _ (fun i s => for3_props E temps freqs weights nt nq nb cut cl i s) nq s

theorem for1_tp (s : St) (m : Nat) :
    (phpy_get_thermal_properties_for1 E temps freqs weights nt nq nb cut cl s).buf0 m
      = if m < nt * nq * 3 then 0 else s.buf0 m := by
  unfold phpy_get_thermal_properties_for1
  refine forN_proj_set (fun s : St => s.buf0) _ 0 ?_ _ s m
  intro t s m
  simp [upd]

theorem for1_props (s : St) :
    (phpy_get_thermal_properties_for1 E temps freqs weights nt nq nb cut cl s).thermal_props = s.thermal_props := by
  unfold phpy_get_thermal_properties_for1
  refine forN_frame (fun s : St => s.thermal_props) _ ?_ _ s
  intro t s; rfl

theorem for6_tp (i : Nat) (s : St) :
    (phpy_get_thermal_properties_for6 E temps freqs weights nt nq nb cut cl i s).buf0 = s.buf0 := by
  unfold phpy_get_thermal_properties_for6
  refine forN_frame (fun s : St => s.buf0) _ ?_ _ s
  intro t s; rfl

theorem for6_props (i : Nat) (s : St) (m : Nat) :
    (phpy_get_thermal_properties_for6 E temps freqs weights nt nq nb cut cl i s).thermal_props m
      = s.thermal_props m + ∑ j ∈ range (nt * 3), if m = j then s.buf0 (i * nt * 3 + j) else 0 := by
  unfold phpy_get_thermal_properties_for6
  refine forN_proj_add (fun s' : St => s'.thermal_props) (fun s' => s'.buf0 = s.buf0) _
    (fun j m => if m = j then s.buf0 (i * nt * 3 + j) else 0) ?_ ?_ _ s rfl m
  · intro j s' hs'; exact hs'
  intro j s' hs' m
  by_cases h : m = j
  · subst h; simp [upd, hs']
  · simp [upd, h]

theorem for5_props (s : St) (m : Nat) :
    (phpy_get_thermal_properties_for5 E temps freqs weights nt nq nb cut cl s).thermal_props m
      = s.thermal_props m + ∑ i ∈ range nq, ∑ j ∈ range (nt * 3), if m = j then s.buf0 (i * nt * 3 + j) else 0 := by
  unfold phpy_get_thermal_properties_for5
  refine forN_proj_add (fun s' : St => s'.thermal_props) (fun s' => s'.buf0 = s.buf0) _
    (fun i m => ∑ j ∈ range (nt * 3), if m = j then s.buf0 (i * nt * 3 + j) else 0) ?_ ?_ _ s rfl m
  · intro i s' hs'
    simp only
    rw [for6_tp]; exact hs'
  · intro i s' hs' m
    simp only at hs' ⊢
    rw [for6_props, hs']

/-- sum of the contributions landing in cell `i0·nt·3 + j0·3 + c0` -/
theorem D4_cell {i i0 j j0 c0 : Nat} (hj : j < nt) (hj0 : j0 < nt) (hc0 : c0 < 3) (k : Nat) :
    D4 E temps freqs weights nt nb cut cl i j k (i0 * nt * 3 + (j0 * 3 + c0))
      = if i = i0 ∧ j = j0 then contrib E temps freqs weights nb cut cl i0 j0 k c0 else 0 := by
  unfold D4
  have e0 := @idx_unique nt i i0 j j0 0 c0 hj hj0 (by omega) hc0
  have e1 := @idx_unique nt i i0 j j0 1 c0 hj hj0 (by omega) hc0
  have e2 := @idx_unique nt i i0 j j0 2 c0 hj hj0 (by omega) hc0
  simp only [Nat.add_zero] at e0
  simp only [e0, e1, e2]
  by_cases hij : i = i0 ∧ j = j0
  · obtain ⟨rfl, rfl⟩ := hij
    obtain rfl | rfl | rfl : c0 = 0 ∨ c0 = 1 ∨ c0 = 2 := by omega
    all_goals simp
  · have h0 : ¬ (i = i0 ∧ j = j0 ∧ 0 = c0) := fun h => hij ⟨h.1, h.2.1⟩
    have h1 : ¬ (i = i0 ∧ j = j0 ∧ 1 = c0) := fun h => hij ⟨h.1, h.2.1⟩
    have h2 : ¬ (i = i0 ∧ j = j0 ∧ 2 = c0) := fun h => hij ⟨h.1, h.2.1⟩
    simp [hij, h0, h1, h2]

theorem sum_D4 {i0 j0 c0 : Nat} (hi0 : i0 < nq) (hj0 : j0 < nt) (hc0 : c0 < 3) :
    ∑ i ∈ range nq, ∑ j ∈ range nt, ∑ k ∈ range nb,
        D4 E temps freqs weights nt nb cut cl i j k (i0 * nt * 3 + (j0 * 3 + c0))
      = ∑ k ∈ range nb, contrib E temps freqs weights nb cut cl i0 j0 k c0 := by
  have hcell : ∀ i, ∀ j ∈ range nt, ∑ k ∈ range nb,
      D4 E temps freqs weights nt nb cut cl i j k (i0 * nt * 3 + (j0 * 3 + c0))
      = if i = i0 ∧ j = j0 then ∑ k ∈ range nb, contrib E temps freqs weights nb cut cl i0 j0 k c0 else 0 := by
    intro i j hj
    rw [Finset.sum_congr rfl fun k _ => D4_cell E temps freqs weights nt nb cut cl (Finset.mem_range.1 hj) hj0 hc0 k]
    split_ifs <;> simp
  rw [Finset.sum_congr rfl fun i _ => Finset.sum_congr rfl fun j hj => hcell i j hj]
  rw [Finset.sum_eq_single_of_mem i0 (Finset.mem_range.2 hi0)
    (fun i _ hne => Finset.sum_eq_zero fun j _ => by simp [hne])]
  rw [Finset.sum_eq_single_of_mem j0 (Finset.mem_range.2 hj0) (fun j _ hne => by simp [hne])]
  simp

/-- the generated procedure, cell by cell -/
theorem proc_cell (props0 tp0 : Nat → ℝ) {j0 c0 : Nat} (hj0 : j0 < nt) (hc0 : c0 < 3) :
    phpy_get_thermal_properties E props0 temps freqs weights nt nq nb cut cl tp0 (j0 * 3 + c0)
      = props0 (j0 * 3 + c0)
        + ∑ i ∈ range nq, ∑ k ∈ range nb, contrib E temps freqs weights nb cut cl i j0 k c0 := by
  unfold phpy_get_thermal_properties
  rw [for5_props, for2_props, for1_props]
  congr 1
  refine Finset.sum_congr rfl fun i hi => ?_
  have hi' := Finset.mem_range.1 hi
  have hm : j0 * 3 + c0 < nt * 3 := by omega
  rw [Finset.sum_eq_single_of_mem (j0 * 3 + c0) (Finset.mem_range.2 hm) (fun j _ hne => by simp [Ne.symm hne])]
  · simp only [if_true]
    rw [for2_tp, for1_tp]
    have hlt : i * nt * 3 + (j0 * 3 + c0) < nt * nq * 3 := by
      have : (i + 1) * (nt * 3) ≤ nq * (nt * 3) := Nat.mul_le_mul_right _ hi'
      have e : (i + 1) * (nt * 3) = i * nt * 3 + nt * 3 := by ring
      have e' : nq * (nt * 3) = nt * nq * 3 := by ring
      omega
    rw [if_pos hlt, zero_add]
    exact sum_D4 E temps freqs weights nt nq nb cut cl hi' hj0 hc0

/-- cells beyond `3·nt` are not touched -/
theorem proc_frame (props0 tp0 : Nat → ℝ) {m : Nat} (hm : nt * 3 ≤ m) :
    phpy_get_thermal_properties E props0 temps freqs weights nt nq nb cut cl tp0 m = props0 m := by
  unfold phpy_get_thermal_properties
  rw [for5_props, for2_props, for1_props]
  have : ∑ i ∈ range nq, ∑ j ∈ range (nt * 3),
      (if m = j then (phpy_get_thermal_properties_for2 E temps freqs weights nt nq nb cut cl
        (phpy_get_thermal_properties_for1 E temps freqs weights nt nq nb cut cl
          { thermal_props := props0, buf0 := tp0 })).buf0 (i * nt * 3 + j) else 0) = 0 := by
    refine Finset.sum_eq_zero fun i _ => Finset.sum_eq_zero fun j hj => ?_
    have := Finset.mem_range.1 hj
    have : m ≠ j := by omega
    simp [this]
  rw [this, add_zero]

end
end PhononModel.C10
