import PhononModel.Lemmas.DynMatRot
/-!
Covariance of the computed dynamical matrix under a space-group operation that maps the shortest-vector
table onto itself (certificate `svecsInvariantOk`), any q and any interaction range (used by `Props/C03`).
-/
set_option linter.unusedSectionVars false
namespace PhononModel
open Finset Matrix

variable {R : Type} [Field R] [CharZero R]
variable {np nf ns nsv : Nat}

/-- propositional reading of `svecsInvariantOk` -/
structure SvecsInvariant (T : DTables np nf ns nsv) (M : SymMaps np ns nsv) : Prop where
  pl : ∀ i, M.pinv (M.pi i) = i
  pr : ∀ i, M.pi (M.pinv i) = i
  kl : ∀ i k, M.kinv i (M.kap i k) = k
  kr : ∀ i k, M.kap i (M.kinv i k) = k
  sl : ∀ x, M.sinv (M.sig x) = x
  sr : ∀ x, M.sig (M.sinv x) = x
  mult : ∀ i k, T.mult (M.kap i k) (M.pi i) = T.mult k i
  fwd : ∀ i k x, inRange T k i x = true → inRange T (M.kap i k) (M.pi i) (M.sig x) = true
  bwd : ∀ i k x, inRange T (M.kap i k) (M.pi i) x = true → inRange T k i (M.sinv x) = true
  sub : ∀ i k j, (T.s2p (M.kap i k) = T.p2s (M.pi j)) ↔ (T.s2p k = T.p2s j)

theorem svecsInvariantOk_sound (T : DTables np nf ns nsv) (M : SymMaps np ns nsv)
    (h : svecsInvariantOk T M = true) : SvecsInvariant T M := by
  simp only [svecsInvariantOk, Bool.and_eq_true, List.all_eq_true, List.mem_finRange, forall_const,
    beq_iff_eq, Bool.or_eq_true, Bool.not_eq_true', decide_eq_decide] at h
  obtain ⟨⟨⟨⟨⟨h1, h2⟩, h3⟩, h4⟩, h5⟩, h6⟩ := h
  refine ⟨fun i => (h1 i).1, fun i => (h1 i).2, fun i k => (h2 i k).1, fun i k => (h2 i k).2,
    fun x => (h3 x).1, fun x => (h3 x).2, h4, ?_, ?_, h6⟩
  · intro i k x hx
    rcases (h5 i k x).1 with h | h
    · rw [hx] at h; exact absurd h (by decide)
    · exact h
  · intro i k x hx
    rcases (h5 i k x).2 with h | h
    · rw [hx] at h; exact absurd h (by decide)
    · exact h

/-- the permutation of the primitive atoms -/
def SvecsInvariant.perm {T : DTables np nf ns nsv} {M : SymMaps np ns nsv} (h : SvecsInvariant T M) :
    Equiv.Perm (Fin np) := ⟨M.pi, M.pinv, h.pl, h.pr⟩

theorem sum_svIdx {A : Type} [AddCommMonoid A] (T : DTables np nf ns nsv) (k : Fin ns) (i : Fin np)
    (f : Fin nsv → A) :
    ∑ l, f (T.svIdx k i l) = ∑ x, if inRange T k i x = true then f x else 0 := by
  rw [← Finset.sum_filter]
  refine Finset.sum_bij' (fun l _ => T.svIdx k i l)
    (fun x hx => ⟨x.1 - T.adrs k i, by
      simp only [Finset.mem_filter, Finset.mem_univ, true_and, inRange, Bool.and_eq_true, decide_eq_true_eq] at hx
      omega⟩) ?_ ?_ ?_ ?_ ?_
  · intro l _
    simp only [Finset.mem_filter, Finset.mem_univ, true_and, inRange, Bool.and_eq_true, decide_eq_true_eq,
      DTables.svIdx]
    have := l.2; omega
  · intro x _; exact Finset.mem_univ _
  · intro l _; apply Fin.ext; simp [DTables.svIdx]
  · intro x hx
    simp only [Finset.mem_filter, Finset.mem_univ, true_and, inRange, Bool.and_eq_true, decide_eq_true_eq] at hx
    apply Fin.ext; simp only [DTables.svIdx]; omega
  · intro l _; rfl

/-- the averaged phase of the image pair at the rotated q equals that of the pair at q -/
theorem phaseAvgC_transport {T : DTables np nf ns nsv} {M : SymMaps np ns nsv} (h : SvecsInvariant T M)
    (ph ph' : Fin nsv → Cx R) (hph : ∀ x, ph' (M.sig x) = ph x) (i : Fin np) (k : Fin ns) :
    phaseAvgC T ph' (M.kap i k) (M.pi i) = phaseAvgC T ph k i := by
  have h1 : Cx.ofR ((T.mult (M.kap i k) (M.pi i) : Nat) : R)⁻¹ = Cx.ofR ((T.mult k i : Nat) : R)⁻¹ := by
    rw [h.mult]
  rw [phaseAvgC_eq, phaseAvgC_eq, h1, sum_svIdx, sum_svIdx]
  congr 1
  rw [← Finset.sum_filter, ← Finset.sum_filter]
  symm
  refine Finset.sum_nbij' M.sig M.sinv ?_ ?_ ?_ ?_ ?_
  · intro x hx; simp only [Finset.mem_filter, Finset.mem_univ, true_and] at hx ⊢; exact h.fwd i k x hx
  · intro x hx; simp only [Finset.mem_filter, Finset.mem_univ, true_and] at hx ⊢; exact h.bwd i k x hx
  · intro x _; exact h.sl x
  · intro x _; exact h.sr x
  · intro x _; exact (hph x).symm


/-- the un-Hermitised block transforms covariantly -/
theorem dynmatRawC_rot {T : DTables np nf ns nsv} {M : SymMaps np ns nsv} (h : SvecsInvariant T M)
    (Q : Matrix (Fin 3) (Fin 3) R) (fc : Fin nf → Fin ns → Fin 3 → Fin 3 → R)
    (hfc : ∀ i k a b, fc (T.p2s (M.pi i)) (M.kap i k) a b = ∑ a', ∑ b', Q a a' * fc (T.p2s i) k a' b' * Q b b')
    (mm : Fin np → Fin np → R) (hmm : ∀ i j, mm (M.pi i) (M.pi j) = mm i j)
    (ph ph' : Fin nsv → Cx R) (hph : ∀ x, ph' (M.sig x) = ph x) (i a j b) :
    dynmatRawC T ph' mm fc (M.pi i) a (M.pi j) b
      = ∑ a', ∑ b', Cx.ofR (Q a a') * dynmatRawC T ph mm fc i a' j b' * Cx.ofR (Q b b') := by
  simp only [dynmatRawC_eq, hmm]
  let e : Fin ns ≃ Fin ns := ⟨M.kap i, M.kinv i, h.kl i, h.kr i⟩
  rw [← Equiv.sum_comp e]
  have he : ∀ k, e k = M.kap i k := fun _ => rfl
  simp only [he, h.sub, hfc, phaseAvgC_transport h ph ph' hph, Cx.ofR_sum, Cx.ofR_mul, Finset.mul_sum, Finset.sum_mul]
  conv_rhs => arg 2; ext y; rw [Finset.sum_comm]
  conv_rhs => rw [Finset.sum_comm]
  apply Finset.sum_congr rfl; intro k _
  by_cases hk : T.s2p k = T.p2s j
  · simp only [hk, if_true, Finset.mul_sum]
    apply Finset.sum_congr rfl; intro y _
    apply Finset.sum_congr rfl; intro x _
    ring
  · simp [hk]


/-- the Hermitiser commutes with the conjugation by the real matrix `Γ` -/
theorem hermC_rot (π : Equiv.Perm (Fin np)) (Q : Matrix (Fin 3) (Fin 3) R) (D D' : DM np (Cx R))
    (h : ∀ i a j b, D' (π i) a (π j) b = ∑ a', ∑ b', Cx.ofR (Q a a') * D i a' j b' * Cx.ofR (Q b b'))
    (i a j b) :
    hermC D' (π i) a (π j) b = ∑ a', ∑ b', Cx.ofR (Q a a') * hermC D i a' j b' * Cx.ofR (Q b b') := by
  have h2 : (2 : R) ≠ 0 := two_ne_zero
  rw [hermC_eq _ h2, h, h]
  simp only [hermC_eq _ h2, Cx.conj_sum, Cx.conj_mul, Cx.conj_ofR]
  conv_lhs => arg 2; arg 2; rw [Finset.sum_comm]
  rw [← Finset.sum_add_distrib, Finset.mul_sum]
  apply Finset.sum_congr rfl; intro x _
  rw [← Finset.sum_add_distrib, Finset.mul_sum]
  apply Finset.sum_congr rfl; intro y _
  ring

/-- **table-level covariance**: `D(Rq) = Γ D(q) Γᵀ` entrywise -/
theorem dynmatC_rot {T : DTables np nf ns nsv} {M : SymMaps np ns nsv} (h : SvecsInvariant T M)
    (Q : Matrix (Fin 3) (Fin 3) R) (fc : Fin nf → Fin ns → Fin 3 → Fin 3 → R)
    (hfc : ∀ i k a b, fc (T.p2s (M.pi i)) (M.kap i k) a b = ∑ a', ∑ b', Q a a' * fc (T.p2s i) k a' b' * Q b b')
    (mm : Fin np → Fin np → R) (hmm : ∀ i j, mm (M.pi i) (M.pi j) = mm i j)
    (ph ph' : Fin nsv → Cx R) (hph : ∀ x, ph' (M.sig x) = ph x) (i a j b) :
    dynmatC T ph' mm fc (h.perm i) a (h.perm j) b
      = ∑ a', ∑ b', Cx.ofR (Q a a') * dynmatC T ph mm fc i a' j b' * Cx.ofR (Q b b') := by
  unfold dynmatC
  exact hermC_rot h.perm Q _ _ (fun i a j b => dynmatRawC_rot h Q fc hfc mm hmm ph ph' hph i a j b) i a j b

end PhononModel
