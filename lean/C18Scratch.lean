import PhononModel.Model.Settings
open PhononModel.Settings
example : ∀ (a b c d e f g : Bool), (Action.band ∈ calcActions Mode.none ⟨a,b,c,d,e,f,g⟩ ↔ Mode.none = Mode.band ∨ Mode.none = Mode.bandMesh) := by decide
example : ∀ (a b c d e f g : Bool), ((calcActions Mode.none ⟨a,b,c,d,e,f,g⟩).length ≤ 3) := by decide
example : ∀ (a b c d e f g : Bool), (Action.meshIter ∈ calcActions Mode.mesh ⟨a,b,c,d,e,f,g⟩ ↔ (Mode.mesh = Mode.mesh ∨ Mode.mesh = Mode.bandMesh) ∧ ((⟨a,b,c,d,e,f,g⟩ : MeshIn).tdisp = true ∨ (⟨a,b,c,d,e,f,g⟩ : MeshIn).tdm = true)) := by decide
set_option synthInstance.maxSize 2000 in
set_option synthInstance.maxHeartbeats 200000 in
example : ∀ (a b c d e f g : Bool), (Action.band ∈ calcActions Mode.none ⟨a,b,c,d,e,f,g⟩ ↔ Mode.none = Mode.band ∨ Mode.none = Mode.bandMesh) ∧ 
  (Action.qpoints ∈ calcActions Mode.none ⟨a,b,c,d,e,f,g⟩ ↔ Mode.none = Mode.qpoints) ∧ (Action.anime ∈ calcActions Mode.none ⟨a,b,c,d,e,f,g⟩ ↔ Mode.none = Mode.anime) ∧
  (Action.qpoints ∈ calcActions Mode.none ⟨a,b,c,d,e,f,g⟩ ↔ Mode.none = Mode.qpoints) ∧ (Action.anime ∈ calcActions Mode.none ⟨a,b,c,d,e,f,g⟩ ↔ Mode.none = Mode.anime) ∧
  (Action.qpoints ∈ calcActions Mode.none ⟨a,b,c,d,e,f,g⟩ ↔ Mode.none = Mode.qpoints) ∧ (Action.anime ∈ calcActions Mode.none ⟨a,b,c,d,e,f,g⟩ ↔ Mode.none = Mode.anime) ∧
  (Action.qpoints ∈ calcActions Mode.none ⟨a,b,c,d,e,f,g⟩ ↔ Mode.none = Mode.qpoints) ∧ (Action.anime ∈ calcActions Mode.none ⟨a,b,c,d,e,f,g⟩ ↔ Mode.none = Mode.anime) ∧
  (Action.qpoints ∈ calcActions Mode.none ⟨a,b,c,d,e,f,g⟩ ↔ Mode.none = Mode.qpoints) ∧ (Action.anime ∈ calcActions Mode.none ⟨a,b,c,d,e,f,g⟩ ↔ Mode.none = Mode.anime) ∧
  (Action.qpoints ∈ calcActions Mode.none ⟨a,b,c,d,e,f,g⟩ ↔ Mode.none = Mode.qpoints) ∧ (Action.anime ∈ calcActions Mode.none ⟨a,b,c,d,e,f,g⟩ ↔ Mode.none = Mode.anime) := by decide
