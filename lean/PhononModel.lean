import PhononModel.Model
import PhononModel.Props.C07
