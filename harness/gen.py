"""Generators shared by the property checks (DESIGN.md section 4).

All random choices come from the `random.Random` handed in, so a seed replays.
"""

from __future__ import annotations

import itertools
from fractions import Fraction

import numpy as np

# --------------------------------------------------------------------------
# prototype crystals: (name, lattice rows, symbols, scaled positions, centring)
# --------------------------------------------------------------------------

def _c(a, b=None, c=None, al=90, be=90, ga=90):
    b = a if b is None else b
    c = a if c is None else c
    al, be, ga = np.radians([al, be, ga])
    va = [a, 0, 0]
    vb = [b * np.cos(ga), b * np.sin(ga), 0]
    cx = c * np.cos(be)
    cy = c * (np.cos(al) - np.cos(be) * np.cos(ga)) / np.sin(ga)
    cz = np.sqrt(max(c * c - cx * cx - cy * cy, 0))
    m = np.array([va, vb, [cx, cy, cz]])
    m[np.abs(m) < 1e-15] = 0
    return m


PROTOTYPES = {
    # conventional cells
    "sc": (_c(3.0), ["Po"], [[0, 0, 0]], "P"),
    "bcc": (_c(3.0), ["Fe", "Fe"], [[0, 0, 0], [0.5, 0.5, 0.5]], "I"),
    "fcc": (_c(4.0), ["Al"] * 4, [[0, 0, 0], [0, 0.5, 0.5], [0.5, 0, 0.5], [0.5, 0.5, 0]], "F"),
    "diamond": (_c(5.4), ["Si"] * 8, [[0, 0, 0], [0, 0.5, 0.5], [0.5, 0, 0.5], [0.5, 0.5, 0],
                                      [0.25, 0.25, 0.25], [0.25, 0.75, 0.75], [0.75, 0.25, 0.75], [0.75, 0.75, 0.25]], "F"),
    "nacl": (_c(5.6), ["Na"] * 4 + ["Cl"] * 4, [[0, 0, 0], [0, 0.5, 0.5], [0.5, 0, 0.5], [0.5, 0.5, 0],
                                                [0.5, 0.5, 0.5], [0.5, 0, 0], [0, 0.5, 0], [0, 0, 0.5]], "F"),
    "nacl_interleaved": (_c(5.6), ["Na", "Cl", "Na", "Cl", "Na", "Cl", "Na", "Cl"],
                         [[0, 0, 0], [0.5, 0.5, 0.5], [0, 0.5, 0.5], [0.5, 0, 0], [0.5, 0, 0.5], [0, 0.5, 0], [0.5, 0.5, 0], [0, 0, 0.5]], "F"),
    "cscl": (_c(4.1), ["Cs", "Cl"], [[0, 0, 0], [0.5, 0.5, 0.5]], "P"),
    "nacl_prim": (np.array([[0, 2.8, 2.8], [2.8, 0, 2.8], [2.8, 2.8, 0]]), ["Na", "Cl"], [[0, 0, 0], [0.5, 0.5, 0.5]], "P"),
    "zincblende_prim": (np.array([[0, 2.7, 2.7], [2.7, 0, 2.7], [2.7, 2.7, 0]]), ["Zn", "S"], [[0, 0, 0], [0.25, 0.25, 0.25]], "P"),
    "perovskite": (_c(3.9), ["Sr", "Ti", "O", "O", "O"], [[0, 0, 0], [0.5, 0.5, 0.5], [0.5, 0.5, 0], [0.5, 0, 0.5], [0, 0.5, 0.5]], "P"),
    "hcp": (_c(3.2, 3.2, 5.2, ga=120), ["Mg", "Mg"], [[1 / 3, 2 / 3, 0.25], [2 / 3, 1 / 3, 0.75]], "P"),
    "wurtzite": (_c(3.25, 3.25, 5.2, ga=120), ["Zn", "Zn", "O", "O"],
                 [[1 / 3, 2 / 3, 0], [2 / 3, 1 / 3, 0.5], [1 / 3, 2 / 3, 0.375], [2 / 3, 1 / 3, 0.875]], "P"),
    "rutile": (_c(4.6, 4.6, 2.96), ["Ti", "Ti", "O", "O", "O", "O"],
               [[0, 0, 0], [0.5, 0.5, 0.5], [0.3, 0.3, 0], [0.7, 0.7, 0], [0.2, 0.8, 0.5], [0.8, 0.2, 0.5]], "P"),
    "bct": (_c(3.0, 3.0, 4.5), ["In", "In"], [[0, 0, 0], [0.5, 0.5, 0.5]], "I"),
    "ortho_C": (_c(3.0, 4.0, 5.0), ["Ga", "Ga"], [[0, 0.1, 0.25], [0.5, 0.6, 0.25]], "C"),
    "ortho_A": (_c(3.0, 4.0, 5.0), ["Ga", "Ga"], [[0.1, 0, 0.25], [0.1, 0.5, 0.75]], "A"),
    "rhombo": (_c(4.0, 4.0, 4.0, 70, 70, 70), ["Bi", "Bi"], [[0.23, 0.23, 0.23], [0.77, 0.77, 0.77]], "P"),
    "rhombo_hex": (_c(4.5, 4.5, 11.0, ga=120), ["As"] * 6,
                   [[0, 0, 0.23], [0, 0, 0.77], [2 / 3, 1 / 3, 1 / 3 + 0.23], [2 / 3, 1 / 3, 1 / 3 - 0.23 + 0],
                    [1 / 3, 2 / 3, 2 / 3 + 0.23 - 1], [1 / 3, 2 / 3, 2 / 3 - 0.23]], "R"),
    "mono_P": (_c(3.0, 4.0, 5.0, be=105), ["Se", "Se"], [[0.1, 0.2, 0.3], [0.9, 0.7, 0.7]], "P"),
    "mono_C": (_c(5.0, 4.0, 3.5, be=110), ["Te", "Te"], [[0, 0.15, 0], [0.5, 0.65, 0]], "C"),
    "triclinic": (_c(3.1, 3.7, 4.3, 80, 95, 105), ["H", "He", "Li"], [[0.05, 0.1, 0.15], [0.4, 0.6, 0.3], [0.8, 0.35, 0.7]], "P"),
}

SMALL = ["sc", "cscl", "nacl_prim", "zincblende_prim", "hcp", "bcc", "bct", "triclinic", "mono_P", "rhombo"]


def make_cell(name):
    from phonopy.structure.atoms import PhonopyAtoms

    lat, sym, pos, cen = PROTOTYPES[name]
    return PhonopyAtoms(cell=np.array(lat, dtype=float), symbols=list(sym), scaled_positions=np.array(pos, dtype=float)), cen


def random_cell(rng, natom=None, nspecies=None):
    """Random triclinic-ish rational cell; atoms >= 0.12 apart in fractional coordinates."""
    from phonopy.structure.atoms import PhonopyAtoms

    while True:
        lat = np.array([[rng.randint(-8, 24) / 8.0 for _ in range(3)] for _ in range(3)])
        lat += np.diag([3.0, 3.0, 3.0])
        if abs(np.linalg.det(lat)) > 8:
            break
    natom = natom or rng.randint(1, 4)
    nspecies = nspecies or rng.randint(1, min(3, natom))
    pool = ["H", "O", "Si", "Na", "Cl"]
    pos = []
    while len(pos) < natom:
        p = [rng.randint(0, 15) / 16.0 for _ in range(3)]
        if all(max(abs(((a - b + 0.5) % 1) - 0.5) for a, b in zip(p, q)) >= 0.12 for q in pos):
            pos.append(p)
    syms = [pool[i % nspecies] for i in range(natom)]
    rng.shuffle(syms)
    return PhonopyAtoms(cell=lat, symbols=syms, scaled_positions=np.array(pos))


def supercell_matrices(rng, max_det=8, entries=(-1, 0, 1, 2), count=None, diagonal_max=3):
    """Integer matrices with 1 <= det <= max_det (positive determinant; phonopy's classic
    algorithm requires it), entries from `entries`."""
    out = []
    for d in itertools.product(range(1, diagonal_max + 1), repeat=3):
        if d[0] * d[1] * d[2] <= max_det:
            out.append(np.diag(d))
    tries = 0
    want = count or 20
    while len(out) < want + 10 and tries < 10000:
        tries += 1
        m = np.array([[rng.choice(entries) for _ in range(3)] for _ in range(3)])
        dt = int(round(np.linalg.det(m)))
        if 1 <= dt <= max_det:
            out.append(m)
    rng.shuffle(out)
    return out[:count] if count else out


def rand_rational_array(rng, shape, den=8, lim=16):
    n = int(np.prod(shape))
    return np.array([rng.randint(-lim, lim) / den for _ in range(n)], dtype="double").reshape(shape)


# --------------------------------------------------------------------------
# harmonic pair-potential models with exactly known force constants
# --------------------------------------------------------------------------

def pair_fc(supercell, cutoff, rng=None, kfun=None, images=2):
    """Supercell force constants of a central pair potential, all periodic images summed.

    Phi(i,j) = - sum_{images R} [ A(r) I + B(r) r r^T ],  r = x_j + R - x_i, |r| <= cutoff, (i,j,R) != self
    Phi(i,i) = - sum_{j != i} Phi(i,j)  (acoustic sum rule incl. self images)
    Obeys the space group of the structure, index-permutation symmetry and the sum rules by
    construction (A, B depend only on species pair and |r|^2)."""
    lat = supercell.cell
    pos = supercell.scaled_positions
    n = len(pos)
    nums = supercell.numbers
    if kfun is None:
        def kfun(za, zb, r2):
            s = (za * zb) % 7 + 1.0
            return (s / (1.0 + r2), 0.5 * s / (1.0 + r2) ** 2)
    fc = np.zeros((n, n, 3, 3))
    rng_i = range(-images, images + 1)
    shifts = np.array(list(itertools.product(rng_i, rng_i, rng_i)), dtype=float)
    for i in range(n):
        for j in range(n):
            d = pos[j] - pos[i]
            vecs = (d[None, :] + shifts) @ lat
            r2 = np.sum(vecs ** 2, axis=1)
            for v, rr in zip(vecs, r2):
                if rr < 1e-10 or rr > cutoff ** 2 * (1 + 1e-12):
                    continue
                a, b = kfun(int(nums[i]), int(nums[j]), rr)
                fc[i, j] -= a * np.eye(3) + b * np.outer(v, v)
    for i in range(n):
        fc[i, i] = 0
        fc[i, i] = -fc[i].sum(axis=0)
    return fc


def min_lattice_vector(lat):
    best = 1e99
    for s in itertools.product(range(-3, 4), repeat=3):
        if s == (0, 0, 0):
            continue
        best = min(best, np.linalg.norm(np.array(s) @ lat))
    return best


# --------------------------------------------------------------------------
# Phonopy objects
# --------------------------------------------------------------------------

def make_phonopy(cell, smat, pmat="auto", **kw):
    from phonopy import Phonopy

    return Phonopy(cell, supercell_matrix=smat, primitive_matrix=pmat, log_level=0, **kw)


def compact_tables(ph):
    """(p2s, s2pp, nsym_list, perms) as the Python layer passes them to the compact kernels."""
    from phonopy.harmonic.force_constants import get_nsym_list_and_s2pp

    prim = ph.primitive
    perms = prim.atomic_permutations
    s2pp, nsym = get_nsym_list_and_s2pp(prim.s2p_map, prim.p2p_map, perms)
    return np.array(prim.p2s_map, dtype=int), np.array(s2pp, dtype=int), np.array(nsym, dtype=int), np.array(perms, dtype=int)


# --------------------------------------------------------------------------
# the same crystal in another description (metamorphic inputs)
# --------------------------------------------------------------------------

UNIMODULAR = {
    "swap12": [[0, 1, 0], [1, 0, 0], [0, 0, 1]],        # det -1: left-handed if the cell was right-handed
    "negate3": [[1, 0, 0], [0, 1, 0], [0, 0, -1]],      # det -1
    "invert": [[-1, 0, 0], [0, -1, 0], [0, 0, -1]],     # det -1
    "shear": [[1, 1, 0], [0, 1, 0], [0, 0, 1]],         # det +1, non-reduced basis
    "cyclic": [[0, 1, 0], [0, 0, 1], [1, 0, 0]],        # det +1
}


def relabelled_cell(cell, M):
    """The same crystal with lattice vectors a'_i = sum_j M_ij a_j (M integer, det +-1; rows of `cell.cell` are the
    vectors).  Returns (cell', qmap, smap): reduced positions x' = M^-T x (wrapped into [0,1)), a reduced q-point q of the
    old description is q' = qmap(q) = M q in the new one (same Cartesian q), and a supercell matrix S (phonopy's column
    convention, A_s = A S with the lattice vectors as columns of A) becomes S' = smap(S) = M^-T S M^T: the same supercell
    lattice described by correspondingly relabelled supercell vectors, det S' = det S > 0.  Masses, symbols, magnetic moments are kept.
    With det M = -1 a right-handed cell becomes left-handed (negative `PhonopyAtoms.volume`): every physical result
    (spectrum at corresponding q, thermal properties, force-constant recovery ...) must be the same."""
    from phonopy.structure.atoms import PhonopyAtoms

    M = np.array(M, dtype=int)
    d = int(round(np.linalg.det(M)))
    assert abs(d) == 1, "M must be unimodular"
    Minv = np.rint(np.linalg.inv(M)).astype(int)
    assert (Minv @ M == np.eye(3, dtype=int)).all()
    lat = M @ np.array(cell.cell, dtype="double")
    pos = np.array(cell.scaled_positions, dtype="double") @ Minv          # x' = M^-T x  <=>  x'^T = x^T M^-1
    pos = pos - np.floor(pos + 1e-12)
    kw = dict(symbols=list(cell.symbols), cell=lat, scaled_positions=pos, masses=None if cell.masses is None else list(cell.masses))
    if getattr(cell, "magnetic_moments", None) is not None:
        kw["magnetic_moments"] = cell.magnetic_moments
    new = PhonopyAtoms(**kw)

    def qmap(q):
        return np.array(q, dtype="double") @ M.T                        # q'_i = sum_j M_ij q_j

    def smap(S):
        return Minv.T @ np.array(S, dtype=int) @ M.T

    return new, qmap, smap
