"""Common machinery for all property checks (see DESIGN.md section 1).

* builds the five C kernels + the *unchanged* c/_phonopy.cpp glue from /repo
  (against harness/nbstub, a stand-in for nanobind) on every run,
* installs the result as ``phonopy._phonopy`` and imports phonopy from /repo,
* builds / audits the Lean project and drives the Lean model over a line protocol,
* writes evidence, replays, handles known findings and the verdict.
"""

from __future__ import annotations

import ctypes
import hashlib
import json
import os
import random
import re
import subprocess
import sys
import time
import types
from fractions import Fraction

VERIF = os.path.dirname(os.path.dirname(os.path.abspath(__file__)))
REPO = os.environ.get("VERIF_REPO", "/repo")
BUILD = os.path.join(VERIF, ".build")
LEAN_DIR = os.path.join(VERIF, "lean")
DEPS = os.path.join(VERIF, ".deps")
STD_AXIOMS = {"propext", "Classical.choice", "Quot.sound"}

C_SOURCES = ["phonopy.c", "dynmat.c", "derivative_dynmat.c", "rgrid.c", "tetrahedron_method.c"]


class Broken(Exception):
    """A proof obligation or a correspondence no longer checks."""

    def __init__(self, what, detail=None):
        super().__init__(what)
        self.what = what
        self.detail = detail


# --------------------------------------------------------------------------
# build of the compiled kernels from /repo's working tree
# --------------------------------------------------------------------------

def _hash_files(paths):
    h = hashlib.sha256()
    for p in sorted(paths):
        h.update(p.encode())
        with open(p, "rb") as f:
            h.update(f.read())
    return h.hexdigest()[:16]


def build_lib(variant="omp", extra_flags=(), tag=None):
    """Compile /repo/c into a shared object. variant: 'omp' | 'ser'.

    The output name carries a hash of every input file, so a rebuild happens
    whenever anything under /repo/c (or the stub) changes; an identical tree
    re-uses the object (sound: same bytes in, same compiler)."""
    os.makedirs(BUILD, exist_ok=True)
    cdir = os.path.join(REPO, "c")
    inputs = [os.path.join(cdir, f) for f in os.listdir(cdir) if f.endswith((".c", ".h", ".cpp"))]
    stub = os.path.join(VERIF, "harness", "nbstub", "nanobind", "nanobind.h")
    hsh = _hash_files(inputs + [stub])
    name = "libphpy_%s_%s%s.so" % (variant, hsh, ("_" + tag) if tag else "")
    out = os.path.join(BUILD, name)
    if os.path.exists(out):
        return out
    flags = ["-O2", "-fPIC", "-DTHM_EPSILON=1e-10", "-fno-gnu-unique"]
    if variant == "omp":
        flags.append("-fopenmp")
    flags += list(extra_flags)
    inc = ["-I" + os.path.join(VERIF, "harness", "nbstub"), "-I" + cdir]
    tmp = out + ".tmp%d" % os.getpid()
    objdir = tmp + ".o"
    os.makedirs(objdir, exist_ok=True)
    ccomp = os.environ.get("VERIF_CC", "gcc")
    cxxcomp = os.environ.get("VERIF_CXX", "g++")
    procs = []
    objs = []
    for f in C_SOURCES:
        o = os.path.join(objdir, f + ".o")
        objs.append(o)
        procs.append(subprocess.Popen([ccomp] + flags + inc + ["-c", os.path.join(cdir, f), "-o", o], stderr=subprocess.PIPE, text=True))
    o = os.path.join(objdir, "_phonopy.o")
    objs.append(o)
    procs.append(subprocess.Popen([cxxcomp, "-std=c++17"] + flags + inc + ["-c", os.path.join(cdir, "_phonopy.cpp"), "-o", o], stderr=subprocess.PIPE, text=True))
    errs = ""
    for pr in procs:
        _, e = pr.communicate()
        if pr.returncode != 0:
            errs += e
    if errs:
        raise Broken("c-build-failed", errs[-4000:])
    r = subprocess.run([cxxcomp, "-shared"] + flags + objs + ["-o", tmp, "-lm"], capture_output=True, text=True)
    import shutil
    shutil.rmtree(objdir, ignore_errors=True)
    if r.returncode != 0:
        raise Broken("c-build-failed", r.stderr[-4000:])
    os.replace(tmp, out)
    # drop objects of this variant that are older than an hour (other runs may still map newer ones)
    now = time.time()
    for f in os.listdir(BUILD):
        fp = os.path.join(BUILD, f)
        if f.startswith("libphpy_") and f.endswith(".so") and f != name:
            try:
                if now - os.path.getmtime(fp) > 3600:
                    os.remove(fp)
            except OSError:
                pass
    return out


class _Arg(ctypes.Structure):
    _fields_ = [
        ("kind", ctypes.c_int),
        ("data", ctypes.c_void_p),
        ("ndim", ctypes.c_int64),
        ("shape", ctypes.c_int64 * 8),
        ("i", ctypes.c_int64),
        ("d", ctypes.c_double),
        ("s", ctypes.c_char_p),
    ]


class Shim:
    """The compiled glue as a Python module-like object."""

    def __init__(self, path):
        import numpy as np

        self._np = np
        self.path = path
        self.lib = ctypes.CDLL(path)
        self.lib.nbstub_nfuncs.restype = ctypes.c_int
        self.lib.nbstub_func_name.restype = ctypes.c_char_p
        self.lib.nbstub_func_name.argtypes = [ctypes.c_int]
        self.lib.nbstub_func_kinds.restype = ctypes.c_char_p
        self.lib.nbstub_func_kinds.argtypes = [ctypes.c_char_p]
        self.lib.nbstub_call.restype = ctypes.c_int
        self.lib.nbstub_call.argtypes = [ctypes.c_char_p, ctypes.c_int, ctypes.POINTER(_Arg), ctypes.POINTER(_Arg)]
        self.names = [self.lib.nbstub_func_name(k).decode() for k in range(self.lib.nbstub_nfuncs())]
        self.kinds = {n: self.lib.nbstub_func_kinds(n.encode()).decode() for n in self.names}
        self.trace = None  # optional callable(name, args) for footprint checks

    def call(self, name, *args):
        np = self._np
        kinds = self.kinds[name]
        if len(args) != len(kinds):
            raise TypeError("%s(): expected %d arguments, got %d" % (name, len(kinds), len(args)))
        arr = (_Arg * max(1, len(args)))()
        keep = []
        for k, (a, kd) in enumerate(zip(args, kinds)):
            if kd == "a":
                if not isinstance(a, np.ndarray):
                    raise TypeError("%s(): argument %d must be ndarray, got %r" % (name, k, type(a)))
                arr[k].kind = 0
                arr[k].data = a.ctypes.data
                arr[k].ndim = a.ndim
                for j in range(min(8, a.ndim)):
                    arr[k].shape[j] = a.shape[j]
                keep.append(a)
            elif kd == "i":
                if isinstance(a, (float, np.floating)):
                    raise TypeError("%s(): argument %d must be int" % (name, k))
                arr[k].kind = 1
                arr[k].i = int(a)
            elif kd == "d":
                arr[k].kind = 2
                arr[k].d = float(a)
            elif kd == "s":
                b = a.encode() if isinstance(a, str) else bytes(a)
                keep.append(b)
                arr[k].kind = 3
                arr[k].s = b
        if self.trace is not None:
            self.trace(name, args)
        out = _Arg()
        rc = self.lib.nbstub_call(name.encode(), len(args), arr, ctypes.byref(out))
        if rc != 0:
            raise RuntimeError("nbstub_call(%s) failed rc=%d" % (name, rc))
        if out.kind == -1:
            return None
        if out.kind == 1:
            return int(out.i)
        if out.kind == 4:
            return bool(out.i)
        return float(out.d)

    def as_module(self):
        m = types.ModuleType("phonopy._phonopy")
        m.__file__ = self.path
        m._shim = self
        for n in self.names:
            m.__dict__[n] = (lambda nm: (lambda *a: self.call(nm, *a)))(n)
        return m


_STATE = {}


def setup_phonopy(variant="omp"):
    """Build the kernels, install the shim as phonopy._phonopy, import phonopy from /repo."""
    if os.path.isdir(DEPS) and DEPS not in sys.path:
        sys.path.insert(0, DEPS)
    if REPO not in sys.path:
        sys.path.insert(0, REPO)
    path = build_lib(variant)
    shim = Shim(path)
    mod = shim.as_module()
    sys.modules["phonopy._phonopy"] = mod
    import phonopy

    if not os.path.abspath(phonopy.__file__).startswith(os.path.abspath(REPO) + os.sep):
        raise RuntimeError("phonopy imported from %s, not from %s" % (phonopy.__file__, REPO))
    phonopy._phonopy = mod
    _STATE["shim"] = shim
    _STATE["variant"] = variant
    return shim


def switch_variant(variant):
    """Swap the compiled library under an already imported phonopy (omp <-> ser)."""
    path = build_lib(variant)
    shim = Shim(path)
    old = sys.modules.get("phonopy._phonopy")
    mod = shim.as_module()
    if old is not None:
        # modules did `import phonopy._phonopy as phonoc`: they hold the module
        # object, so mutate it in place.
        for n in shim.names:
            old.__dict__[n] = mod.__dict__[n]
        old._shim = shim
        old.__file__ = path
    else:
        sys.modules["phonopy._phonopy"] = mod
    _STATE["shim"] = shim
    _STATE["variant"] = variant
    return shim


# --------------------------------------------------------------------------
# Lean: build, audit, drive
# --------------------------------------------------------------------------

def _run(cmd, cwd=None, timeout=3600, input=None):
    """subprocess.run, but on timeout the whole process group is killed (lake leaves its `lean` child running)."""
    p = subprocess.Popen(cmd, cwd=cwd, stdout=subprocess.PIPE, stderr=subprocess.PIPE, text=True,
                         stdin=subprocess.PIPE if input is not None else None, start_new_session=True)
    try:
        out, err = p.communicate(input=input, timeout=timeout)
    except subprocess.TimeoutExpired:
        try:
            os.killpg(p.pid, 9)
        except OSError:
            pass
        p.communicate()
        raise
    except BaseException:
        try:
            os.killpg(p.pid, 9)
        except OSError:
            pass
        raise
    return subprocess.CompletedProcess(cmd, p.returncode, out, err)


FORBIDDEN = re.compile(r"\b(sorry|admit|native_decide|bv_decide|implemented_by|unsafe)\b|^axiom\s|maxHeartbeats 0")


def _strip_comments(src):
    # remove /- ... -/ (nested) and -- ... comments
    out = []
    i, depth, n = 0, 0, len(src)
    while i < n:
        if src.startswith("/-", i):
            depth += 1
            i += 2
        elif depth and src.startswith("-/", i):
            depth -= 1
            i += 2
        elif depth:
            if src[i] == "\n":
                out.append("\n")
            i += 1
        elif src.startswith("--", i):
            while i < n and src[i] != "\n":
                i += 1
        elif src[i] == '"':
            j = i + 1
            while j < n and src[j] != '"':
                j += 2 if src[j] == "\\" else 1
            out.append('""')
            i = j + 1
        else:
            out.append(src[i])
            i += 1
    return "".join(out)


def _import_closure(src):
    """Files of this project reachable from `src` through `import PhononModel.…` lines."""
    seen, todo = set(), [src]
    while todo:
        f = todo.pop()
        if f in seen or not os.path.exists(f):
            continue
        seen.add(f)
        for m in re.findall(r"^import\s+(PhononModel(?:\.\S+)?)", open(f).read(), re.M):
            todo.append(os.path.join(LEAN_DIR, *m.split(".")) + ".lean")
    return seen


def lean_grep_forbidden(files=None):
    hits = []
    for root, _, fs in os.walk(os.path.join(LEAN_DIR, "PhononModel")):
        for f in fs:
            if f.endswith(".lean"):
                p = os.path.join(root, f)
                if files is not None and p not in files:
                    continue
                src = _strip_comments(open(p).read())
                for ln, line in enumerate(src.split("\n"), 1):
                    if FORBIDDEN.search(line):
                        hits.append("%s:%d: %s" % (os.path.relpath(p, VERIF), ln, line.strip()))
    return hits


def lean_build(module, timeout=3000):
    """lake build one module (incremental). Returns (ok, output)."""
    r = _run(["lake", "build", module], cwd=LEAN_DIR, timeout=timeout)
    return r.returncode == 0, (r.stdout + r.stderr)


def lean_audit(prop_id, extra_modules=()):
    """Build Props/<id> and return dict theorem -> axioms, parsed from `#print axioms`.

    The Props file ends with `#print axioms thm` lines; lake replays their
    messages on every build (also a no-op one), so the audit reflects the
    compiled state."""
    module = "PhononModel.Props.%s" % prop_id
    ok, out = lean_build(module)
    res = {"module": module, "build_ok": ok, "theorems": {}, "log_tail": out[-3000:]}
    if not ok:
        return res
    src = os.path.join(LEAN_DIR, "PhononModel", "Props", prop_id + ".lean")
    # lake replays the info messages of an up-to-date module, so `out` always carries them
    text = out
    for m in re.finditer(r"'([^']+)' depends on axioms: \[([^\]]*)\]", text):
        res["theorems"][m.group(1)] = sorted(a.strip() for a in m.group(2).replace("\n", " ").split(",") if a.strip())
    for m in re.finditer(r"'([^']+)' does not depend on any axioms", text):
        res["theorems"][m.group(1)] = []
    res["declared"] = re.findall(r"^#print axioms\s+(\S+)", _strip_comments(open(src).read()), re.M)
    res["forbidden_hits"] = lean_grep_forbidden(_import_closure(src))
    if "sorry" in text and "declaration uses 'sorry'" in text:
        res["forbidden_hits"].append("declaration uses 'sorry' (elaborator warning)")
    return res


def audit_verdict(aud):
    """Returns (obligations, discharged, problems)."""
    problems = []
    if not aud["build_ok"]:
        problems.append("lake build %s failed" % aud["module"])
        return max(1, len(aud.get("declared", []))), 0, problems
    decl = aud["declared"]
    ok = 0
    for t in decl:
        ax = aud["theorems"].get(t)
        if ax is None:
            problems.append("theorem %s: no `#print axioms` output" % t)
        elif not set(ax) <= STD_AXIOMS:
            problems.append("theorem %s depends on non-standard axioms %s" % (t, ax))
        else:
            ok += 1
    if aud["forbidden_hits"]:
        problems.append("forbidden tokens: " + "; ".join(aud["forbidden_hits"][:5]))
    return len(decl), ok, problems


def lean_run_driver(prop_id, lines, timeout=3000):
    """Feed lines to Drivers/<prop_id>.lean, return list of output lines (one per input)."""
    drv = os.path.join(LEAN_DIR, "Drivers", "%s.lean" % prop_id)
    mods = re.findall(r"^import\s+(PhononModel\.\S+)", open(drv).read(), re.M)
    for m in mods:
        ok, out = lean_build(m)
        if not ok:
            raise Broken("lean-model-build-failed", out[-3000:])
    return lean_run(lines, timeout=timeout, driver="Drivers/%s.lean" % prop_id)


DRIVER_TIMEOUT = {"quick": 600, "thorough": 3000}


def lean_run(lines, timeout=3000, driver="Driver.lean"):
    """Feed lines to the Lean driver, return list of output lines (one per input)."""
    if isinstance(lines, list):
        data = "\n".join(lines) + "\n"
    else:
        data = lines
    timeout = min(timeout, DRIVER_TIMEOUT.get(os.environ.get("VERIF_TIER_RUNNING", "quick"), timeout))
    try:
        r = _run(["lake", "env", "lean", "--run", driver], cwd=LEAN_DIR, timeout=timeout, input=data)
    except subprocess.TimeoutExpired:
        # the model did not answer in time on what the implementation produced (on the unchanged tree every driver
        # answers within a minute or two): the correspondence does not check; the failing-input search goes on.
        raise Broken("lean-driver-timeout", "%s gave no answer within %d s on %d request lines" % (driver, timeout, data.count("\n")))
    if r.returncode != 0:
        raise Broken("lean-driver-failed", (r.stdout[-2000:] + r.stderr[-2000:]))
    out = r.stdout.split("\n")
    if out and out[-1] == "":
        out.pop()
    return out


def leanchecker(module, timeout=3000):
    r = _run(["lake", "env", "leanchecker", module], cwd=LEAN_DIR, timeout=timeout)
    return r.returncode == 0, (r.stdout + r.stderr)[-2000:]


# --------------------------------------------------------------------------
# exact numbers on the wire
# --------------------------------------------------------------------------

def q(x):
    """Exact rational text of a float / int / Fraction: 'n/d' or 'n'."""
    if isinstance(x, Fraction):
        f = x
    elif isinstance(x, int):
        return str(x)
    else:
        f = Fraction(float(x))
    return str(f.numerator) if f.denominator == 1 else "%d/%d" % (f.numerator, f.denominator)


def parse_q(s):
    return Fraction(s)


# --------------------------------------------------------------------------
# evidence, findings, verdict
# --------------------------------------------------------------------------

def load_known_findings():
    p = os.path.join(VERIF, "known_findings.json")
    if not os.path.exists(p):
        return {"findings": [], "fixed": []}
    return json.load(open(p))


class Run:
    """One check run: collects coverage, problems, violations; writes evidence; exits."""

    def __init__(self, prop_id, tier, seed, level="proof"):
        self.id = prop_id
        self.tier = tier
        self.seed = seed
        self.level = level
        self.t0 = time.time()
        self.rng = random.Random(seed * 1000003 + sum(map(ord, prop_id)))
        self.cov = {
            "evaluations": 0,
            "distinct_nontrivial": 0,
            "rule": "",
            "samples": [],
            "obligations": 0,
            "discharged": 0,
            "checker_cmd": "cd /verif/lean && lake build PhononModel.Props.%s && lake env lean PhononModel/Props/%s.lean  (#print axioms audit)" % (prop_id, prop_id),
            "trusted_base": [],
            "theorems": {},
            "correspondence": {},
            "oracle": {},
            "distribution": {},
        }
        self.assumptions = []
        self.broken = []  # (what, detail) proof/correspondence problems
        self.violations = []  # dicts: real failing inputs on the implementation
        self.known = []
        self._nontrivial = set()
        self.kf = load_known_findings()

    # ---- coverage helpers
    def count(self, key, n=1, section="distribution"):
        d = self.cov[section]
        d[key] = d.get(key, 0) + n

    def case(self, canonical, nontrivial=True):
        self.cov["evaluations"] += 1
        if nontrivial:
            self._nontrivial.add(hashlib.sha1(repr(canonical).encode()).hexdigest())

    def sample(self, obj, limit=4):
        if len(self.cov["samples"]) < limit:
            self.cov["samples"].append(obj)

    # ---- proof step
    def proof_step(self, leancheck=False):
        aud = lean_audit(self.id)
        ob, ok, problems = audit_verdict(aud)
        self.cov["obligations"] = ob
        self.cov["discharged"] = ok
        self.cov["theorems"] = aud["theorems"]
        for p in problems:
            self.broken.append(("proof", p + ("\n" + aud["log_tail"] if not aud["build_ok"] else "")))
        if leancheck and aud["build_ok"]:
            okc, out = leanchecker("PhononModel.Props.%s" % self.id)
            self.cov["leanchecker"] = "ok" if okc else "FAILED"
            if not okc:
                self.broken.append(("proof", "leanchecker failed: " + out))
        return aud

    # ---- reporting
    def broke(self, kind, what, detail=None):
        self.broken.append((kind, what if detail is None else "%s :: %s" % (what, detail)))

    def violation(self, site, klass, what, case):
        """A failing input on the real implementation."""
        for f in self.kf.get("findings", []):
            m = f.get("match", {})
            if f.get("property") == self.id and m.get("site") == site and m.get("class") == klass:
                if not any(k["id"] == f["id"] for k in self.known):
                    self.known.append({"id": f["id"], "what": f.get("what", what), "case": case})
                return
        self.violations.append({"site": site, "class": klass, "what": what, "case": case})

    def finish(self):
        self.cov["distinct_nontrivial"] = len(self._nontrivial)
        wall = time.time() - self.t0
        ev = {
            "property_id": self.id,
            "tier": self.tier,
            "seed": self.seed,
            "level": self.level,
            "coverage": self.cov,
            "assumptions": self.assumptions,
            "wall_s": round(wall, 2),
            "violations": len(self.violations) + (1 if (self.broken and not self.violations) else 0),
        }
        self.cov["known_findings_hit"] = [k["id"] for k in self.known]
        self.cov["broken"] = [b[1][:500] for b in self.broken]
        # seeded-change trials (tools/try_seed.sh) must not overwrite the evidence of the real tree
        evdir = os.environ.get("VERIF_EVIDENCE_DIR") or os.path.join(VERIF, "evidence")
        os.makedirs(evdir, exist_ok=True)
        with open(os.path.join(evdir, self.id + ".json"), "w") as f:
            json.dump(ev, f, indent=1, default=_jsondefault)
        for k in self.known:
            print("KNOWN-FINDING: property=%s %s %s" % (self.id, k["id"], k["what"]))
        if not self.violations and not self.broken:
            print("OK property=%s tier=%s seed=%d obligations=%d/%d evaluations=%d nontrivial=%d wall=%.1fs" % (
                self.id, self.tier, self.seed, self.cov["discharged"], self.cov["obligations"],
                self.cov["evaluations"], self.cov["distinct_nontrivial"], wall))
            sys.exit(0)
        os.makedirs(os.path.join(VERIF, "replays"), exist_ok=True)
        path = os.path.join(VERIF, "replays", "%s-%d.json" % (self.id, self.seed))
        rep = {
            "property": self.id,
            "seed": self.seed,
            "tier": self.tier,
            "rerun": "cd /verif && VERIF_SEED=%d ./check %s --tier %s" % (self.seed, self.id, self.tier),
            "violations": self.violations[:20],
            "no_longer_checks": [{"kind": k, "what": w} for k, w in self.broken[:20]],
        }
        with open(path, "w") as f:
            json.dump(rep, f, indent=1, default=_jsondefault)
        rel = os.path.relpath(path, VERIF)
        if self.violations:
            v = self.violations[0]
            print("failing input: site=%s class=%s :: %s" % (v["site"], v["class"], v["what"]))
            print("VIOLATION property=%s replay=%s" % (self.id, rel))
        else:
            for k, w in self.broken[:5]:
                print("no longer checks [%s]: %s" % (k, w[:1500]))
            print("VIOLATION property=%s replay=%s no-failing-input-found" % (self.id, rel))
        sys.exit(1)


def _jsondefault(o):
    try:
        import numpy as np

        if isinstance(o, np.ndarray):
            return o.tolist()
        if isinstance(o, (np.integer,)):
            return int(o)
        if isinstance(o, (np.floating,)):
            return float(o)
        if isinstance(o, (np.bool_,)):
            return bool(o)
        if isinstance(o, complex):
            return [o.real, o.imag]
    except Exception:
        pass
    if isinstance(o, Fraction):
        return str(o)
    if isinstance(o, (set, tuple)):
        return list(o)
    return repr(o)
