#pragma once
#include "nanobind.h"
