// Stand-in for nanobind used by the verification harness (NOT nanobind).
// It lets c/_phonopy.cpp be compiled *unchanged*: every `py_*` glue function
// is registered by NB_MODULE exactly as in the real extension and is reachable
// through one C entry point `nbstub_call`.  What is replaced is only the
// Python<->C++ argument conversion of nanobind itself.
#pragma once
#include <stdint.h>
#include <stddef.h>
#include <string.h>
#include <functional>
#include <map>
#include <string>
#include <utility>

extern "C" {
typedef struct {
    int kind;            /* 0 ndarray, 1 int, 2 double, 3 string */
    void *data;
    int64_t ndim;
    int64_t shape[8];
    int64_t i;
    double d;
    const char *s;
} nbstub_arg;
}

namespace nanobind {

template <typename... T>
struct ndarray {
    void *data_;
    int64_t ndim_;
    int64_t shape_[8];
    void *data() const { return data_; }
    size_t shape(size_t k) const { return (size_t)shape_[k]; }
    size_t ndim() const { return (size_t)ndim_; }
};

namespace detail {
template <typename A> struct conv;
template <typename... T> struct conv<ndarray<T...>> {
    static ndarray<T...> get(const nbstub_arg &a) {
        ndarray<T...> r; r.data_ = a.data; r.ndim_ = a.ndim;
        for (int k = 0; k < 8; k++) r.shape_[k] = a.shape[k];
        return r;
    }
};
template <> struct conv<int64_t> { static int64_t get(const nbstub_arg &a) { return a.i; } };
template <> struct conv<int> { static int get(const nbstub_arg &a) { return (int)a.i; } };
template <> struct conv<double> { static double get(const nbstub_arg &a) { return a.kind == 1 ? (double)a.i : a.d; } };
template <> struct conv<const char *> { static const char *get(const nbstub_arg &a) { return a.s; } };

template <typename R> struct ret {
    template <typename F> static void call(F &&f, nbstub_arg *out) {
        auto v = f(); out->kind = 2; out->d = (double)v; out->i = (int64_t)v;
    }
};
template <> struct ret<void> {
    template <typename F> static void call(F &&f, nbstub_arg *out) { f(); out->kind = -1; }
};
template <> struct ret<bool> {
    template <typename F> static void call(F &&f, nbstub_arg *out) { bool v = f(); out->kind = 4; out->i = v ? 1 : 0; }
};
template <> struct ret<int64_t> {
    template <typename F> static void call(F &&f, nbstub_arg *out) { int64_t v = f(); out->kind = 1; out->i = v; }
};
template <> struct ret<int> {
    template <typename F> static void call(F &&f, nbstub_arg *out) { int v = f(); out->kind = 1; out->i = v; }
};

struct entry {
    int nargs;
    std::string kinds;  /* per argument: a ndarray, i int, d double, s string */
    std::function<void(const nbstub_arg *, nbstub_arg *)> fn;
};
static std::map<std::string, entry> &registry() {  // internal linkage: one registry per shared object
    static std::map<std::string, entry> r;
    return r;
}
template <typename A> struct kindof;
template <typename... T> struct kindof<ndarray<T...>> { static const char v = 'a'; };
template <> struct kindof<int64_t> { static const char v = 'i'; };
template <> struct kindof<int> { static const char v = 'i'; };
template <> struct kindof<double> { static const char v = 'd'; };
template <> struct kindof<const char *> { static const char v = 's'; };

template <typename R, typename... A, size_t... I>
void invoke(R (*f)(A...), const nbstub_arg *args, nbstub_arg *out, std::index_sequence<I...>) {
    ret<R>::call([&]() { return f(conv<A>::get(args[I])...); }, out);
}
}  // namespace detail

struct module_ {
    template <typename R, typename... A>
    module_ &def(const char *name, R (*f)(A...)) {
        detail::entry e;
        e.nargs = (int)sizeof...(A);
        const char ks[] = {detail::kindof<A>::v..., 0};
        e.kinds = ks;
        e.fn = [f](const nbstub_arg *args, nbstub_arg *out) {
            detail::invoke(f, args, out, std::index_sequence_for<A...>{});
        };
        detail::registry()[name] = e;
        return *this;
    }
};
}  // namespace nanobind

#define NB_MODULE(name, var)                                                   \
    static void nbstub_init_##name(nanobind::module_ &var);                    \
    extern "C" int nbstub_nfuncs(void) {                                       \
        if (nanobind::detail::registry().empty()) {                            \
            nanobind::module_ m_; nbstub_init_##name(m_);                      \
        }                                                                      \
        return (int)nanobind::detail::registry().size();                       \
    }                                                                          \
    extern "C" const char *nbstub_func_name(int k) {                           \
        nbstub_nfuncs();                                                       \
        auto it = nanobind::detail::registry().begin();                        \
        for (int i = 0; i < k; i++) ++it;                                      \
        return it->first.c_str();                                              \
    }                                                                          \
    extern "C" const char *nbstub_func_kinds(const char *fname) {              \
        nbstub_nfuncs();                                                       \
        auto it = nanobind::detail::registry().find(fname);                    \
        if (it == nanobind::detail::registry().end()) return 0;                \
        return it->second.kinds.c_str();                                       \
    }                                                                          \
    extern "C" int nbstub_call(const char *fname, int nargs,                   \
                               const nbstub_arg *args, nbstub_arg *out) {      \
        nbstub_nfuncs();                                                       \
        auto it = nanobind::detail::registry().find(fname);                    \
        if (it == nanobind::detail::registry().end()) return -1;               \
        if (it->second.nargs != nargs) return -2;                              \
        it->second.fn(args, out);                                              \
        return 0;                                                              \
    }                                                                          \
    static void nbstub_init_##name(nanobind::module_ &var)
