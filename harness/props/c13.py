"""C13 — compiled kernels: reference semantics, thread-count independence, memory footprint.

Proof step: Props/C13.lean (write-disjointness / bounds of the 11 OpenMP loops for all sizes, schedule freedom).
Correspondence: (a) the pragma inventory recomputed from /repo/c equals the one the model was written against;
(b) every kernel call the Python layer makes in generated scenarios is captured (shapes/dtypes as really passed),
replayed through the compiled glue inside guard zones with two pre-fill patterns: the set of cells changed must lie
inside (assign kernels: equal) the Lean model's write set, guards and inputs intact, element types as the glue casts.
Oracle (the property on the real code): bitwise equality of every kernel result and of every public result across
OMP thread counts {1,2,3,4,8,16}, OpenMP/serial builds, repeated runs; agreement with the in-repository Python
reference (or a transcription of the documented formula) to 1e-9*scale."""

from __future__ import annotations

import hashlib
import json
import os
import pickle
import re
import subprocess
import sys
import tempfile

import numpy as np

from .. import common, gen
from . import c13_ref as ref
from . import c13_util as U

TOL = 1e-9


def _close(a, b, scale=None):
    """max|a-b| <= TOL*scale on the finite entries; the pattern of non-finite entries (nan, +inf, -inf) must be identical
    (equal NaNs / equal infinities are not a difference)"""
    a = np.asarray(a)
    b = np.asarray(b)
    if a.shape != b.shape:
        return False, float("inf")
    if a.size == 0:
        return True, 0.0
    fa, fb = np.isfinite(a), np.isfinite(b)
    if not (fa == fb).all():
        return False, float("inf")
    if not fa.all():
        na, nb_ = a[~fa], b[~fb]
        same = (np.isnan(na) == np.isnan(nb_)).all() and (np.where(np.isnan(na), 0, na) == np.where(np.isnan(nb_), 0, nb_)).all()
        if not same:
            return False, float("inf")
        a, b = a[fa], b[fb]
        if a.size == 0:
            return True, 0.0
    s = max(1.0, float(np.abs(b).max()) if scale is None else scale)
    d = float(np.abs(a - b).max())
    return d <= TOL * s, d


def _hash(x):
    h = hashlib.sha1()
    if isinstance(x, (list, tuple)):
        for y in x:
            h.update(_hash(y).encode())
    elif x is None:
        h.update(b"None")
    else:
        a = np.ascontiguousarray(x)
        h.update(str(a.dtype).encode() + str(a.shape).encode() + a.view(np.uint8).tobytes())
    return h.hexdigest()


# --------------------------------------------------------------------------
# scenario: everything goes through public entry points
# --------------------------------------------------------------------------

def make_config(rng, thorough):
    names = ["nacl_prim", "cscl", "zincblende_prim", "hcp", "bct", "bcc", "rhombo", "triclinic", "mono_P", "fcc"]  # ("sc" is Po: no tabulated mass)
    while True:
        name = rng.choice(names)
        lat, sym, pos, cen = gen.PROTOTYPES[name]
        smat = rng.choice(gen.supercell_matrices(rng, max_det=4 if cen == "P" else 2, count=10))
        n = len(sym) * int(round(np.linalg.det(smat)))
        if 2 <= n <= (36 if thorough else 16) and int(round(np.linalg.det(smat))) >= 2:
            break
    return dict(
        cell=name, smat=np.array(smat).tolist(), pmat="auto" if cen != "P" else "P",
        dense=rng.random() < 0.6, compact=rng.random() < 0.5,
        nac=rng.choice(["gonze", "wang", "gonze"]), d2f_omp=rng.random() < 0.5,
        mesh=[rng.choice([2, 3, 4]) for _ in range(3)], gamma_center=rng.random() < 0.5,
        qs=[[rng.randint(-8, 8) / 16.0 for _ in range(3)] for _ in range(3)],
        noise=rng.random() < 0.5, seed=rng.randint(0, 10**6),
    )


def nn_distance(cell):
    import itertools
    lat, pos = cell.cell, cell.scaled_positions
    best = 1e99
    for i in range(len(pos)):
        for j in range(len(pos)):
            for sft in itertools.product((-1, 0, 1), repeat=3):
                d = np.linalg.norm((pos[j] - pos[i] + np.array(sft)) @ lat)
                if d > 1e-6:
                    best = min(best, d)
    return best


def forces_from_fc(ph, fc):
    out = []
    for d in ph.dataset["first_atoms"]:
        u = np.array(d["displacement"])
        out.append(-np.einsum("jkl,l->jk", fc[:, d["number"]], u))
    return np.array(out)


def scenario(cfg, with_reference=False):
    """Runs the public API; returns dict name -> array(s). with_reference adds the Python-reference results
    under 'ref:<name>' keys (computed without the kernels where a lang='Py' path exists)."""
    import phonopy
    from phonopy.harmonic.dynmat_to_fc import DynmatToForceConstants
    from phonopy.harmonic.derivative_dynmat import DerivativeOfDynamicalMatrix
    from phonopy.phonon.thermal_properties import ThermalProperties
    from phonopy.structure.tetrahedron_method import TetrahedronMethod, get_all_tetrahedra_relative_grid_address
    from phonopy.phonon.tetrahedron_mesh import TetrahedronMesh

    import contextlib
    import io
    import warnings
    from phonopy.harmonic import force_constants as FCM

    warnings.simplefilter("ignore")
    R = {}
    cell, _ = gen.make_cell(cfg["cell"])
    if cfg.get("atom_order"):
        # same crystal, atoms listed in another order: translationally equivalent atoms are then interleaved in the
        # unit cell and in the supercell (s2p_map is not made of contiguous blocks)
        from phonopy.structure.atoms import PhonopyAtoms
        o_ = list(cfg["atom_order"])
        cell = PhonopyAtoms(cell=cell.cell, symbols=[cell.symbols[i] for i in o_], scaled_positions=cell.scaled_positions[o_])
    smat_ = np.array(cfg["smat"])
    if cfg.get("relabel"):
        # the same crystal described by other lattice vectors (det -1: left-handed, negative PhonopyAtoms.volume)
        cell, _qmap, smap = gen.relabelled_cell(cell, gen.UNIMODULAR[cfg["relabel"]])
        smat_ = smap(smat_)
    ph = phonopy.Phonopy(cell, supercell_matrix=smat_, primitive_matrix=cfg["pmat"], log_level=0,
                         store_dense_svecs=cfg["dense"])
    sv, mu = ph.primitive.get_smallest_vectors()
    R["svecs"], R["multi"] = sv, mu
    fc_true = gen.pair_fc(ph.supercell, 1.45 * nn_distance(ph.primitive))
    ph.generate_displacements(distance=0.03)
    ph.forces = forces_from_fc(ph, fc_true)
    ph.produce_force_constants(calculate_full_force_constants=not cfg["compact"], show_drift=False)
    R["fc_produced"] = ph.force_constants.copy()
    if cfg["noise"]:
        r = np.random.RandomState(cfg["seed"])
        ph.force_constants = ph.force_constants + 0.01 * r.standard_normal(ph.force_constants.shape)
    fc_before_sym = ph.force_constants.copy()
    ph.symmetrize_force_constants()
    R["fc_sym"] = ph.force_constants.copy()
    # both layouts of the symmetrisers and the compact transposition, whatever layout the scenario uses
    full0 = fc_before_sym if not cfg["compact"] else FCM.compact_fc_to_full_fc(ph.primitive, fc_before_sym)
    comp0 = FCM.full_fc_to_compact_fc(ph.primitive, full0)
    a_ = FCM.compact_fc_to_full_fc(ph.primitive, comp0)      # translation-periodic by construction
    FCM.symmetrize_force_constants(a_, level=2)
    R["sym_full"] = a_
    b_ = comp0.copy()
    FCM.symmetrize_compact_force_constants(b_, ph.primitive, level=2)
    R["sym_compact"] = b_
    c_ = comp0.copy()
    with contextlib.redirect_stdout(io.StringIO()) as buf:
        FCM.show_drift_force_constants(c_, primitive=ph.primitive, values_only=True)   # transposes twice
    R["drift_text"] = np.frombuffer(buf.getvalue().encode(), dtype=np.uint8)
    R["transposed_twice"] = c_
    qs = np.array(cfg["qs"], dtype="double")

    # ---- without NAC: dynamical matrices, derivative (group velocity), mesh, DOS, thermal properties
    ph.run_qpoints(qs, with_eigenvectors=True, with_group_velocities=True)
    d = ph.get_qpoints_dict()
    R["q_freq"], R["q_gv"] = d["frequencies"], d["group_velocities"]
    ph.run_qpoints(qs, with_dynamical_matrices=True)
    R["q_dm"] = ph.get_qpoints_dict()["dynamical_matrices"]
    ddm = DerivativeOfDynamicalMatrix(ph.dynamical_matrix)
    ddm.run(qs[0])
    R["ddm"] = ddm.d_dynamical_matrix.copy()
    ph.run_mesh(cfg["mesh"], with_eigenvectors=True, is_mesh_symmetry=False, is_gamma_center=cfg["gamma_center"])
    R["mesh_freq"] = ph.get_mesh_dict()["frequencies"]
    ph.run_projected_dos(use_tetrahedron_method=True)
    R["pdos"] = ph.get_projected_dos_dict()["projected_dos"]
    ph.run_mesh(cfg["mesh"], is_gamma_center=cfg["gamma_center"])
    md = ph.get_mesh_dict()
    R["irmesh_freq"] = md["frequencies"]
    ph.run_total_dos(use_tetrahedron_method=True)
    R["tdos"] = ph.get_total_dos_dict()["total_dos"]
    ph.run_thermal_properties(t_min=0, t_max=400, t_step=100, cutoff_frequency=1e-3)
    tp = ph.get_thermal_properties_dict()
    R["tp"] = [tp["free_energy"], tp["entropy"], tp["heat_capacity"]]
    # tetrahedron mesh iterator (tetrahedra_frequencies) and the tetrahedron method directly
    msh = ph.mesh
    thm = TetrahedronMesh(ph.primitive, md["frequencies"], msh.mesh_numbers, np.array(msh.grid_address, dtype="int64"),
                          np.array(msh.grid_mapping_table, dtype="int64"), msh.ir_grid_points)
    thm.set(value="I", division_number=7)
    R["thm_iw"] = np.array([iw.copy() for iw in thm])
    R["all_rga"] = get_all_tetrahedra_relative_grid_address()
    r = np.random.RandomState(cfg["seed"] + 1)
    tm = TetrahedronMethod(np.linalg.inv(ph.primitive.cell), mesh=cfg["mesh"])
    # one value per grid vertex, so that the C and the Python vertex orderings see the same function
    vals = {}

    def vertex_values(rga):
        out = np.zeros((24, 4))
        for a in range(24):
            for b in range(4):
                out[a, b] = vals.setdefault(tuple(int(x) for x in rga[a][b]), r.uniform(0, 5))
        return out

    tet = vertex_values(tm.tetrahedra)
    tm.set_tetrahedra_omegas(tet)
    oms = np.sort(r.uniform(-0.5, 5.5, size=9))
    tm.run(oms, value="J")
    R["thm_J"] = tm.get_integration_weight().copy()
    tm.run(oms, value="I")
    R["thm_I"] = tm.get_integration_weight().copy()
    tm.run(float(oms[3]), value="I")
    R["thm_I1"] = np.array([tm.get_integration_weight()])

    # ---- dynamical matrices at commensurate points -> force constants
    d2f = DynmatToForceConstants(ph.primitive, ph.supercell, is_full_fc=not cfg["compact"], use_openmp=cfg["d2f_omp"])
    ph.run_qpoints(d2f.commensurate_points, with_dynamical_matrices=True)
    dms = ph.get_qpoints_dict()["dynamical_matrices"]
    d2f.dynamical_matrices = dms
    d2f.run()
    R["d2f_fc"] = d2f.force_constants.copy()

    if with_reference:
        dmo = ph.dynamical_matrix
        if not cfg["compact"] or True:
            py = []
            for q in qs:
                dmo.run(q, lang="Py")
                py.append(dmo.dynamical_matrix.copy())
            R["ref:q_dm"] = np.array(py)
            dmo.run(qs[0])
        if not cfg["compact"]:
            ddm.run(qs[0], lang="Py")
            R["ref:ddm"] = ddm.d_dynamical_matrix.copy()
        d2f.run(lang="Py")
        R["ref:d2f_fc"] = d2f.force_constants.copy()
        tpo = ThermalProperties(ph.mesh, classical=False, cutoff_frequency=1e-3)
        tpo.set_temperature_range(t_min=0, t_max=400, t_step=100)
        tpo.run(lang="Py")
        R["ref:tp"] = list(tpo.thermal_properties[1:4])
        tmp = TetrahedronMethod(np.linalg.inv(ph.primitive.cell), mesh=cfg["mesh"], lang="Py")
        tmp.set_tetrahedra_omegas(vertex_values(tmp.tetrahedra))
        tmp.run(oms, value="J")
        R["ref:thm_J"] = tmp.get_integration_weight().copy()
        tmp.run(oms, value="I")
        R["ref:thm_I"] = tmp.get_integration_weight().copy()
        # same tetrahedra in the same order; the C tables list the central vertex first, the Python ones do not
        canon = lambda t: np.sort(np.array(t).reshape(-1, 4, 3).view([("", "int64")] * 3).reshape(-1, 4), axis=1).view("int64")
        R["aux:all_rga_canon"] = canon(np.array(R["all_rga"], dtype="int64"))
        R["ref:all_rga_canon"] = canon(np.array(get_all_tetrahedra_relative_grid_address(lang="Py"), dtype="int64"))
        R["aux:rga_canon"] = canon(np.array(tm.tetrahedra, dtype="int64"))
        R["ref:rga_canon"] = canon(np.array(tmp.tetrahedra, dtype="int64"))
        R["ref:sym_compact"] = FCM.full_fc_to_compact_fc(ph.primitive, R["sym_full"])
        R["ref:transposed_twice"] = comp0
        thp = TetrahedronMesh(ph.primitive, md["frequencies"], msh.mesh_numbers, np.array(msh.grid_address, dtype="int64"),
                              np.array(msh.grid_mapping_table, dtype="int64"), msh.ir_grid_points, lang="Py")
        thp.set(value="I", division_number=7, lang="Py")
        R["ref:thm_iw"] = np.array([iw.copy() for iw in thp])
        # symmetrisation: Python fallback of force_constants.py (full layout only)
        if not cfg["compact"]:
            from .c07 import _py_fallback
            fpy = fc_before_sym.copy()
            _py_fallback(fpy, 1)
            R["ref:fc_sym"] = fpy

    # ---- NAC
    n = len(ph.primitive)
    z = np.zeros((n, 3, 3))
    for i in range(n):
        z[i] = np.eye(3) * (1.3 if i % 2 == 0 else -1.3) + 0.05 * np.array([[0, 1, 0], [1, 0, 0], [0, 0, 0.5]])
    z -= z.mean(axis=0)
    eps = np.eye(3) * 2.5 + 0.1 * np.array([[0, 0, 0], [0, 1, 0], [0, 0, 2.0]])
    ph.nac_params = {"born": z, "dielectric": eps, "factor": 14.4, "method": cfg["nac"]}
    qn = np.vstack([qs, [[0, 0, 0]]])
    ph.run_qpoints(qn, with_eigenvectors=True, nac_q_direction=[1, 0.5, 0])
    R["nac_freq"] = ph.get_qpoints_dict()["frequencies"]
    ph.run_qpoints(qn, with_dynamical_matrices=True)
    R["nac_dm"] = ph.get_qpoints_dict()["dynamical_matrices"]
    ph.run_band_structure([[[0.5, 0, 0], [0.25, 0, 0], [0, 0, 0]]], with_group_velocities=(cfg["nac"] == "wang"))
    R["nac_band"] = ph.get_band_structure_dict()["frequencies"][0]
    if cfg["nac"] == "wang":
        R["nac_band_gv"] = ph.get_band_structure_dict()["group_velocities"][0]
    return R


# --------------------------------------------------------------------------
# ASAN support (thorough tier)
# --------------------------------------------------------------------------

ASAN_CHILD = r"""
import pickle, sys
sys.path.insert(0, %(verif)r)
from harness import common
import numpy as np
shim = common.Shim(%(lib)r)
calls = pickle.load(open(%(pk)r, "rb"))
n = 0
for name, args in calls:
    print("ASAN-CALL", n, name, flush=True)
    shim.call(name, *[a.copy() if isinstance(a, np.ndarray) else a for a in args])
    n += 1
print("ASAN-REPLAY-DONE", n, flush=True)
"""


def asan_support(run, calls, timeout=900):
    """Replay the captured calls (exact-size numpy buffers, malloc'ed => red zones) against kernels built with
    -fsanitize=address,undefined in a child process. Support for the failing-input search; not the proof."""
    info = {}
    try:
        lib = common.build_lib("omp", extra_flags=("-fsanitize=address,undefined", "-fno-omit-frame-pointer", "-g", "-fno-sanitize-recover=undefined"), tag="asan")
    except common.Broken as b:
        info["status"] = "skipped: sanitizer build failed: %s" % (b.detail or "")[-300:]
        return info
    rt = None
    for cand in ("/usr/lib/x86_64-linux-gnu/libasan.so.8", "/usr/lib/gcc/x86_64-linux-gnu/12/libasan.so"):
        if os.path.exists(cand):
            rt = cand
            break
    if rt is None:
        info["status"] = "skipped: libasan runtime not found"
        return info
    with tempfile.TemporaryDirectory() as td:
        pk = os.path.join(td, "calls.pkl")
        pickle.dump(calls, open(pk, "wb"))
        code = ASAN_CHILD % dict(verif=common.VERIF, lib=lib, pk=pk)
        env = dict(os.environ)
        env["LD_PRELOAD"] = rt
        env["ASAN_OPTIONS"] = "detect_leaks=0:abort_on_error=0:exitcode=97:allocator_may_return_null=1"
        env["UBSAN_OPTIONS"] = "print_stacktrace=1:halt_on_error=1:exitcode=98"
        env["OMP_NUM_THREADS"] = "4"
        try:
            r = subprocess.run([sys.executable, "-c", code], capture_output=True, text=True, timeout=timeout, env=env, cwd=common.VERIF)
        except subprocess.TimeoutExpired:
            info["status"] = "skipped: sanitizer child timed out"
            return info
    info["returncode"] = r.returncode
    info["calls"] = len(calls)
    last = [l for l in r.stdout.split("\n") if l.startswith("ASAN-CALL")]
    if last:
        info["last_call_index"] = int(last[-1].split()[1])
        info["last_call"] = last[-1].split()[2]
    if "ASAN-REPLAY-DONE" in r.stdout and r.returncode == 0:
        info["status"] = "clean"
    elif "AddressSanitizer" in r.stderr or "runtime error" in r.stderr:
        info["status"] = "REPORT"
        info["report"] = r.stderr[-3000:]
        info["report_full"] = r.stderr[:20000]
    else:
        info["status"] = "skipped: child failed without a sanitizer report (rc=%d): %s" % (r.returncode, r.stderr[-400:])
    return info


def far_grid_task(seed):
    """Grid-address kernels with addresses far outside [0, mesh): synthetic addresses shifted by multiples of the mesh in
    both directions, and the public tetrahedron DOS of a crystal described by a sheared, non-reduced basis (GridPoints then
    passes BZ-relocated addresses beyond +-mesh).  Runs in the sanitizer child; returns plain data for the parent."""
    import random
    import warnings

    import phonopy
    from phonopy.structure import tetrahedron_method as TM

    warnings.simplefilter("ignore")
    rng = random.Random(seed)
    shim = common._STATE["shim"]
    rga = np.array(TM.TetrahedronMethod(None).tetrahedra, dtype="int64")
    central = [int(np.nonzero((np.array(t_) == 0).all(axis=1))[0][0]) for t_ in rga]
    out = {"synthetic": [], "public": None}
    for trial in range(5):
        mesh = np.array([rng.randint(2, 5) for _ in range(3)], dtype="int64")
        ng = int(np.prod(mesh))
        base = np.array([[i, j, k] for k in range(mesh[2]) for j in range(mesh[1]) for i in range(mesh[0])], dtype="int64")
        shift = np.array([[rng.randint(-3, 3) for _ in range(3)] for _ in range(ng)], dtype="int64") * mesh[None, :]
        ga = base + shift
        nb = 2
        r = np.random.RandomState(seed * 100 + trial)
        freqs = np.sort(r.uniform(0, 4, size=(ng, nb)), axis=1)
        gpir = np.arange(ng, dtype="int64")
        gps = np.array(sorted(rng.sample(range(ng), min(ng, 6))), dtype="int64")
        print("FARGRID synthetic", trial, mesh.tolist(), flush=True)
        ft = np.zeros((len(gps), nb, 24, 4))
        a_tf = [ft, gps, mesh, ga, gpir, rga.reshape(24, 4, 3), freqs]
        shim.call("tetrahedra_frequencies", *a_tf)
        want = ref.tetrahedra_frequencies([np.zeros_like(ft)] + a_tf[1:])[0]
        d1 = float(np.abs(ft - want).max())
        fpts = np.array([0.7, 2.0, 3.1])
        coef = np.ones((ng, 1, nb))
        dos = np.zeros((ng, nb, len(fpts), 1))
        a_dos = [dos, mesh, fpts, freqs, coef, ga, gpir.copy(), rga]
        shim.call("tetrahedron_method_dos", *a_dos)
        tpx = TM.TetrahedronMethod(None, lang="Py")
        d2 = None
        if hasattr(tpx, "_relative_grid_addresses") and hasattr(tpx, "_central_indices"):
            tpx._relative_grid_addresses, tpx._central_indices = np.array(rga), central

            def iwf(w, tet, tpx=tpx):
                tpx.set_tetrahedra_omegas(tet)
                tpx.run(w, value="I")
                return tpx.get_integration_weight()
            wantd = ref.tetrahedron_method_dos([np.zeros_like(dos)] + a_dos[1:], iwf)[0]
            d2 = float(np.abs(dos - wantd).max())
        out["synthetic"].append(dict(mesh=mesh.tolist(), max_abs_address_over_mesh=float(np.abs(ga / mesh[None, :]).max()), tetrahedra_frequencies_diff=d1, dos_diff=d2,
                                     grid_address=ga.tolist(), grid_points=gps.tolist(), frequencies=freqs.tolist()))
    # ---- public path: the same crystal in a sheared, non-reduced basis (a2' = 2 a1 + a2, a3' = -a1 + a2 + a3)
    print("FARGRID public", flush=True)
    M = [[1, 0, 0], [2, 1, 0], [-1, 1, 1]]
    cell0, _ = gen.make_cell("cscl")
    cell1, qmap, smap = gen.relabelled_cell(cell0, M)
    from phonopy.phonon.tetrahedron_mesh import TetrahedronMesh
    ph = phonopy.Phonopy(cell1, supercell_matrix=smap(np.diag([2, 2, 2])), primitive_matrix="P", log_level=0)
    ph.force_constants = gen.pair_fc(ph.supercell, 1.45 * nn_distance(ph.primitive))
    ph.run_mesh([5, 5, 5], is_gamma_center=True)
    msh = ph.mesh
    fpts = np.arange(0.0, 8.0 + 1e-9, 0.25)
    ph.run_total_dos(freq_min=0.0, freq_max=8.0, freq_pitch=0.25, use_tetrahedron_method=True)
    td = ph.get_total_dos_dict()
    iws = {}
    for lang in ("C", "Py"):
        tm_ = TetrahedronMesh(ph.primitive, np.array(msh.frequencies), msh.mesh_numbers, np.array(msh.grid_address, dtype="int64"),
                              np.array(msh.grid_mapping_table, dtype="int64"), msh.ir_grid_points, lang=lang)
        tm_.set(value="I", frequency_points=np.array(td["frequency_points"]), lang=lang)
        iws[lang] = np.array([iw.copy() for iw in tm_])
    dos_py = (np.array(msh.weights)[:, None, None] * iws["Py"]).sum(axis=0).sum(axis=1)
    out["public"] = dict(M=M, mesh=[5, 5, 5], weights_C_vs_Py=float(np.abs(iws["C"] - iws["Py"]).max()), total_dos_vs_Py=float(np.abs(np.array(td["total_dos"]) - dos_py).max()),
                         max_abs_grid_address_sheared=int(np.abs(np.array(msh.grid_address)).max()), dos_scale=float(np.abs(dos_py).max()))
    return out


PREFLIGHT_CHILD = r"""
import pickle, sys, os, warnings
warnings.simplefilter("ignore")
sys.path.insert(0, %(verif)r)
from harness import common
if os.path.isdir(common.DEPS):
    sys.path.insert(0, common.DEPS)
sys.path.insert(0, common.REPO)
shim = common.Shim(%(lib)r)
mod = shim.as_module()
sys.modules["phonopy._phonopy"] = mod
import phonopy
phonopy._phonopy = mod
common._STATE["shim"] = shim
from harness.props import c13
cfgs = pickle.load(open(%(pk)r, "rb"))
for k, cfg in enumerate(cfgs):
    print("PREFLIGHT-SCENARIO", k, flush=True)
    c13.scenario(cfg)
print("PREFLIGHT-DONE", flush=True)
print("FARGRID-START", flush=True)
res = c13.far_grid_task(%(seed)d)
pickle.dump(res, open(%(out)r, "wb"))
print("FARGRID-DONE", flush=True)
"""


def asan_preflight(cfgs, seed=0):
    info = {}
    try:
        lib = common.build_lib("omp", extra_flags=("-fsanitize=address,undefined", "-fno-omit-frame-pointer", "-g", "-fno-sanitize-recover=undefined"), tag="asan")
    except common.Broken as b:
        return {"status": "skipped: sanitizer build failed: %s" % (b.detail or "")[-300:]}
    rt = next((c for c in ("/usr/lib/x86_64-linux-gnu/libasan.so.8", "/usr/lib/gcc/x86_64-linux-gnu/12/libasan.so") if os.path.exists(c)), None)
    if rt is None:
        return {"status": "skipped: libasan runtime not found"}
    with tempfile.TemporaryDirectory() as td:
        pk = os.path.join(td, "cfgs.pkl")
        pickle.dump(cfgs, open(pk, "wb"))
        env = dict(os.environ)
        env.update({"LD_PRELOAD": rt, "ASAN_OPTIONS": "detect_leaks=0:abort_on_error=0:exitcode=97:allocator_may_return_null=1",
                    "UBSAN_OPTIONS": "print_stacktrace=1:halt_on_error=1:exitcode=98", "OMP_NUM_THREADS": "4"})
        try:
            outp = os.path.join(td, "fargrid.pkl")
            r = subprocess.run([sys.executable, "-c", PREFLIGHT_CHILD % dict(verif=common.VERIF, lib=lib, pk=pk, seed=seed, out=outp)], capture_output=True, text=True, timeout=300, env=env, cwd=common.VERIF)
        except subprocess.TimeoutExpired:
            return {"status": "skipped: preflight child timed out"}
        if os.path.exists(outp):
            info["fargrid"] = pickle.load(open(outp, "rb"))
    info["returncode"] = r.returncode
    last = [l for l in r.stdout.split("\n") if l.startswith("PREFLIGHT-SCENARIO")]
    if last:
        info["scenario_index"] = int(last[-1].split()[1])
    info["stage"] = "far-grid-addresses" if "FARGRID-START" in r.stdout else "scenarios"
    fl = [l for l in r.stdout.split("\n") if l.startswith("FARGRID ")]
    info["fargrid_last"] = fl[-1] if fl else None
    if "FARGRID-DONE" in r.stdout and r.returncode == 0:
        info["status"] = "clean"
    elif "AddressSanitizer" in r.stderr or "runtime error" in r.stderr:
        info["status"] = "REPORT"
        info["report"] = r.stderr[-3000:]
        info["report_full"] = r.stderr[:20000]
    else:
        info["status"] = "skipped: child failed without a sanitizer report (rc=%d): %s" % (r.returncode, r.stderr[-300:])
    return info


def sanitizer_selection(calls, per_kernel):
    """a few calls per kernel; for the kernels with index-table dependent temporaries prefer the calls whose
    atom list is a proper subset (compact / primitive-first layouts)"""
    by = {}
    for c in calls:
        by.setdefault(c[0], []).append(c)
    out = []
    for name, cs in by.items():
        if name == "distribute_fc2":
            cs = sorted(cs, key=lambda c: (len(c[1][1]) >= c[1][4].shape[1], -int(np.max(c[1][1]))))
        out += cs[:per_kernel]
    return out


def report_sanitizer(run, info, calls):
    run.cov["oracle"]["sanitizer"] = {k: v for k, v in info.items() if k not in ("report", "report_full")}
    if info.get("status") == "REPORT":
        k = info.get("last_call_index")
        name, args = calls[k] if k is not None and k < len(calls) else ("?", [])
        rl = info.get("report_full", info.get("report", "")).split("\n")
        m = [l.strip() for l in rl if "ERROR: AddressSanitizer" in l or "runtime error" in l][:2]
        m += [l.strip() for l in rl if re.search(r"/c/\w+\.c(pp)?:\d+", l)][:3]
        m += [l.strip() for l in rl if "WRITE of size" in l or "READ of size" in l or "is located" in l][:2]
        run.violation("phonopy._phonopy.%s" % name, "sanitizer-report",
                      "AddressSanitizer/UBSan reports an error inside the kernel while replaying a call captured from the Python layer: %s" % (m[0].strip() if m else "see report"),
                      dict(kernel=name, signature=U.sig_of(name, args)[1:] if args else None,
                           int_tables={str(i): a.tolist() for i, a in enumerate(args) if isinstance(a, np.ndarray) and a.dtype.kind == "i" and a.size <= 64},
                           report_head=m, report_tail=info.get("report", "")[-1200:]))


# --------------------------------------------------------------------------
# main
# --------------------------------------------------------------------------

def large_distribute(run, rng, cap, shim_of, need_atoms=144):
    """One supercell with more than 128 (and more than any size threshold found in the pragma inventory's `if` clauses)
    atoms, full layout, force constants distributed through the public path; bitwise across thread counts and builds.
    The kernel call is captured, so it also goes through the replay / footprint / sanitizer machinery."""
    import phonopy

    name, sm = rng.choice([("mono_P", [4, 4, 5]), ("triclinic", [4, 4, 3]), ("mono_P", [5, 4, 4])])
    cell, _ = gen.make_cell(name)
    while len(cell) * sm[0] * sm[1] * sm[2] < need_atoms:
        sm[rng.randint(0, 2)] += 1
    out = {}
    for label, variant, t in (("omp-4", "omp", 4), ("omp-1", "omp", 1), ("omp-8", "omp", 8), ("omp-3", "omp", 3), ("ser", "ser", 1)):
        shim = shim_of(variant)
        U.set_threads(t)
        ph = phonopy.Phonopy(cell, supercell_matrix=np.diag(sm), primitive_matrix="P", log_level=0)
        ph.generate_displacements(distance=0.03)
        n, nd = len(ph.supercell), len(ph.dataset["first_atoms"])
        ph.forces = np.random.RandomState(12345).standard_normal((nd, n, 3))
        if label == "omp-4":
            shim.trace = cap
        ph.produce_force_constants(show_drift=False)
        shim.trace = None
        out[label] = _hash(ph.force_constants)
        run.count("large distribute_fc2 public runs (%d atoms)" % n, section="oracle")
    info = dict(cell=name, supercell=sm, atoms=n, layout="full")
    for label, h in out.items():
        if h != out["omp-1"]:
            run.violation("Phonopy.produce_force_constants", "thread-count-dependent" if label != "ser" else "build-dependent",
                          "force constants of a %d-atom supercell differ bitwise between 1 OpenMP thread and %s" % (n, label), dict(info, config=label))
    shim_of("omp")
    U.set_threads(4)
    return n


def large_smallest_vectors(run, rng, shim_of, need_pairs):
    """ShortestPairs (dense and sparse kernels) on more atom pairs than any `if` threshold of the inventory (and a small
    call below it), 1/4/8 threads and the serial build, bitwise; a sample of pairs against a brute-force search."""
    from phonopy.structure.cells import ShortestPairs

    r = np.random.RandomState(rng.randint(0, 10**9))
    lat = np.array([[21.0, 0.7, 0.0], [2.1, 19.0, 0.3], [0.0, 3.3, 24.0]])
    for n in (int(np.ceil(np.sqrt(need_pairs))) + 1, 40):
        half = np.array([[a, b, c] for a in (0, 0.5) for b in (0, 0.5) for c in (0, 0.5)], dtype=float)
        pos = np.vstack([half, r.uniform(0, 1, size=(n - 8, 3))])
        if n == 40:
            lat = lat * np.array([[1.0], [1.0], [-1.0]])      # left-handed lattice vectors for the small call
        out = {}
        for label, variant, t in (("omp-1", "omp", 1), ("omp-4", "omp", 4), ("omp-8", "omp", 8), ("omp-8b", "omp", 8), ("ser", "ser", 1)):
            shim_of(variant)
            U.set_threads(t)
            res = []
            for dense in (True, False):
                sp = ShortestPairs(lat, pos, pos, store_dense_svecs=dense)
                res += [np.array(sp.shortest_vectors), np.array(sp.multiplicities)]
            out[label] = res
            run.count("large smallest-vectors runs (%d pairs)" % (n * n), section="oracle")
        info = dict(lattice=lat.tolist(), n_positions=n, pairs=n * n, positions_seeded="8 half-grid points + uniform random")
        for label, res in out.items():
            if _hash(res) != _hash(out["omp-1"]):
                run.violation("ShortestPairs", "thread-count-dependent" if label != "ser" else "build-dependent",
                              "shortest vectors / multiplicities for %d atom pairs differ bitwise between 1 OpenMP thread and %s" % (n * n, label), dict(info, config=label))
        # reference on a sample (ties at the half-grid points included): dense and sparse must describe the minimum images
        import itertools
        sv, mu, svs, mus = out["omp-4"]
        shifts = np.array(list(itertools.product((-2, -1, 0, 1, 2), repeat=3)), dtype=float)
        for (i, j) in [(i_, j_) for i_ in range(8) for j_ in range(8)][:24] + [(r.randint(n), r.randint(n)) for _ in range(40)]:
            d = (pos[i] - pos[j])[None, :] + shifts
            ln = np.sqrt(((d @ lat) ** 2).sum(axis=1))
            keep = d[ln - ln.min() < 1e-5]
            m, adrs = mu[i, j]
            got_d = sv[adrs:adrs + m]
            got_s = svs[i, j, :mus[i, j]]
            ok = m == len(keep) == mus[i, j] and all(np.abs(keep - v).sum(axis=1).min() < 1e-8 for v in got_d) and all(np.abs(keep - v).sum(axis=1).min() < 1e-8 for v in got_s)
            run.count("smallest-vectors brute-force samples", section="oracle")
            if not ok:
                run.violation("ShortestPairs", "not-minimum-images", "stored shortest vectors of a pair are not the set of minimum images (pair %d,%d of %d positions)" % (i, j, n), dict(info, pair=[int(i), int(j)]))
                break
    shim_of("omp")
    U.set_threads(4)


def tie_and_boundary_probes(run, rng, thorough):
    """Boundary-value inputs for the kernels that contain comparisons: tetrahedron weights at exact ties (omega equal to a
    vertex value, 2/3/4 equal vertices, flat bands, below/above all), DOS kernel on integer-valued bands, thermal
    properties with the cutoff exactly at a frequency and T = 0."""
    from phonopy.structure import tetrahedron_method as TM

    tc = TM.TetrahedronMethod(None)            # C, main diagonal 0
    tp = TM.TetrahedronMethod(None, lang="Py")
    rga_c, rga_p = np.array(tc.tetrahedra), np.array(tp.tetrahedra)
    verts = sorted({tuple(int(x) for x in v) for v in rga_c.reshape(-1, 3)})

    def fields():
        yield "flat", {v: 2.0 for v in verts}
        for k in range(6 if thorough else 3):
            yield "integer-valued", {v: float(rng.randint(0, 3)) for v in verts}
        for k in range(4 if thorough else 2):
            lo = float(rng.randint(0, 2))
            yield "degenerate-minimum", {v: (lo if rng.random() < 0.7 else lo + rng.randint(1, 3)) for v in verts}
        yield "generic", {v: rng.uniform(0, 3) for v in verts}

    n_tie = 0
    for kind, f in fields():
        tet_c = np.array([[f[tuple(int(x) for x in rga_c[a][b])] for b in range(4)] for a in range(24)])
        tet_p = np.array([[f[tuple(int(x) for x in rga_p[a][b])] for b in range(4)] for a in range(24)])
        vals = sorted(set(f.values()))
        oms = sorted(set(vals + [vals[0] - 1.0, vals[-1] + 1.0] + [(a + b) / 2 for a, b in zip(vals, vals[1:])]))
        for value in ("I", "J"):
            tc.set_tetrahedra_omegas(tet_c)
            tp.set_tetrahedra_omegas(tet_p)
            tc.run(np.array(oms), value=value)
            c_arr = np.array(tc.get_integration_weight())
            with np.errstate(all="ignore"):
                tp.run(np.array(oms), value=value)
            p_arr = np.array(tp.get_integration_weight())
            c_sc = []
            for w in oms:
                tc.run(float(w), value=value)
                c_sc.append(tc.get_integration_weight())
            c_sc = np.array(c_sc)
            for i_, w in enumerate(oms):
                n_tie += w in vals
                run.count("tetrahedron exact-tie / boundary comparisons", section="oracle")
                run.case(("thm-tie", kind, value, w, tet_c.tobytes()), nontrivial=w in vals)
                if not np.isfinite(p_arr[i_]):
                    run.count("tetrahedron reference not finite (skipped)", section="oracle")
                    continue
                if abs(c_arr[i_] - p_arr[i_]) > 1e-9 * max(1.0, abs(p_arr[i_])) or c_sc[i_] != c_arr[i_]:
                    run.violation("TetrahedronMethod.run", "thm-C-vs-Py-exact-tie" if w in vals else "thm-C-vs-Py",
                                  "%s weight at omega = %r (%s field, omega %s a vertex value): C %r (scalar entry %r), Python reference %r" % (
                                      value, w, kind, "equal to" if w in vals else "not", float(c_arr[i_]), float(c_sc[i_]), float(p_arr[i_])),
                                  dict(kind=kind, function=value, omega=w, tetrahedra_omegas_C_order=tet_c.tolist()))
                    break
    run.cov["oracle"]["tetrahedron comparisons with omega exactly at a vertex value"] = n_tie

    # ---- DOS kernel on integer-valued (tie-heavy) and flat bands, frequency points on the band values
    import phonopy._phonopy as phonoc
    from phonopy.structure.grid_points import GridPoints
    for mesh in ([1, 1, 1], [2, 2, 2], [2, 1, 2]):
        gp = GridPoints(np.array(mesh), np.eye(3), is_mesh_symmetry=False)
        ga = np.array(gp.grid_address, dtype="int64")
        gmt = np.array(gp.grid_mapping_table, dtype="int64")
        nir, nb = int((gmt == np.arange(len(gmt))).sum()), 2
        for kind in ("flat", "integer-valued"):
            freqs = np.full((nir, nb), 1.0) if kind == "flat" else np.array([[float(rng.randint(0, 2)) for _ in range(nb)] for _ in range(nir)])
            fpts = np.array([-0.5, 0.0, 0.5, 1.0, 1.5, 2.0, 2.5])
            coef = np.ones((nir, 1, nb))
            dos = np.zeros((nir, nb, len(fpts), 1))
            args = [dos, np.array(mesh, dtype="int64"), fpts, freqs, coef, ga, gmt, np.array(rga_c, dtype="int64")]
            phonoc.tetrahedron_method_dos(*args)
            central = [int(np.nonzero((np.array(t) == 0).all(axis=1))[0][0]) for t in rga_c]
            tpx = TM.TetrahedronMethod(None, lang="Py")
            if not (hasattr(tpx, "_relative_grid_addresses") and hasattr(tpx, "_central_indices")):
                run.count("intermediate hook unavailable: TetrahedronMethod._central_indices (DOS transcription skipped)", section="oracle")
                continue
            tpx._relative_grid_addresses, tpx._central_indices = np.array(rga_c), central

            def iwf(w, tet, tpx=tpx):
                tpx.set_tetrahedra_omegas(tet)
                with np.errstate(all="ignore"):
                    tpx.run(w, value="I")
                return tpx.get_integration_weight()
            refd = ref.tetrahedron_method_dos([np.zeros_like(dos)] + args[1:], iwf)[0]
            run.count("tetrahedron DOS tie comparisons", section="oracle")
            run.case(("dos-tie", tuple(mesh), kind, freqs.tobytes()), nontrivial=True)
            fin = np.isfinite(refd)
            if not np.allclose(dos[fin], refd[fin], rtol=0, atol=1e-9 * max(1.0, float(np.abs(refd[fin]).max()) if fin.any() else 1.0)):
                run.violation("phonopy._phonopy.tetrahedron_method_dos", "dos-C-vs-Py-exact-tie",
                              "DOS weights on %s bands with frequency points on the band values differ from the Python reference (max %.3g)" % (kind, float(np.abs(dos[fin] - refd[fin]).max())),
                              dict(mesh=mesh, kind=kind, frequencies=freqs.tolist(), frequency_points=fpts.tolist()))

    # ---- thermal properties: cutoff exactly at a frequency, T = 0 included
    temps = np.array([0.0, 10.0, 300.0])
    fr = np.array([[0.0, 1.0, 2.0], [1.0, 3.0, 3.0]]) * 0.004
    wts = np.array([1, 2], dtype="int64")
    for cutoff in (0.0, 0.004, 0.008, 0.012):
        for classical in (0, 1):
            props = np.zeros((len(temps), 3))
            phonoc.thermal_properties(props, temps, fr, wts, cutoff, classical)
            KB = 8.6173382568083159e-05
            want = np.zeros_like(props)
            for i in range(fr.shape[0]):
                for j, T in enumerate(temps):
                    for f in fr[i]:
                        if T > 0 and f > cutoff:
                            x = f / (KB * T)
                            if classical:
                                fe, en, cv = KB * T * np.log(x), KB - KB * np.log(x), KB
                            else:
                                fe = KB * T * np.log(-np.expm1(-x)) if x > 1e-12 else KB * T * np.log(x)
                                en = x * KB / np.expm1(x) - KB * np.log(-np.expm1(-x))
                                cv = KB * x * x * np.exp(-x) / np.expm1(-x) ** 2
                            want[j] += np.array([fe, en, cv]) * wts[i]
            run.count("thermal cutoff-boundary comparisons", section="oracle")
            run.case(("thermal-cutoff", cutoff, classical), nontrivial=True)
            if not np.allclose(props, want, rtol=1e-9, atol=1e-12):
                run.violation("phonopy._phonopy.thermal_properties", "thermal-cutoff-boundary",
                              "thermal properties with cutoff %.3g eV (exactly at a mode energy: modes with f == cutoff are excluded, T = 0 contributes nothing) differ from the closed forms by %.3g" % (cutoff, float(np.abs(props - want).max())),
                              dict(cutoff=cutoff, classical=classical, frequencies_eV=fr.tolist(), temperatures=temps.tolist()))


def kernel_shape_sweeps(run, rng, thorough, lib_ser, shim_omp, intensify):
    """Thread sweeps of kernels on shapes from different regimes (few/many irreducible grid points x few/many bands,
    large q batches), 16/8/4/1 threads + serial build, repeated, bitwise, and against the reference transcription.
    `intensify` (a pragma of the inventory changed or is new) raises the repetitions: the inventory says that the
    parallel structure changed, the sweep looks for an input on which that matters."""
    import phonopy._phonopy as phonoc
    from phonopy.structure import tetrahedron_method as TM
    from phonopy.structure.grid_points import GridPoints

    reps = 5 if intensify else 3
    r = np.random.RandomState(rng.randint(0, 10**9))
    rga = np.array(TM.TetrahedronMethod(None).tetrahedra, dtype="int64")
    shapes = [([1, 1, 2], 12, 9), ([2, 2, 2], 24, 6), ([2, 1, 1], 40, 5), ([3, 3, 3], 3, 9), ([4, 4, 3], 12, 5)]
    for mesh, nb, nf in shapes:
        gp = GridPoints(np.array(mesh), np.eye(3), is_mesh_symmetry=False)
        ga = np.array(gp.grid_address, dtype="int64")
        gmt = np.array(gp.grid_mapping_table, dtype="int64")
        nir = int((gmt == np.arange(len(gmt))).sum())     # irreducible points = fixed points of the mapping table
        freqs = np.sort(r.uniform(0, 5, size=(nir, nb)), axis=1)
        fpts = np.linspace(0.1, 4.9, nf)
        coef = r.uniform(0.5, 1.5, size=(nir, 2, nb))
        base = [np.array(mesh, dtype="int64"), fpts, freqs, coef, ga, gmt, rga]
        outs = {}
        for label, shim, t in [("omp-1", shim_omp, 1)] + [("omp-%d#%d" % (t, k), shim_omp, t) for t in (16, 8, 4, 2) for k in range(reps)] + [("ser", lib_ser, 1)]:
            U.set_threads(t)
            dos = np.zeros((nir, nb, nf, 2))
            shim.call("tetrahedron_method_dos", dos, *[a.copy() for a in base])
            outs[label] = dos
            run.count("tetrahedron DOS shape-regime sweep runs", section="oracle")
        info = dict(kernel="tetrahedron_method_dos", mesh=mesh, num_ir_grid_points=nir, num_band=nb, num_freq_points=nf, frequencies_seeded=True)
        for label, dos in outs.items():
            if not np.array_equal(dos, outs["omp-1"]):
                run.violation("phonopy._phonopy.tetrahedron_method_dos", "thread-count-dependent" if label != "ser" else "build-dependent",
                              "DOS weights (%d irreducible grid points x %d bands x %d frequency points) differ bitwise between 1 OpenMP thread and %s (max %.3g)" % (
                                  nir, nb, nf, label, float(np.abs(dos - outs["omp-1"]).max())),
                              dict(info, config=label, frequencies=freqs.tolist(), frequency_points=fpts.tolist(), coef=coef.tolist()))
                break
        run.case(("dos-sweep", tuple(mesh), nb, nf, freqs.tobytes()), nontrivial=True)
        if nir * nb * nf <= 1300:
            central = [int(np.nonzero((np.array(t_) == 0).all(axis=1))[0][0]) for t_ in rga]
            tpx = TM.TetrahedronMethod(None, lang="Py")
            if not (hasattr(tpx, "_relative_grid_addresses") and hasattr(tpx, "_central_indices")):
                run.count("intermediate hook unavailable: TetrahedronMethod._central_indices (DOS transcription skipped)", section="oracle")
                continue
            tpx._relative_grid_addresses, tpx._central_indices = np.array(rga), central

            def iwf(w, tet, tpx=tpx):
                tpx.set_tetrahedra_omegas(tet)
                tpx.run(w, value="I")
                return tpx.get_integration_weight()
            refd = ref.tetrahedron_method_dos([np.zeros((nir, nb, nf, 2))] + base, iwf)[0]
            # the 16-thread result against the transcription
            ok, dlt = _close(outs["omp-16#0"], refd)
            run.count("tetrahedron DOS sweep vs transcription", section="oracle")
            if not ok:
                run.violation("phonopy._phonopy.tetrahedron_method_dos", "differs-from-reference", "DOS weights at 16 threads differ from the transcribed formula by %.3g" % dlt,
                              dict(info, frequencies=freqs.tolist(), frequency_points=fpts.tolist(), coef=coef.tolist()))
    # thermal properties: many q-points
    temps = np.linspace(0, 500, 6)
    nq_ = 2500      # more q-points than common block sizes (1024, 2048), unequal weights
    fr = r.uniform(0.001, 0.05, size=(nq_, 9))
    wts = r.randint(1, 9, size=nq_).astype("int64")
    outs = {}
    for label, shim, t in [("omp-1", shim_omp, 1)] + [("omp-%d#%d" % (t, k), shim_omp, t) for t in (16, 8, 3) for k in range(reps)] + [("ser", lib_ser, 1)]:
        U.set_threads(t)
        props = np.zeros((len(temps), 3))
        shim.call("thermal_properties", props, temps.copy(), fr.copy(), wts.copy(), 0.0, 0)
        outs[label] = props
        run.count("thermal-properties sweep runs", section="oracle")
    for label, props in outs.items():
        if not np.array_equal(props, outs["omp-1"]):
            run.violation("phonopy._phonopy.thermal_properties", "thread-count-dependent" if label != "ser" else "build-dependent",
                          "thermal properties of %d q-points differ bitwise between 1 OpenMP thread and %s" % (nq_, label), dict(config=label, seeded=True))
            break
    # closed forms (vectorised), all q-points with their own weights
    KB = 8.6173382568083159e-05
    want = np.zeros((len(temps), 3))
    for j, T in enumerate(temps):
        if T > 0:
            x = fr / (KB * T)
            w_ = wts[:, None]
            want[j, 0] = (KB * T * np.log(-np.expm1(-x)) * w_).sum()
            want[j, 1] = ((x * KB / np.expm1(x) - KB * np.log(-np.expm1(-x))) * w_).sum()
            want[j, 2] = (KB * x * x * np.exp(-x) / np.expm1(-x) ** 2 * w_).sum()
    run.count("thermal-properties large-mesh reference comparisons", section="oracle")
    if not np.allclose(outs["omp-1"], want, rtol=1e-9, atol=1e-12):
        run.violation("phonopy._phonopy.thermal_properties", "differs-from-reference",
                      "thermal properties of %d q-points with unequal weights differ from the closed forms (relative %.3g)" % (nq_, float(np.abs(outs["omp-1"] - want).max() / np.abs(want).max())),
                      dict(num_qpoints=nq_, num_bands=9, temperatures=temps.tolist(), seeded=True))
    U.set_threads(4)


def batched_dynmats(run, rng, thorough, intensify):
    """run_qpoints over large q batches (one kernel call) with Gonze-Lee and Wang NAC: 16/8 threads repeated vs 1 thread vs
    the serial build, bitwise at the public level within the OpenMP build and to 1e-12 across builds."""
    import phonopy

    reps = 6 if intensify else 3
    qs = np.array([[rng.randint(-8, 8) / 16.0 for _ in range(3)] for _ in range(64)] + [[0, 0, 0]])
    for method in ("gonze", "wang"):
        cell, _ = gen.make_cell(rng.choice(["nacl_prim", "zincblende_prim", "cscl"]))
        res = {}
        for label, variant, t in [("omp-1", "omp", 1)] + [("omp-%d#%d" % (t, k), "omp", t) for t in (16, 8) for k in range(reps)] + [("ser", "ser", 1)]:
            if common._STATE.get("variant") != variant:
                U.switch_build(variant)
            U.set_threads(t)
            if label in ("omp-1", "ser"):
                ph = phonopy.Phonopy(cell, supercell_matrix=np.diag([2, 2, 1]), primitive_matrix="P", log_level=0)
                ph.force_constants = gen.pair_fc(ph.supercell, 1.45 * nn_distance(ph.primitive))
                ph.nac_params = {"born": np.array([np.eye(3) * 1.2, -np.eye(3) * 1.2]), "dielectric": np.eye(3) * 2.6, "factor": 14.4, "method": method}
            ph.run_qpoints(qs, with_dynamical_matrices=True, nac_q_direction=[1, 0, 0])
            res[label] = np.array(ph.get_qpoints_dict()["dynamical_matrices"])
            run.count("batched dynamical-matrix runs (NAC %s)" % method, section="oracle")
        info = dict(nac=method, cell=list(cell.symbols), supercell=[2, 2, 1], qpoints=qs.tolist())
        for label, dm in res.items():
            if label == "ser":
                if np.abs(dm - res["omp-1"]).max() > 1e-12 * max(1.0, float(np.abs(dm).max())):
                    run.violation("Phonopy.run_qpoints", "build-dependent", "batched dynamical matrices (NAC %s) differ between the OpenMP and the serial build by %.3g" % (method, float(np.abs(dm - res["omp-1"]).max())), info)
            elif not np.array_equal(dm, res["omp-1"]):
                run.violation("Phonopy.run_qpoints", "thread-count-dependent", "dynamical matrices of a 65-q-point batch (NAC %s) differ bitwise between 1 OpenMP thread and %s (max %.3g)" % (method, label, float(np.abs(dm - res["omp-1"]).max())), dict(info, config=label))
                break
        run.case(("dm-batch", method, qs.tobytes()), nontrivial=True)
    U.switch_build("omp")
    U.set_threads(4)


def nac_lowsym_probes(run, rng, thorough):
    """Low-symmetry (P1) cell with random NON-symmetric Born tensors (sum rule imposed) and a symmetric dielectric tensor:
    derivative of the dynamical matrix C vs `_run_py` (Wang and Gonze-Lee objects), Wang dynamical matrix C vs the
    documented formula evaluated with the in-repository Python dynamical matrix."""
    import phonopy
    from phonopy.harmonic.derivative_dynmat import DerivativeOfDynamicalMatrix
    from phonopy.harmonic.dynamical_matrix import DynamicalMatrix

    cell0, _ = gen.make_cell("triclinic")
    lh = rng.choice(["wang", "gonze"])
    for method in ("wang", "gonze"):
        cell, sm_ = cell0, np.diag(rng.choice([[2, 1, 1], [1, 2, 1], [1, 1, 2]]))
        relab = rng.choice(["swap12", "negate3", "invert", "shear"]) if method == lh else None
        if relab:
            cell, _qm, smap = gen.relabelled_cell(cell0, gen.UNIMODULAR[relab])
            sm_ = smap(sm_)
        run.count("NAC low-symmetry probe description: %s" % (relab or "original"), section="oracle")
        ph = phonopy.Phonopy(cell, supercell_matrix=sm_, primitive_matrix="P", log_level=0)
        fc = gen.pair_fc(ph.supercell, 1.45 * nn_distance(ph.primitive))
        ph.force_constants = fc
        n = len(ph.primitive)
        z = np.array([[[rng.randint(-12, 12) / 8.0 for _ in range(3)] for _ in range(3)] for _ in range(n)]) + np.array([np.eye(3) * (1.5 if i % 2 == 0 else -1.5) for i in range(n)])
        z -= z.mean(axis=0)
        a_ = np.array([[rng.randint(-4, 4) / 8.0 for _ in range(3)] for _ in range(3)])
        eps = np.eye(3) * 2.5 + a_ @ a_.T
        ph.nac_params = {"born": z, "dielectric": eps, "factor": 14.4, "method": method}
        dmo = ph.dynamical_matrix
        zz = np.array(dmo.born)
        asym = float(np.abs(zz - zz.transpose(0, 2, 1)).max())
        for trial in range(3 if thorough else 2):
            q = np.array([rng.randint(1, 7) / 16.0 * rng.choice([-1, 1]) for _ in range(3)])
            info = dict(cell="triclinic", supercell=np.array(ph.supercell_matrix).tolist(), nac=method, q=q.tolist(), born=zz.tolist(), dielectric=np.array(dmo.dielectric_constant).tolist())
            dd = DerivativeOfDynamicalMatrix(dmo)
            dd.run(q)
            c_ = dd.d_dynamical_matrix.copy()
            dd.run(q, lang="Py")
            p_ = dd.d_dynamical_matrix.copy()
            ok, dlt = _close(c_, p_)
            run.count("ddm NAC (%s) non-symmetric Born probes" % method, section="oracle")
            run.case(("ddm-nac", method, q.tobytes(), zz.tobytes()), nontrivial=asym > 1e-3)
            if not ok:
                run.violation("DerivativeOfDynamicalMatrix.run", "ddm-nac-C-vs-Py", "C derivative of the dynamical matrix with NAC (%s object) differs from _run_py by %.3g for non-symmetric Born tensors" % (method, dlt), info)
            if method == "wang":
                # D_ij(q) with fc[i,k] -> fc[i,k] + (4 pi/V * unit) / N / (q eps q) * (q Z_i)(q Z_j)^T for every image k of j
                Dc = np.array(ph.get_dynamical_matrix_at_q(q))
                prim = ph.primitive
                qc = np.linalg.inv(prim.cell) @ q
                A = qc @ zz                                   # (n,3): sum_k q_k Z[i][k][a]
                N = len(ph.supercell) // n
                # 4 pi / |V| * unit factor: the physical (absolute) volume, computed here, not taken from the object under test
                const = 14.4 * 4.0 * np.pi / abs(float(np.linalg.det(prim.cell))) / N / (qc @ np.array(dmo.dielectric_constant) @ qc)
                fc2 = fc.copy()
                s2p, p2s = prim.s2p_map, prim.p2s_map
                for i in range(n):
                    for k in range(len(ph.supercell)):
                        j = list(p2s).index(s2p[k])
                        fc2[p2s[i], k] += const * np.outer(A[i], A[j])
                plain = DynamicalMatrix(ph.supercell, prim, fc2)
                plain.run(q, lang="Py")
                ok, dlt = _close(Dc, np.array(plain.dynamical_matrix))
                run.count("Wang NAC dynamical matrix vs formula", section="oracle")
                if not ok:
                    run.violation("DynamicalMatrixWang.run", "wang-C-vs-formula", "Wang NAC dynamical matrix differs from the documented formula by %.3g (non-symmetric Born tensors)" % dlt, info)
            else:
                ph.run_qpoints([q, [0, 0, 0]], nac_q_direction=[1, 0, 0])   # Gonze-Lee kernels with these tensors are captured


def main(run):
    rng = run.rng
    thorough = run.tier == "thorough"
    common.setup_phonopy("omp")
    shim_omp = U.switch_build("omp")
    lib_ser = common.Shim(U.lib_path("ser"))
    if int(lib_ser.call("use_openmp")) != 0 or int(shim_omp.call("use_openmp")) != 1:
        raise RuntimeError("serial / OpenMP libraries are not distinct in this process")
    # T-glue: Gen/GlueShapes.lean regenerated from the working tree's c/_phonopy.cpp; the glue_* theorems are about it
    sys.path.insert(0, os.path.join(common.VERIF, "tools"))
    import glue2lean

    try:
        glue2lean.generate(common.REPO, os.path.join(common.LEAN_DIR, "PhononModel", "Gen", "GlueShapes.lean"))
    except Exception as ex:  # outside the translator's subset: the proof step cannot be about this glue
        run.broke("proof", "tools/glue2lean.py could not translate c/_phonopy.cpp: %s" % ex)
    run.proof_step(leancheck=thorough)

    run.cov["rule"] = (
        "scenarios = random small prototype crystal x supercell matrix x {dense,sparse svecs} x {full,compact fc} x NAC "
        "{gonze,wang} x mesh, driven through public entry points (Phonopy, DynmatToForceConstants, "
        "DerivativeOfDynamicalMatrix, TetrahedronMethod/Mesh); every distinct kernel call made by the Python layer "
        "(name, shapes, dtypes, small index tables) is captured and replayed. A case = one captured kernel call; "
        "non-trivial = it writes at least one cell and (for loops) has >= 2 iterations.")
    run.cov["trusted_base"] = [
        "Lean 4.33 kernel; Mathlib v4.33; axioms per theorem in coverage.theorems",
        "hand-written footprint model Model/KernelFootprint.lean tied to /repo/c by tools/pragmas.py (inventory incl. hashes of loop bodies and writer callees) and by the sentinel/guard footprint runs",
        "nanobind replaced by harness/nbstub (c/_phonopy.cpp itself compiled unchanged); element types checked against the glue's casts",
        "iteration-granular schedules (schedule_free): interleavings finer than whole iterations are covered by write-disjointness only",
        "gcc -O2 (no -ffast-math, no FMA contraction on baseline x86-64); libgomp",
    ]
    run.assumptions += [
        "actual OpenMP scheduling, cache effects and undefined behaviour not triggered by the explored shapes are outside the model",
        "IEEE rounding of the kernels is not modelled; reference comparisons use 1e-9*scale",
    ]

    # ---------------- the two non-numerical exports: thread control reaches the library under test
    for t in U.THREADS_ALL:
        U.set_threads(t)
        got = int(shim_omp.call("omp_max_threads"))
        run.count("omp_max_threads probes", section="oracle")
        if got != t:
            run.broke("harness", "omp_set_num_threads(%d) not seen by the OpenMP library (omp_max_threads()=%d)" % (t, got))
    run.cov["oracle"]["serial build omp_max_threads()"] = int(lib_ser.call("omp_max_threads"))   # observation only
    U.set_threads(4)

    # ---------------- (a) pragma inventory
    sys.path.insert(0, os.path.join(common.VERIF, "tools"))
    import pragmas

    # canonical inventory: invariant under renaming of statics/locals, private() vs body-local declarations, loop bodies
    # moved into helpers; it identifies the external entry points, loop bound, if-clause and the shared objects written
    inv, mallocs_canon = pragmas.canonical(common.REPO)
    keys = [r["key"] for r in inv]
    mtxt = open(os.path.join(common.LEAN_DIR, "PhononModel", "Model", "KernelFootprint.lean")).read()
    mtxt = mtxt[mtxt.index("def inventory"):mtxt.index("/-! ## heap temporaries")]
    model_keys_early = [k_.replace('\\"', '"') for k_ in re.findall(r'^\s*"(c/.*)",?\s*$', mtxt, re.M)]
    changed_pragmas = sorted(k_ for k_ in set(keys) | set(model_keys_early) if keys.count(k_) != model_keys_early.count(k_))
    intensify = bool(changed_pragmas)
    run.cov["correspondence"]["pragmas_changed_vs_model"] = [k_.split("|")[1].split(",")[0] + ": " + k_.split("|", 3)[3] for k_ in changed_pragmas]
    run.cov["correspondence"]["pragmas_found"] = len(inv)
    run.cov["correspondence"]["private_complete"] = sum(1 for r in inv if not r.get("shared_written_locals"))
    for r in inv:
        if r.get("shared_written_locals"):
            # a statement about the source text: the thread sweeps below are the search for a failing input
            run.broke("correspondence", "function-scope locals %s of %s (%s) are written inside a parallel region without being private" % (
                r["shared_written_locals"], r["function"], r["file"]))

    # ---------------- scenarios under capture
    nscen = 24 if thorough else 2
    cap = U.Capture(per_kernel=200 if thorough else 14)
    cfgs = []
    results0 = []
    for s in range(nscen):
        cfg = make_config(rng, thorough)
        if s == 0:
            cfg["compact"], cfg["dense"], cfg["nac"] = False, True, "gonze"     # the full-fc reference paths run every time
            # centred conventional cell whose translationally equivalent atoms are interleaved (Na Cl Na Cl ... / shuffled)
            cfg["cell"] = rng.choice(["nacl_interleaved", "nacl", "diamond"])
            cfg["pmat"] = rng.choice(["auto", "F"])
            cfg["smat"] = rng.choice([[[1, 0, 0], [0, 1, 0], [0, 0, 1]], [[1, 0, 0], [0, 1, 0], [0, 0, 2]]])
            if cfg["cell"] != "nacl_interleaved":
                o_ = list(range(8))
                while o_ == sorted(o_) or all(abs(o_[k] - o_[k + 1]) == 1 for k in range(7)):
                    rng.shuffle(o_)
                cfg["atom_order"] = o_
            if cfg["pmat"] == "auto" and rng.random() < 0.5:
                cfg["relabel"] = rng.choice(["swap12", "negate3", "invert", "cyclic"])
        if s == 1:
            cfg["compact"], cfg["dense"], cfg["nac"] = True, False, "wang"
            # a primitive cell with symmetry-inequivalent atoms: atom_list = p2s_map then has done atoms with index >= len(atom_list)
            cfg["cell"] = rng.choice(["nacl_prim", "cscl", "zincblende_prim", "triclinic"])
            cfg["pmat"] = "P"
            cfg["smat"] = rng.choice([[[2, 0, 0], [0, 1, 0], [0, 0, 1]], [[1, 0, 0], [0, 2, 0], [0, 0, 2]], [[2, 0, 0], [0, 1, 0], [0, 0, 2]], [[1, 1, 0], [-1, 1, 0], [0, 0, 1]]])
            # left-handed description in every run (lattice-handedness assumptions in the kernels / glue would show as C != reference)
            cfg["relabel"] = rng.choice(["swap12", "negate3", "invert"])
        cfgs.append(cfg)
    # ---- pre-flight: the first scenarios once through the public path in a child process against the sanitizer build.
    # Heap corruption inside a kernel can take the checking process down before any verdict; the child finds it first.
    pre = asan_preflight(cfgs[:2], seed=run.seed)
    run.cov["oracle"]["sanitizer_preflight"] = {k: v for k, v in pre.items() if k not in ("report", "report_full", "fargrid")}
    fg = pre.get("fargrid")
    if fg:
        for rec_ in fg["synthetic"]:
            run.count("far grid-address kernel calls (|address| up to %.0f x mesh)" % rec_["max_abs_address_over_mesh"], section="oracle")
            run.case(("fargrid", tuple(rec_["mesh"]), str(rec_["grid_address"][:4])), nontrivial=rec_["max_abs_address_over_mesh"] > 1)
            if rec_["tetrahedra_frequencies_diff"] > 1e-12 or (rec_["dos_diff"] is not None and rec_["dos_diff"] > 1e-9):
                run.violation("phonopy._phonopy.tetrahedra_frequencies" if rec_["tetrahedra_frequencies_diff"] > 1e-12 else "phonopy._phonopy.tetrahedron_method_dos", "grid-address-not-reduced-modulo-mesh",
                              "grid addresses several multiples of the mesh away from [0, mesh) give a result different from the reference `(address %% mesh)` (frequencies diff %.3g, DOS diff %s)" % (rec_["tetrahedra_frequencies_diff"], rec_["dos_diff"]),
                              dict(mesh=rec_["mesh"], grid_address=rec_["grid_address"], grid_points=rec_["grid_points"], frequencies=rec_["frequencies"]))
                break
        pb = fg.get("public")
        if pb:
            run.cov["oracle"]["sheared-basis DOS"] = {k: v for k, v in pb.items()}
            run.case(("fargrid-public", str(pb["M"])), nontrivial=pb["max_abs_grid_address_sheared"] > 5)
            if pb["weights_C_vs_Py"] > 1e-9 or pb["total_dos_vs_Py"] > 1e-8 * max(1.0, pb["dos_scale"]):
                run.violation("TetrahedronMesh / Phonopy.run_total_dos", "tetrahedron-C-vs-Py-sheared-basis",
                              "for CsCl described in a sheared, non-reduced basis (BZ-relocated grid addresses reach %d on a 5x5x5 mesh) the compiled tetrahedron weights / total DOS differ from the Python reference (weights %.3g, DOS %.3g)" % (
                                  pb["max_abs_grid_address_sheared"], pb["weights_C_vs_Py"], pb["total_dos_vs_Py"]), dict(cell="cscl", supercell=[2, 2, 2], basis_change=pb["M"], mesh=pb["mesh"]))
    if pre.get("status") == "REPORT" and pre.get("stage") == "far-grid-addresses":
        rl = pre.get("report_full", "").split("\n")
        head = [l.strip() for l in rl if "ERROR: AddressSanitizer" in l or "runtime error" in l][:2] + [l.strip() for l in rl if re.search(r"/c/\w+\.c(pp)?:\d+", l)][:3]
        run.violation("phonopy._phonopy.tetrahedra_frequencies/tetrahedron_method_dos", "sanitizer-report",
                      "out-of-bounds access in a grid-address kernel for addresses far outside [0, mesh) (%s): %s" % (pre.get("fargrid_last"), head[0] if head else "see report"),
                      dict(stage=pre.get("fargrid_last"), seed=run.seed, generator="c13.far_grid_task(seed)", report_head=head))
        return
    if pre.get("status") == "REPORT":
        rl = pre.get("report_full", "").split("\n")
        head = [l.strip() for l in rl if "ERROR: AddressSanitizer" in l or "runtime error" in l][:2] + [l.strip() for l in rl if re.search(r"/c/\w+\.c(pp)?:\d+", l)][:3] + \
               [l.strip() for l in rl if "WRITE of size" in l or "READ of size" in l or "is located" in l][:2]
        k_ = pre.get("scenario_index", 0)
        run.violation("phonopy._phonopy (public scenario)", "sanitizer-report",
                      "AddressSanitizer/UBSan reports an error inside a kernel while the scenario runs through the public API: %s" % (head[0] if head else "see report"),
                      dict(config=cfgs[min(k_, len(cfgs) - 1)], report_head=head, report_tail=pre.get("report", "")[-1200:]))
        return      # running the same calls in this process could crash it; the failing input is recorded
    for s, cfg in enumerate(cfgs):
        U.set_threads(4)
        shim_omp.trace = cap
        R = scenario(cfg, with_reference=True)
        shim_omp.trace = None
        results0.append(R)
        run.count("scenario %s" % cfg["cell"])
        run.count("svecs %s" % ("dense" if cfg["dense"] else "sparse"))
        run.count("fc %s" % ("compact" if cfg["compact"] else "full"))
        run.count("nac %s" % cfg["nac"])
        run.count("description %s" % (cfg.get("relabel") or "original"))
    # ---- kernels with size-dependent behaviour: one supercell beyond every threshold, through the public path
    thresholds = []
    for r in inv:
        for m_ in re.finditer(r"(>=|>|<=|<)\s*(\d+)", r.get("cond") or ""):
            thresholds.append(dict(function=",".join(r["entries"]) + "," + r["function"], condition=r["cond"], op=m_.group(1), value=int(m_.group(2))))
    run.cov["correspondence"]["pragma_if_size_thresholds"] = thresholds

    def shim_of(variant):
        return U.switch_build(variant)

    # sizes on the far side of every threshold (distribute_fc2: listed atoms; smallest vectors: atom pairs)
    need_atoms = max([128] + [t["value"] for t in thresholds if "distribute" in (t["function"] or "")]) + 16
    need_pairs = max([20000] + [t["value"] for t in thresholds if "smallest_vectors" in (t["function"] or "")]) + 1000
    for t in thresholds:
        fn = t["function"] or ""
        if not ("distribute" in fn or "smallest_vectors" in fn):
            run.broke("correspondence", "a pragma `if` clause with a size threshold (%s) in %s has no scenario built on both sides of it" % (t["condition"], fn), t)
    if need_atoms > 400 or need_pairs > 250000:
        run.broke("correspondence", "size thresholds of the pragma inventory are too large for a scenario beyond them", thresholds)
    import time as _time
    _t = _time.time()
    nbig = large_distribute(run, rng, cap, shim_of, need_atoms)
    run.cov.setdefault("timing_s", {})["large_distribute"] = round(_time.time() - _t, 1); _t = _time.time()
    large_smallest_vectors(run, rng, shim_of, need_pairs)
    run.cov["timing_s"]["large_smallest_vectors"] = round(_time.time() - _t, 1); _t = _time.time()
    shim_omp = common._STATE["shim"]
    tie_and_boundary_probes(run, rng, thorough)
    run.cov["timing_s"]["tie_and_boundary_probes"] = round(_time.time() - _t, 1); _t = _time.time()
    kernel_shape_sweeps(run, rng, thorough, lib_ser, shim_omp, intensify)
    run.cov["timing_s"]["kernel_shape_sweeps"] = round(_time.time() - _t, 1); _t = _time.time()
    batched_dynmats(run, rng, thorough, intensify)
    shim_omp = common._STATE["shim"]
    run.cov["timing_s"]["batched_dynmats"] = round(_time.time() - _t, 1)
    # ---- NAC kernels with non-symmetric Born tensors (captured as well)
    shim_omp.trace = cap
    nac_lowsym_probes(run, rng, thorough)
    shim_omp.trace = None
    run.sample(dict(kind="scenario", **cfgs[0]))
    for k in U.NUMERICAL + U.NON_NUMERICAL:
        run.cov["distribution"]["calls %s" % k] = cap.count.get(k, 0)
    unreached = [k for k in U.NUMERICAL if cap.count.get(k, 0) == 0]
    run.cov["correspondence"]["kernels_exported"] = len(shim_omp.names)
    run.cov["correspondence"]["kernels_reached_via_public_api"] = len(U.NUMERICAL) - len(unreached)
    if sorted(shim_omp.names) != sorted(U.NUMERICAL + U.NON_NUMERICAL):
        run.broke("correspondence", "exported kernel list changed", dict(exported=shim_omp.names))
    if unreached:
        run.broke("correspondence", "kernels not reached through the public API: %s" % unreached)

    # ---------------- (ii) reference semantics at the public level
    nref = 0
    for cfg, R in zip(cfgs, results0):
        pairs = [("q_dm", "ref:q_dm", "DynamicalMatrix.run", "dynmat-C-vs-Py"), ("ddm", "ref:ddm", "DerivativeOfDynamicalMatrix.run", "ddm-C-vs-Py"),
                 ("d2f_fc", "ref:d2f_fc", "DynmatToForceConstants.run", "d2f-C-vs-Py"), ("tp", "ref:tp", "ThermalProperties.run", "tp-C-vs-Py"),
                 ("thm_J", "ref:thm_J", "TetrahedronMethod.run", "thm-C-vs-Py"), ("thm_I", "ref:thm_I", "TetrahedronMethod.run", "thm-C-vs-Py"),
                 ("aux:all_rga_canon", "ref:all_rga_canon", "get_all_tetrahedra_relative_grid_address", "rga-C-vs-Py"),
                 ("aux:rga_canon", "ref:rga_canon", "get_tetrahedra_relative_grid_address", "rga-C-vs-Py"),
                 ("sym_compact", "ref:sym_compact", "symmetrize_compact_force_constants", "compact-vs-full"),
                 ("transposed_twice", "ref:transposed_twice", "show_drift_force_constants", "transpose-twice-not-identity"),
                 ("thm_iw", "ref:thm_iw", "TetrahedronMesh", "thmesh-C-vs-Py"), ("fc_sym", "ref:fc_sym", "symmetrize_force_constants", "sym-C-vs-Py")]
        for a, b, site, klass in pairs:
            if b not in R:
                continue
            x = np.array(R[a], dtype=complex if np.iscomplexobj(np.array(R[a])) else float)
            y = np.array(R[b], dtype=x.dtype)
            ok, dlt = _close(x, y)
            nref += 1
            run.count("public-reference %s" % klass, section="oracle")
            if not ok:
                if klass == "ddm-C-vs-Py" and cfg["noise"]:
                    klass = "ddm-C-vs-Py-nonsymmetric-fc"
                run.violation(site, klass, "compiled result differs from the in-repository Python reference by %.3g" % dlt,
                              dict(config=cfg, result=a))
    run.cov["oracle"]["public_reference_comparisons"] = nref

    # ---------------- (i) public results: bitwise across thread counts / builds / repeats
    thread_sets = U.THREADS_ALL if thorough else [1, 3, 16]
    pub = 0
    for cfg, R0 in zip(cfgs, results0):
        base = {k: _hash(v) for k, v in R0.items() if not k.startswith(("ref:", "aux:"))}
        for t in thread_sets:
            U.set_threads(t)
            R = scenario(cfg)
            pub += 1
            for k, h in base.items():
                if _hash(R[k]) != h:
                    run.violation("public:%s" % k, "thread-count-dependent", "result differs bitwise between OMP threads 4 and %d" % t, dict(config=cfg, result=k, threads=t))
        U.switch_build("ser")
        try:
            R = scenario(cfg)
            pub += 1
        finally:
            shim_omp = U.switch_build("omp")
        # Across builds the *Python layer* takes different routes (qpoints.py / mesh.py: all q-points in one kernel call
        # vs DynamicalMatrix.run per q; at Gamma with Gonze NAC: D(fc) vs D(fc_short_range) + dipole-dipole), so public
        # results are compared to 1e-12*scale here; the kernels themselves are compared bitwise across builds below.
        for k, h in base.items():
            if _hash(R[k]) != h:
                flat = lambda v: np.concatenate([np.ravel(np.asarray(x, dtype=complex)) for x in v]) if isinstance(v, list) else np.ravel(np.asarray(v, dtype=complex))
                x, y = flat(R[k]), flat(R0[k])
                dlt = float(np.abs(x - y).max()) if x.shape == y.shape else float("inf")
                run.count("public results equal to rounding but not bitwise across builds", section="oracle")
                if not dlt <= 1e-12 * max(1.0, float(np.abs(y).max())):
                    run.violation("public:%s" % k, "build-dependent", "result differs between the OpenMP and the serial build by %.3g" % dlt, dict(config=cfg, result=k))
            else:
                run.count("public results bitwise equal across builds", section="oracle")
    run.cov["oracle"]["public_scenario_runs"] = pub

    # ---------------- captured kernel calls: dtype contract, footprint, bitwise determinism, references
    contract = U.glue_contract(common.REPO)
    lines, owners = [], []
    per_kernel = {}
    iw_py = None
    for ci, (name, args) in enumerate(cap.calls):
        per_kernel[name] = per_kernel.get(name, 0) + 1
        info = dict(kernel=name, signature=U.sig_of(name, args)[1:])
        # element types as the glue casts them
        spec = contract.get(name)
        if spec is None or len(spec) != len(args):
            run.broke("correspondence", "glue signature of %s changed" % name, info)
        else:
            for k, (sp, a) in enumerate(zip(spec, args)):
                if sp[0] == "a":
                    if not isinstance(a, np.ndarray) or sp[1] is None or str(a.dtype) not in U.CTYPE_DTYPES[sp[1]] or not a.flags.c_contiguous:
                        # representation-level condition: the value / sanitizer / reference comparisons decide whether it matters
                        run.broke("correspondence", "%s: argument %d (%s) is %s but the glue casts it to %s*" % (name, k, sp[2], getattr(a, "dtype", type(a)), sp[1]), info)
        # runs: pattern 0 for every thread count / build / repeat, pattern 1 once
        U.set_threads(4)
        r0 = U.replay(shim_omp, name, args, 0)
        r1 = U.replay(shim_omp, name, args, 1)
        h0 = U.out_bytes(r0)
        ts = U.THREADS_ALL if (thorough or intensify or per_kernel[name] <= 3) else [1, 16]
        for t in ts:
            U.set_threads(t)
            for rep in range((4 if t > 1 else 1) if intensify else (2 if t in (3, 16) else 1)):
                rt = U.replay(shim_omp, name, args, 0)
                run.count("kernel-replays", section="oracle")
                if U.out_bytes(rt) != h0:
                    run.violation("phonopy._phonopy.%s" % name, "thread-count-dependent", "kernel output differs bitwise between 4 and %d threads" % t, dict(threads=t, **info))
        rs = U.replay(lib_ser, name, args, 0)
        if U.out_bytes(rs) != h0:
            run.violation("phonopy._phonopy.%s" % name, "build-dependent", "kernel output differs bitwise between OpenMP and serial builds", info)
        for r in (r0, r1, rs):
            if not r["guards_ok"]:
                run.violation("phonopy._phonopy.%s" % name, "out-of-bounds-write", "guard zone around an output array was modified", info)
            if not r["inputs_ok"]:
                run.violation("phonopy._phonopy.%s" % name, "input-modified", "an input array changed during the call", info)
        reqs = U.ws_requests(name, args, r0["outs"])
        nontriv = False
        for k, mode in U.OUTS[name].items():
            changed = r0["changed"][k] | r1["changed"][k]
            nontriv = nontriv or len(changed) > 1
            lines.append(reqs[k])
            owners.append((name, k, mode, changed, info, int(args[k].size)))
        run.case((name, info["signature"], hashlib.sha1(b"".join(a.tobytes() for a in args if isinstance(a, np.ndarray) and a.size < 4096)).hexdigest()), nontrivial=nontriv or not U.OUTS[name])
        if per_kernel[name] == 1:
            run.sample(dict(kind="captured-call", **info), limit=6)

        # reference semantics by transcription, on the arguments the Python layer passed
        refres = None
        if name == "distribute_fc2":
            refres = ref.distribute_fc2(args)
        elif name == "compute_permutation":
            refres = ref.compute_permutation(args)
        elif name == "gsv_set_smallest_vectors_sparse":
            refres = ref.gsv_sparse(args)
        elif name == "gsv_set_smallest_vectors_dense":
            refres = ref.gsv_dense(args)
        elif name == "recip_dipole_dipole":
            refres = ref.recip_dipole_dipole(args)
        elif name == "recip_dipole_dipole_q0":
            refres = ref.recip_dipole_dipole_q0(args)
        elif name == "tetrahedra_frequencies":
            refres = ref.tetrahedra_frequencies(args)
        elif name == "tetrahedron_method_dos" and args[0].size <= 6000:
            # Python integration weights on the C vertex ordering: the central vertex of each tetrahedron is (0,0,0)
            from phonopy.structure import tetrahedron_method as TMmod
            tmx = TMmod.TetrahedronMethod(None, lang="Py")
            central = [int(np.nonzero((np.array(t) == 0).all(axis=1))[0][0]) for t in args[7]]
            found = hasattr(tmx, "_relative_grid_addresses") and hasattr(tmx, "_central_indices")
            if found:
                tmx._relative_grid_addresses, tmx._central_indices = np.array(args[7]), central
            else:
                run.count("intermediate hook unavailable: TetrahedronMethod._central_indices (DOS transcription skipped)", section="oracle")
            if found:
                def iwf(w, tet, tmx=tmx):
                    tmx.set_tetrahedra_omegas(tet)
                    tmx.run(w, value="I")
                    return tmx.get_integration_weight()
                sub = list(args)
                nfp = min(len(args[2]), 12)
                sel = np.linspace(0, len(args[2]) - 1, nfp).astype(int)
                sub[2] = np.ascontiguousarray(args[2][sel])
                sub[0] = np.zeros(args[0].shape[:2] + (nfp, args[0].shape[3]))
                rsub = U.replay(shim_omp, name, sub, 0)
                refsub = ref.tetrahedron_method_dos(sub, iwf)
                ok, dlt = _close(rsub["outs"][0], refsub[0])
                run.count("transcribed-reference %s" % name, section="oracle")
                if not ok:
                    run.violation("phonopy._phonopy.%s" % name, "differs-from-reference", "differs from the transcribed formula by %.3g" % dlt, info)
        if refres is not None:
            run.count("transcribed-reference %s" % name, section="oracle")
            for k in U.OUTS[name]:
                x, y = r0["outs"][k], refres[k]
                if name == "gsv_set_smallest_vectors_sparse" and k == 0:
                    # only the first `multiplicity` vectors of each pair are defined
                    m = r0["outs"][1].reshape(-1)
                    xm = x.reshape(-1, 27, 3).copy()
                    ym = np.array(y).reshape(-1, 27, 3).copy()
                    for p in range(len(m)):
                        xm[p, m[p]:] = 0
                        ym[p, m[p]:] = 0
                    x, y = xm, ym
                ok, dlt = _close(np.array(x, dtype=float), np.array(y, dtype=float))
                if not ok:
                    run.violation("phonopy._phonopy.%s" % name, "differs-from-reference", "output %d differs from the transcribed formula by %.3g" % (k, dlt), info)
            if "ret" in refres and bool(r0["ret"]) != bool(refres["ret"]):
                run.violation("phonopy._phonopy.%s" % name, "differs-from-reference", "return value differs from the transcription", info)
    for k, v in per_kernel.items():
        run.cov["distribution"]["captured %s" % k] = v

    # F15 region: derivative of the dynamical matrix with force constants that are not index-permutation symmetric,
    # C (both OpenMP switch values) against the in-repository Python version
    from phonopy.harmonic.derivative_dynmat import DerivativeOfDynamicalMatrix
    import phonopy
    for trial in range(6 if thorough else 3):
        cell, _ = gen.make_cell(rng.choice(["bcc", "cscl", "nacl_prim", "hcp"]))
        ph = phonopy.Phonopy(cell, supercell_matrix=np.diag([2, 1, 1]) if trial % 2 else np.diag([1, 1, 2]), primitive_matrix="P", log_level=0)
        fc = gen.pair_fc(ph.supercell, 1.45 * nn_distance(ph.primitive))
        if trial > 0:
            fc = fc + 0.05 * gen.rand_rational_array(rng, fc.shape)
        ph.force_constants = fc
        q = np.array([rng.randint(-7, 7) / 16.0 for _ in range(3)])
        dd = DerivativeOfDynamicalMatrix(ph.dynamical_matrix)
        dd.run(q)
        c_ = dd.d_dynamical_matrix.copy()
        dd.run(q, lang="Py")
        p_ = dd.d_dynamical_matrix.copy()
        ok, dlt = _close(c_, p_)
        herm = max(float(np.abs(c_[i] - c_[i].conj().T).max()) for i in range(3))
        run.count("ddm nonsymmetric-fc probes", section="oracle")
        run.case(("ddm-probe", trial, fc.tobytes(), q.tobytes()), nontrivial=trial > 0)
        if not ok or herm > TOL * max(1.0, float(np.abs(p_).max())):
            run.violation("DerivativeOfDynamicalMatrix.run", "ddm-C-vs-Py-nonsymmetric-fc" if trial > 0 else "ddm-C-vs-Py",
                          "C derivative of the dynamical matrix differs from _run_py by %.3g; C result non-Hermitian by %.3g (directions y,z: leading rows are not Hermitised, c/derivative_dynmat.c:110-123)" % (dlt, herm),
                          dict(cell=cell.symbols, supercell=np.array(ph.supercell_matrix).tolist(), q=q.tolist(), fc=fc.tolist()))

    # ---------------- correspondence with the Lean footprint model
    lines.append("inventory")
    owners.append(("inventory", None, None, None, None, None))
    mallocs = [r["key"] for r in mallocs_canon]
    lines.append("mallocs")
    owners.append(("mallocs", None, None, None, None, None))
    run.cov["correspondence"]["mallocs_found"] = len(mallocs)
    subset_cases = 0
    for name, args in cap.calls:
        if name == "distribute_fc2":
            npos, al, ma = args[4].shape[1], args[1], args[5]
            lines.append("temp atom_list_reverse %d %d %s %d %s" % (npos, len(al), U.ints(al), len(ma), U.ints(ma)))
            owners.append(("temp", name, len(al), None, dict(kernel=name, atom_list=al.tolist(), num_pos=npos), None))
            if len(al) < npos and int(np.max(ma[al])) >= len(al):
                subset_cases += 1
        elif name in ("perm_trans_symmetrize_compact_fc", "transpose_compact_fc"):
            npa, ns = args[0].shape[0], args[0].shape[1]
            perms, s2pp, p2s, nsym = args[1], args[2], args[3], args[4]
            it = [int(perms[nsym[j], p2s[ip]]) for j in range(ns) for ip in range(npa)]
            lines.append("temp done %d %d %s %s" % (ns, npa, U.ints(s2pp), " ".join(map(str, it))))
            owners.append(("temp", name, None, None, dict(kernel=name, n_satom=ns, n_patom=npa), None))
        elif name == "tetrahedron_method_dos":
            gmt = args[6]
            nir = args[3].shape[0]
            lines.append("temp gp2ir %d %s" % (len(gmt), U.ints(gmt)))
            owners.append(("temp", name, None, None, dict(kernel=name, table="gp2ir"), None))
            lines.append("temp ir_grid_points %d %d %s" % (nir, len(gmt), U.ints(gmt)))
            owners.append(("temp", name, None, None, dict(kernel=name, table="ir_grid_points/weights"), None))
    run.cov["correspondence"]["distribute_fc2 calls with subset atom_list and done index >= len(atom_list)"] = subset_cases
    # read footprints: table certificates of the model evaluated on the arrays the Python layer really passed
    for name, args in cap.calls:
        rq = U.reads_request(name, args)
        if rq is None:
            continue
        for line_, arrays in (rq if isinstance(rq, list) else [rq]):
            if "-" in line_:
                run.violation("phonopy._phonopy.%s" % name, "index-table-out-of-range", "negative entry in an index table passed by the Python layer", dict(kernel=name, signature=U.sig_of(name, args)[1:]))
                continue
            lines.append(line_)
            owners.append(("reads", name, None, None, dict(kernel=name, signature=U.sig_of(name, args)[1:]), {k_: int(v_.size * (2 if v_.dtype.kind == "c" else 1)) for k_, v_ in arrays.items()}))
    loop_reqs = ["loop dynmat_ij 1 3", "loop ddm 1 2", "loop dmq 2 3 2", "loop dd_kk 1 5", "loop borns 1 3", "loop tetra_freq 3 2 3 1",
                 "loop dos 4 3 2 5 2", "loop thermal 2 4 3", "loop iw 1 7", "loopfc 2 6 6 0 3", "loopfc 2 4 2 0 1"]
    for lr in loop_reqs:
        lines.append(lr)
        owners.append(("loop", lr, None, None, None, None))
    out = common.lean_run_driver("C13", lines)
    if len(out) != len(lines):
        run.broke("correspondence", "driver answered %d lines for %d requests" % (len(out), len(lines)))
    ncmp = 0
    for (name, k, mode, changed, info, size), req, ans in zip(owners, lines, out):
        if name == "inventory":
            model_keys = ans.split(" ## ")
            run.cov["correspondence"]["pragma_inventory_model"] = len(model_keys)
            if sorted(model_keys) != sorted(keys):
                diff = sorted(set(keys) ^ set(model_keys))
                run.broke("correspondence", "pragma inventory of /repo/c differs from the inventory the footprint model was written against", diff[:6])
            continue
        if name == "mallocs":
            model_m = ans.split(" ## ")
            # a temporary of the model that no longer exists makes the model's statement about it vacuous (counted);
            # a NEW temporary or a changed element type / count is not covered by any theorem
            new_m = [k_ for k_ in set(mallocs) if mallocs.count(k_) > model_m.count(k_)]
            gone = [k_ for k_ in set(model_m) if model_m.count(k_) > mallocs.count(k_)]
            run.cov["correspondence"]["heap temporaries of the model no longer in the code"] = gone
            if new_m:
                run.broke("correspondence", "heap temporaries of /repo/c (malloc element counts) differ from the ones the footprint model was written against",
                          sorted(new_m)[:6])
            continue
        if name == "reads":
            run.count("read-footprint certificates", section="correspondence")
            parts = ans.split()
            if ans == "bad-op" or not parts[0].startswith("cert="):
                run.broke("correspondence", "model rejected a read-footprint request", dict(info=info, request=req[:160]))
                continue
            fields = {p_.split(":")[0]: p_.split(":")[1:] for p_ in parts[1:]}
            for an, actual in size.items():
                if an in fields and int(fields[an][0]) != actual:
                    run.broke("correspondence", "%s: array `%s` has %d elements, the model's shape relation gives %s (glue shape wiring / Python layer changed)" % (k, an, actual, fields[an][0]), info)
            if parts[0] != "cert=true" or any(f_[2] != "true" for f_ in fields.values()):
                bad = [n_ for n_, f_ in fields.items() if f_[2] != "true"]
                run.violation("phonopy._phonopy.%s" % k, "index-table-out-of-range",
                              "index tables passed by the Python layer fail the read-footprint certificate (reads of %s would leave the array)" % (bad or "an input"), info)
            continue
        if name == "temp":
            run.count("temporary-bounds certificates", section="correspondence")
            parts = ans.split()
            if ans == "bad-op" or parts[1] != "true":
                run.broke("correspondence", "model: accesses of a heap temporary exceed its allocated size on the implementation's tables", dict(info=info, answer=ans[:120]))
            continue
        if name == "loop":
            run.count("loop-bruteforce", section="correspondence")
            parts = ans.split()
            if ans == "bad-op" or parts[2] != "true" or parts[3] != "true":
                run.broke("correspondence", "model loop is not disjoint / in bounds on a concrete shape (contradicts the theorems)", dict(request=req, answer=ans[:100]))
            continue
        ncmp += 1
        run.count("footprint %s" % name, section="correspondence")
        if ans == "bad-op":
            run.broke("correspondence", "model rejected write-set request", dict(request=req[:200]))
            continue
        model = U.parse_ranges(ans)
        if model and max(model) >= size:
            run.broke("correspondence", "model write set exceeds the array the Python layer passed (%s arg %d)" % (name, k), dict(request=req[:200], size=size))
        extra = changed - model
        if extra:
            run.broke("correspondence", "%s arg %d: %d cells changed outside the model's write set (first %s)" % (name, k, len(extra), sorted(extra)[:5]), info)
        elif mode == "assign" and model - changed:
            miss = model - changed
            run.broke("correspondence", "%s arg %d: %d cells of the model's write set were never written (first %s)" % (name, k, len(miss), sorted(miss)[:5]), info)
    run.cov["correspondence"]["compared"] = ncmp
    run.cov["correspondence"]["thread_counts"] = U.THREADS_ALL

    # ---------------- sanitizer replay (both tiers): heap temporaries inside the kernels are invisible to value and
    # guard-zone checks; the captured calls are replayed against an -fsanitize=address,undefined build in a child
    sel = cap.calls if thorough else sanitizer_selection(cap.calls, 4)
    info_s = asan_support(run, sel, timeout=900 if thorough else 120)
    report_sanitizer(run, info_s, sel)
    run.cov["oracle"]["sanitizer_calls_selected"] = len(sel)
    U.set_threads(4)
