"""Helpers shared by the C02 and C03 checks (dynamical matrix): tables of the implementation, the exact phase
values the code used, the wire format of the Lean model (Model/DynMatWire.lean), an independent lattice
Fourier sum for pair-potential crystals, q-point and case generators."""

from __future__ import annotations

import ctypes
import itertools
import math
from fractions import Fraction

import numpy as np

from .. import common, gen
from ..common import q as Q

PI = 3.14159265358979323846  # the literal of c/dynmat.c


# --------------------------------------------------------------------------
# implementation tables
# --------------------------------------------------------------------------

def dm_tables(dm):
    """The arrays the kernels receive, re-derived from PUBLIC attributes only: Primitive.p2s_map / s2p_map / p2p_map /
    masses, Primitive.get_smallest_vectors() and, for sparse storage, the public converter sparse_to_dense_svecs (the
    same call DynamicalMatrix makes).  `dm` is a DynamicalMatrix (its public `.primitive`) or a Primitive."""
    prim = dm.primitive if hasattr(dm, "primitive") else dm
    p2s = np.array(prim.p2s_map, dtype="int64")
    s2p = np.array(prim.s2p_map, dtype="int64")
    p2p = prim.p2p_map
    s2pp = np.array([p2p[s2p[i]] for i in range(len(s2p))], dtype="int64")
    svecs, multi = prim.get_smallest_vectors()
    if not prim.store_dense_svecs:
        from phonopy.structure.cells import sparse_to_dense_svecs

        svecs, multi = sparse_to_dense_svecs(svecs, multi)
    svecs = np.array(svecs, dtype="double", order="C")
    multi = np.array(multi, dtype="int64", order="C")
    return dict(np=len(p2s), ns=len(s2p), p2s=p2s, s2p=s2p, s2pp=s2pp, svecs=svecs, multi=multi,
                masses=np.array(prim.masses, dtype="double"))


def c_phases(qpt, svecs):
    """(cos, sin) exactly as get_dm computes them: phase accumulated left to right, cos(phase*2*PI)."""
    out = np.zeros((len(svecs), 2))
    for l, s in enumerate(svecs):
        phase = 0.0
        for m in range(3):
            phase += float(qpt[m]) * float(s[m])
        out[l, 0] = math.cos(phase * 2 * PI)
        out[l, 1] = math.sin(phase * 2 * PI)
    return out


def py_phases(qpt, svecs):
    """exp(np.vdot(vec, q) * 2j * pi) exactly as _run_py_dynamical_matrix computes it."""
    out = np.zeros((len(svecs), 2))
    qq = np.asarray(qpt)
    for l, s in enumerate(svecs):
        z = np.exp([np.vdot(s, qq) * 2j * np.pi])[0]
        out[l, 0] = z.real
        out[l, 1] = z.imag
    return out


def mass_factors(masses):
    n = len(masses)
    return np.array([[math.sqrt(masses[i] * masses[j]) for j in range(n)] for i in range(n)])


def _ints(a):
    return " ".join(str(int(x)) for x in np.asarray(a).ravel())


def _rats(a):
    return " ".join(Q(float(x)) for x in np.asarray(a, dtype="double").ravel())


def model_line(lang, T, compact, phases, fc):
    """One request line for the Lean driver. lang 'c'|'py'; `fc` full (ns,ns,3,3) or compact (np,ns,3,3)."""
    npa, ns = T["np"], T["ns"]
    nsv = len(T["svecs"])
    if compact:
        nf, p2s, s2p = npa, np.arange(npa), T["s2pp"]
    else:
        nf, p2s, s2p = ns, T["p2s"], T["s2p"]
    assert fc.shape == (nf, ns, 3, 3)
    head = "%s %d %d %d %d %s %s %s" % (lang, npa, nf, ns, nsv, _ints(p2s), _ints(s2p), _ints(T["multi"]))
    if lang == "py":
        head += " %s %s" % (_ints(T["p2s"]), _ints(T["s2p"]))
    return "%s %s %s %s" % (head, _rats(phases), _rats(mass_factors(T["masses"])), _rats(fc))


def parse_dm(line, npa, with_flag=False):
    if line == "bad-op":
        return (None, None) if with_flag else None
    toks = line.split()
    flag = None
    if with_flag:
        flag, toks = toks[0], toks[1:]
    v = np.array([float(Fraction(t)) for t in toks]).reshape(3 * npa, 3 * npa, 2)
    d = v[:, :, 0] + 1j * v[:, :, 1]
    return (flag, d) if with_flag else d


def compactok_line(T):
    return "compactok %d %d %d %s %s %s %s" % (T["np"], T["ns"], len(T["svecs"]), _ints(T["p2s"]), _ints(T["s2p"]),
                                               _ints(T["multi"]), _ints(T["s2pp"]))


def linked_line(T, ph):
    p2s, s2pp, nsym, perms = gen.compact_tables(ph)
    nt, ns = perms.shape
    return "linked %d %d %d %s %s %s %d %s %s %s %s" % (
        T["np"], T["ns"], len(T["svecs"]), _ints(T["p2s"]), _ints(T["s2p"]), _ints(T["multi"]),
        nt, _ints(p2s), _ints(s2pp), _ints(nsym), _ints(perms))


# --------------------------------------------------------------------------
# direct call of the kernel (both loop forms of dym_get_dynamical_matrix_at_q)
# --------------------------------------------------------------------------

def kernel_direct(T, compact, fc, qpt, use_openmp):
    lib = common._STATE["shim"].lib
    try:
        f = lib.dym_get_dynamical_matrix_at_q  # exported (non-static) symbol of c/dynmat.h; an optional extra hook
    except AttributeError:
        return None
    f.restype = ctypes.c_int64
    vp = ctypes.c_void_p
    f.argtypes = [vp, ctypes.c_int64, ctypes.c_int64, vp, vp, vp, vp, vp, vp, vp, vp, ctypes.c_int64]
    npa, ns = T["np"], T["ns"]
    if compact:
        p2s, s2p = np.arange(npa, dtype="int64"), np.array(T["s2pp"], dtype="int64")
    else:
        p2s, s2p = np.array(T["p2s"], dtype="int64"), np.array(T["s2p"], dtype="int64")
    out = np.zeros((3 * npa, 3 * npa), dtype="c16", order="C")
    fcc = np.array(fc, dtype="double", order="C")
    qq = np.array(qpt, dtype="double", order="C")
    sv = np.array(T["svecs"], dtype="double", order="C")
    mu = np.array(T["multi"], dtype="int64", order="C")
    ms = np.array(T["masses"], dtype="double", order="C")
    f(out.ctypes.data, npa, ns, fcc.ctypes.data, qq.ctypes.data, sv.ctypes.data, mu.ctypes.data, ms.ctypes.data,
      s2p.ctypes.data, p2s.ctypes.data, None, int(use_openmp))
    return out


# --------------------------------------------------------------------------
# independent lattice Fourier sum (the specification of C02) for pair-potential crystals
# --------------------------------------------------------------------------

def default_kfun(za, zb, r2):
    s = (za * zb) % 7 + 1.0
    return (s / (1.0 + r2), 0.5 * s / (1.0 + r2) ** 2)


def make_kfun(rng):
    """A random central pair interaction (symmetric in the species); returns (kfun, description)."""
    a0 = rng.randint(1, 8) / 4.0
    b0 = rng.randint(-4, 8) / 8.0
    p = rng.choice([1, 2, 3])
    mod = rng.choice([3, 5, 7])

    def kfun(za, zb, r2):
        s = (za * zb) % mod + 1.0
        return (a0 * s / (1.0 + r2) ** p, b0 * s / (1.0 + r2) ** (p + 1))

    return kfun, dict(a0=a0, b0=b0, p=p, mod=mod)


def plane_spacings(lat):
    """distances between lattice planes (rows = lattice vectors)"""
    rec = np.linalg.inv(lat)  # columns are reciprocal vectors
    return np.array([1.0 / np.linalg.norm(rec[:, i]) for i in range(3)])


def images_needed(lat, cutoff):
    return int(math.ceil(cutoff / plane_spacings(lat).min())) + 1


def fourier_dynmat(lat, frac, numbers, masses, kfun, cutoff, qpts):
    """D(jj',q) = (m_j m_j')^-1/2 sum_l Phi(j0,j'l) exp(2 pi i q.[r(j'l)-r(j0)]) of the INFINITE crystal with
    primitive lattice `lat` (rows), fractional positions `frac`; Phi(j0,j'l) = -(A I + B r r^T) for 0<|r|<=cutoff,
    Phi(j0,j0) = -sum of all the others.  Written independently of gen.pair_fc: one loop over lattice vectors,
    no supercell, no minimum images.  Returns array (nq, 3n, 3n)."""
    n = len(frac)
    qpts = np.atleast_2d(np.asarray(qpts, dtype=float))
    m = images_needed(lat, cutoff) + 1
    rng_l = range(-m, m + 1)
    out = np.zeros((len(qpts), 3 * n, 3 * n), dtype=complex)
    for i in range(n):
        onsite = np.zeros((3, 3))
        for j in range(n):
            blk = np.zeros((len(qpts), 3, 3), dtype=complex)
            for l in itertools.product(rng_l, rng_l, rng_l):
                df = frac[j] + np.array(l, dtype=float) - frac[i]
                r = df @ lat
                r2 = float(r @ r)
                if r2 < 1e-10 or r2 > cutoff ** 2 * (1 + 1e-12):
                    continue
                a, b = kfun(int(numbers[i]), int(numbers[j]), r2)
                phi = -(a * np.eye(3) + b * np.outer(r, r))
                onsite -= phi
                ph = np.exp(2j * np.pi * (qpts @ df))
                blk += ph[:, None, None] * phi[None, :, :]
            out[:, 3 * i:3 * i + 3, 3 * j:3 * j + 3] += blk / math.sqrt(masses[i] * masses[j])
        out[:, 3 * i:3 * i + 3, 3 * i:3 * i + 3] += onsite[None] / masses[i]
    return out


# --------------------------------------------------------------------------
# cases
# --------------------------------------------------------------------------

def nn_distance(cell):
    """shortest interatomic distance of a periodic structure"""
    lat, pos = cell.cell, cell.scaled_positions
    best = 1e99
    for i in range(len(pos)):
        for j in range(len(pos)):
            for s in itertools.product((-1, 0, 1), repeat=3):
                if i == j and s == (0, 0, 0):
                    continue
                best = min(best, np.linalg.norm((pos[j] - pos[i] + np.array(s)) @ lat))
    return best


CELLS_QUICK = ["sc", "cscl", "nacl_prim", "zincblende_prim", "hcp", "bcc", "bct", "fcc", "triclinic", "mono_P",
               "rhombo", "ortho_C", "ortho_A", "mono_C", "nacl"]
CELLS_MORE = ["diamond", "perovskite", "wurtzite", "rutile", "rhombo_hex", "nacl_interleaved"]


def get_cell(name):
    """gen.make_cell, with a mass for elements that have no standard atomic weight (Po)."""
    cell, cen = gen.make_cell(name)
    if cell.masses is None:
        cell.masses = [209.0] * len(cell)
    return cell, cen


UNIMODULAR = [np.array(m) for m in ([[1, 1, 0], [0, 1, 0], [0, 0, 1]], [[1, 0, 0], [0, 1, 1], [0, 0, 1]], [[0, 1, 0], [0, 0, 1], [1, 0, 0]],
                                       [[1, 0, 0], [-1, 1, 0], [0, 1, 1]], [[0, -1, 0], [1, 0, 0], [0, 0, 1]], [[1, 0, 1], [0, 1, 0], [0, 0, 1]],
                                       [[2, 1, 0], [1, 1, 0], [0, 0, 1]], [[1, 1, 1], [0, 1, 1], [0, 0, 1]])]


def pick_pmat(rng, cen):
    """(primitive_matrix argument, label): the centring symbol, 'auto', or an explicit matrix = centring matrix times a
    unimodular integer matrix (the same primitive lattice in another basis)."""
    from phonopy.structure.cells import get_primitive_matrix_by_centring

    r = rng.random()
    if r < 0.5:
        return cen, cen
    if r < 0.7:
        return "auto", "auto"
    um = UNIMODULAR[rng.randrange(len(UNIMODULAR))]
    return get_primitive_matrix_by_centring(cen) @ um, "%s*U%s" % (cen, um.tolist())


def make_case(rng, names, max_ns, max_det=6):
    """(ph, info) for a random prototype / supercell matrix / primitive matrix; None if rejected."""
    name = rng.choice(names)
    cell, cen = get_cell(name)
    smat = rng.choice(gen.supercell_matrices(rng, max_det=max_det, count=16))
    det = int(round(np.linalg.det(smat)))
    if len(cell) * det > max_ns:
        return None
    pm, pmlabel = pick_pmat(rng, cen)
    return name, cell, smat, pm, pmlabel


def supercell_in_prim(ph):
    """integer matrix M with supercell lattice = M @ primitive lattice (rows)"""
    m = ph.supercell.cell @ np.linalg.inv(ph.primitive.cell)
    mi = np.rint(m)
    assert np.abs(m - mi).max() < 1e-6
    return mi.astype(int)


def qpoints(rng, ph, n_random=2, n_comm=2, n_zb=1, n_out=1):
    """list of (kind, q) covering random / commensurate / zone boundary / outside the first zone"""
    M = supercell_in_prim(ph)
    Minv = np.linalg.inv(M)
    out = []
    for _ in range(n_random):
        out.append(("random", np.array([rng.uniform(-0.5, 0.5) for _ in range(3)])))
    for _ in range(n_comm):
        nvec = np.array([rng.randint(-3, 3) for _ in range(3)], dtype=float)
        qq = Minv @ nvec
        out.append(("commensurate", qq))
    for _ in range(n_zb):
        out.append(("zone-boundary", np.array([rng.choice([0.0, 0.5, -0.5]) for _ in range(3)])))
    for _ in range(n_out):
        base = np.array([rng.uniform(-0.5, 0.5) for _ in range(3)])
        out.append(("outside-first-zone", base + np.array([rng.randint(-2, 2) for _ in range(3)], dtype=float)
                    + np.array([1.0, 0, 0])))
    out.append(("gamma", np.zeros(3)))
    return out


def is_commensurate(ph, qq, tol=1e-9):
    M = supercell_in_prim(ph)
    v = M @ np.asarray(qq)
    return np.abs(v - np.rint(v)).max() < tol


# --------------------------------------------------------------------------
# space-group operations as index maps on the implementation's tables (C03, point-group clause)
# --------------------------------------------------------------------------

def sym_maps(ph, T, rot, trans, tol=1e-6):
    """Index maps (pi, kap, sig, ...) of the operation x -> rot x + trans (primitive fractional coordinates) on the
    tables `T`, or None when the operation does not map the supercell lattice onto itself.  Raises ValueError when
    the operation preserves the supercell but an atom or a stored vector has no image in the tables."""
    sc, pc = ph.supercell, ph.primitive
    M = supercell_in_prim(ph).astype(float)
    Minv = np.linalg.inv(M)
    rot = np.array(rot, dtype=float)
    img_lat = (rot @ M.T).T @ Minv  # rows: images of the supercell lattice vectors, in supercell coordinates
    if np.abs(img_lat - np.rint(img_lat)).max() > tol:
        return None
    xs = sc.scaled_positions @ M
    numbers = np.array(sc.numbers)
    p2s, s2pp = T["p2s"], T["s2pp"]
    npa, ns = T["np"], T["ns"]

    def find(y, z):
        d = (y[None, :] - xs) @ Minv
        ok = (np.abs(d - np.rint(d)).max(axis=1) < tol) & (numbers == z)
        idx = np.nonzero(ok)[0]
        if len(idx) != 1:
            raise ValueError("image of an atom is not a unique supercell atom")
        return int(idx[0])

    pi = np.zeros(npa, dtype=int)
    kap = np.zeros((npa, ns), dtype=int)
    for i in range(npa):
        y0 = rot @ xs[p2s[i]] + trans
        k0 = find(y0, numbers[p2s[i]])
        pi[i] = s2pp[k0]
        d = xs[p2s[pi[i]]] - y0
        if np.abs(d - np.rint(d)).max() > tol:
            raise ValueError("image of a primitive atom is not a lattice translate of a primitive atom")
        for k in range(ns):
            kap[i, k] = find(rot @ xs[k] + trans + d, numbers[k])
    if sorted(pi.tolist()) != list(range(npa)) or any(sorted(kap[i].tolist()) != list(range(ns)) for i in range(npa)):
        raise ValueError("atom maps are not permutations")
    pinv = np.argsort(pi)
    kinv = np.array([np.argsort(kap[i]) for i in range(npa)])
    sv, mu = T["svecs"], T["multi"]
    sig = -np.ones(len(sv), dtype=int)
    for i in range(npa):
        for k in range(ns):
            m, ad = mu[k, i]
            m2, ad2 = mu[kap[i, k], pi[i]]
            tgt = sv[ad2:ad2 + m2]
            for l in range(m):
                w = rot @ sv[ad + l]
                hit = np.nonzero(np.abs(tgt - w[None, :]).max(axis=1) < tol)[0]
                if len(hit) != 1:
                    raise ValueError("image of a stored shortest vector of pair (%d,%d) is not stored for pair (%d,%d)"
                                     % (k, i, kap[i, k], pi[i]))
                sig[ad + l] = ad2 + int(hit[0])
    if sorted(sig.tolist()) != list(range(len(sv))):
        raise ValueError("stored vectors are not permuted")
    sinv = np.argsort(sig)
    L = pc.cell
    Q = L.T @ rot @ np.linalg.inv(L.T)
    return dict(pi=pi, pinv=pinv, kap=kap, kinv=kinv, sig=sig, sinv=sinv, Q=Q, rot=np.rint(rot).astype(int),
                rq=np.linalg.inv(rot).T)


def svinv_line(T, compact, m):
    npa, ns = T["np"], T["ns"]
    if compact:
        nf, p2s, s2p = npa, np.arange(npa), T["s2pp"]
    else:
        nf, p2s, s2p = ns, T["p2s"], T["s2p"]
    return "svinv %d %d %d %d %s %s %s %s %s %s %s %s %s" % (
        npa, nf, ns, len(T["svecs"]), _ints(p2s), _ints(s2p), _ints(T["multi"]), _ints(m["pi"]), _ints(m["pinv"]),
        _ints(m["kap"]), _ints(m["kinv"]), _ints(m["sig"]), _ints(m["sinv"]))


def svdev_line(T, m, tol=1e-9):
    return "svdev %d %s %s %s %s" % (len(T["svecs"]), _ints(m["rot"]), _ints(m["sig"]), _rats(T["svecs"]), Q(tol))


def gamma_matrix(m, npa):
    """Gamma[(pi i, a), (i, a')] = Q[a, a']"""
    g = np.zeros((3 * npa, 3 * npa))
    for i in range(npa):
        g[3 * m["pi"][i]:3 * m["pi"][i] + 3, 3 * i:3 * i + 3] = m["Q"]
    return g


# --------------------------------------------------------------------------
# closed-form models with EXACT cancellations and zeros (dyadic geometry, central-force springs)
# --------------------------------------------------------------------------

def exact_cells():
    """name -> (PhonopyAtoms, centring, supercell matrices); lattice constants and positions are dyadic so that bond
    vectors, r r^T and their sums are exact in binary floating point."""
    from phonopy.structure.atoms import PhonopyAtoms

    def mk(lat, sym, pos):
        c = PhonopyAtoms(cell=np.array(lat, dtype=float), symbols=sym, scaled_positions=np.array(pos, dtype=float))
        if c.masses is None:
            c.masses = [209.0] * len(sym)
        return c

    cub = lambda a: [[a, 0, 0], [0, a, 0], [0, 0, a]]  # noqa: E731
    f4 = [[0, 0, 0], [0, 0.5, 0.5], [0.5, 0, 0.5], [0.5, 0.5, 0]]
    d2, d4 = np.diag([2, 2, 2]), np.diag([4, 4, 4])
    return {
        "fcc a=4 (conventional, F)": (mk(cub(4.0), ["Al"] * 4, f4), "F", [d2, np.diag([2, 2, 4])]),
        "fcc a=4 (primitive)": (mk([[0, 2, 2], [2, 0, 2], [2, 2, 0]], ["Al"], [[0, 0, 0]]), "P", [d4]),
        "rock salt a=4 (conventional, F)": (mk(cub(4.0), ["Na"] * 4 + ["Cl"] * 4, f4 + [[0.5, 0.5, 0.5], [0.5, 0, 0], [0, 0.5, 0], [0, 0, 0.5]]),
                                            "F", [d2]),
        "rock salt a=4 (primitive)": (mk([[0, 2, 2], [2, 0, 2], [2, 2, 0]], ["Na", "Cl"], [[0, 0, 0], [0.5, 0.5, 0.5]]), "P", [d4]),
        "bcc a=4 (conventional, I)": (mk(cub(4.0), ["Fe"] * 2, [[0, 0, 0], [0.5, 0.5, 0.5]]), "I", [d2]),
        "sc a=2": (mk(cub(2.0), ["Po"], [[0, 0, 0]]), "P", [d4]),
    }


def central_kfun(za, zb, r2):
    """purely central springs: a(r) = 0, b dyadic, so that Phi = -b r r^T and blocks on bonds with x+y+z = 0
    have nine elements that cancel exactly"""
    s = float((za * zb) % 3 + 1)
    return (0.0, s * (0.5 if r2 < 9.0 else 0.125))


def structured_fc(rng, ns):
    """full array whose 3x3 blocks are exactly zero / have a single non-zero element / are exactly antisymmetric /
    symmetric with cancelling element sum / generic; dyadic entries"""
    fc = np.zeros((ns, ns, 3, 3))
    kinds = {}
    for i in range(ns):
        for j in range(ns):
            t = rng.choice(["zero", "single", "antisym", "cancel", "generic", "generic"])
            b = np.zeros((3, 3))
            if t == "single":
                b[rng.randrange(3), rng.randrange(3)] = rng.choice([-2, -1, 1, 2]) / 4.0
            elif t == "antisym":
                x, y, z = (rng.randint(-8, 8) / 8.0 for _ in range(3))
                b = np.array([[0, x, y], [-x, 0, z], [-y, -z, 0]])
            elif t == "cancel":
                x = rng.randint(1, 8) / 8.0
                v = np.array(rng.choice([(1, -1, 0), (1, 0, -1), (0, 1, -1), (2, -1, -1)]), dtype=float)
                b = -x * np.outer(v, v)
            elif t == "generic":
                b = np.array([[rng.randint(-8, 8) / 8.0 for _ in range(3)] for _ in range(3)])
            fc[i, j] = b
            kinds[t] = kinds.get(t, 0) + 1
    return fc, kinds


# --------------------------------------------------------------------------
# lattice Fourier sum, vectorised over q (thousands of q-points, ~100 atoms)
# --------------------------------------------------------------------------

def fourier_dynmat_many(lat, frac, numbers, masses, kfun, cutoff, qpts):
    """Same specification as `fourier_dynmat` (infinite-crystal lattice sum, no supercell), organised for many
    q-points: neighbours of each atom are found with one array operation, then one vector operation per bond."""
    n = len(frac)
    qpts = np.atleast_2d(np.asarray(qpts, dtype=float))
    m = images_needed(lat, cutoff) + 1
    rng_l = np.arange(-m, m + 1)
    L = np.array(np.meshgrid(rng_l, rng_l, rng_l, indexing="ij")).reshape(3, -1).T.astype(float)
    out = np.zeros((len(qpts), 3 * n, 3 * n), dtype=complex)
    frac = np.asarray(frac, dtype=float)
    for i in range(n):
        df = (frac[None, :, :] - frac[i][None, None, :]) + L[:, None, :]  # (nL, n, 3)
        r = df @ lat
        r2 = np.sum(r * r, axis=2)
        sel = np.nonzero((r2 >= 1e-10) & (r2 <= cutoff ** 2 * (1 + 1e-12)))
        onsite = np.zeros((3, 3))
        for li, j in zip(*sel):
            a, b = kfun(int(numbers[i]), int(numbers[j]), float(r2[li, j]))
            phi = -(a * np.eye(3) + b * np.outer(r[li, j], r[li, j]))
            onsite -= phi
            ph = np.exp(2j * np.pi * (qpts @ df[li, j]))
            out[:, 3 * i:3 * i + 3, 3 * j:3 * j + 3] += ph[:, None, None] * (phi / math.sqrt(masses[i] * masses[j]))[None]
        out[:, 3 * i:3 * i + 3, 3 * i:3 * i + 3] += onsite[None] / masses[i]
    return out


def primes_between(lo, hi):
    out = []
    for k in range(lo, hi + 1):
        if k > 1 and all(k % d for d in range(2, int(k ** 0.5) + 1)):
            out.append(k)
    return out


# --------------------------------------------------------------------------
# description invariance: the same crystal with relabelled (left-handed, sheared, permuted) lattice vectors
# --------------------------------------------------------------------------

def relabel_picks(rng, n=3):
    """names of gen.UNIMODULAR to use in this run: always at least one with det -1"""
    neg = [k for k, m in gen.UNIMODULAR.items() if round(np.linalg.det(np.array(m))) == -1]
    picks = [rng.choice(neg)]
    rest = [k for k in gen.UNIMODULAR if k not in picks]
    rng.shuffle(rest)
    return picks + rest[: n - 1]


def relabelled_phonopy(cell, cen, smat, mname, dense=True):
    """(ph', qmap): Phonopy object of the relabelled description of (cell, supercell matrix smat, centring cen): the same
    supercell lattice and the same primitive lattice, lattice vectors relabelled by M; qmap maps reduced q-points of
    the original PRIMITIVE cell to those of the relabelled primitive cell (same Cartesian q)."""
    from phonopy import Phonopy
    from phonopy.structure.cells import get_primitive_matrix_by_centring

    M = np.array(gen.UNIMODULAR[mname], dtype=int)
    Minv = np.rint(np.linalg.inv(M)).astype(int)
    c2, qmap, smap = gen.relabelled_cell(cell, M)
    P2 = Minv.T @ get_primitive_matrix_by_centring(cen) @ M.T
    ph = Phonopy(c2, supercell_matrix=smap(smat), primitive_matrix=P2, log_level=0, store_dense_svecs=dense)
    return ph, qmap


RELABEL_CASES = [("nacl", (2, 2, 2)), ("nacl_prim", (2, 2, 2)), ("zincblende_prim", (2, 2, 2)), ("cscl", (2, 2, 2)), ("bcc", (2, 2, 2)),
                 ("hcp", (3, 3, 2)), ("wurtzite", (3, 3, 2)), ("triclinic", (2, 2, 2)), ("rutile", (2, 2, 3)), ("fcc", (2, 2, 2)),
                 ("mono_P", (3, 2, 2)), ("perovskite", (2, 2, 2))]
