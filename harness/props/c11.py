"""C11 — densities of states: non-negative, normalised, additive; tetrahedron weights."""

import itertools
import os
import subprocess
import sys
from fractions import Fraction

import numpy as np

from .. import common, gen
from ..common import q

TOL = 1e-9
EPS = 1e-10  # -DTHM_EPSILON of common.build_lib

# reciprocal "primitive vectors" (columns) whose shortest main diagonal is number d
LATTICES = {
    0: np.array([[1.0, -0.3, -0.3], [0.0, 1.0, -0.3], [0.0, 0.0, 1.0]]).T,
    1: np.array([[1.0, 0.0, 0.0], [0.4, 1.0, 0.0], [0.4, 0.0, 1.0]]),
    2: np.array([[1.0, 0.4, 0.0], [0.0, 1.0, 0.0], [0.0, 0.4, 1.0]]),
    3: np.array([[1.0, 0.0, 0.4], [0.0, 1.0, 0.4], [0.0, 0.0, 1.0]]),
}


def _central_of(rel):
    """index of the central vertex (the origin) in each tetrahedron of a public `tetrahedra` table"""
    rel = np.asarray(rel)
    return np.array([int(np.where((t == 0).all(axis=1))[0][0]) for t in rel], dtype="int64")


def _py_table(TM, d):
    """relative grid addresses + central indices of the Python implementation for main diagonal d (public attributes only)"""
    tm = TM.TetrahedronMethod(LATTICES[d], mesh=[1, 1, 1], lang="Py")
    rel = np.array(tm.tetrahedra)
    return rel, _central_of(rel)


def _gp_ir_index(table, ir_grid_points):
    pos = {int(g): i for i, g in enumerate(ir_grid_points)}
    return np.array([pos[int(g)] for g in table], dtype="int64")


def _set_route(run, obj, openmp):
    """select the compiled / TetrahedronMesh route of a DOS object; False if the (private) switch is not there"""
    if not hasattr(obj, "_openmp_thm"):
        run.count("intermediate hook unavailable: Dos._openmp_thm", section="correspondence")
        return False
    obj._openmp_thm = openmp
    return True


def _rats(a):
    return " ".join(q(float(x)) for x in np.asarray(a, dtype="double").ravel())


def _parse(line):
    if line == "bad-op":
        return None
    return [None if t == "divzero" else float(Fraction(t)) for t in line.split()]


def _field_tetra(field, mesh, gp_addr, rel):
    """tetrahedra_omegas[24][4] of a periodic field around one grid point"""
    a = (np.asarray(rel) + np.asarray(gp_addr)) % np.asarray(mesh)
    return np.array(field[a[..., 0], a[..., 1], a[..., 2]], dtype="double", order="C")


def _omega_list(rng, vals):
    u = sorted(set(float(v) for v in np.asarray(vals).ravel()))
    out = [u[0] - 0.5, u[-1] + 0.5]
    out += u  # exact ties with vertex values
    out += [(a + b) / 2 for a, b in zip(u[:-1], u[1:])]
    out += [u[0] + (u[-1] - u[0]) * rng.randint(1, 63) / 64.0 for _ in range(3)]
    out = sorted(set(out))
    if len(out) > 16:
        keep = set(rng.sample(out[1:-1], 14))
        out = [o for o in out if o in keep or o in (out[0], out[-1])]
    return out


def _orderings(tet, omegas):
    """(permutation of the four vertex values, interval index) pairs reached"""
    seen = set()
    for row in tet:
        perm = tuple(int(i) for i in np.argsort(row, kind="stable"))
        s = np.sort(row)
        strict = len(set(row.tolist())) == 4
        for w in omegas:
            if w in row:
                continue
            i = int(np.searchsorted(s, w))
            if strict:
                seen.add((perm, i))
    return seen


def main(run):
    rng = run.rng
    thorough = run.tier == "thorough"
    # ---- regenerate the translated model from the C source of the tree under test
    r = subprocess.run([sys.executable, os.path.join(common.VERIF, "tools", "tetra2lean.py")], capture_output=True, text=True,
                       env=dict(os.environ, VERIF_REPO=common.REPO))
    translated = r.returncode == 0
    if not translated:
        run.broke("proof", "tools/tetra2lean.py could not translate c/tetrahedron_method.c", (r.stdout + r.stderr)[-1500:])
    common.setup_phonopy("omp")
    import phonopy._phonopy as phonoc
    from phonopy.structure import tetrahedron_method as TM

    run.proof_step(leancheck=thorough)
    run.cov["rule"] = (
        "periodic rational frequency fields (values k/8) on meshes 2..4 per axis, read through the C tables and the Python "
        "tables for each of the 4 main diagonals; designated 24x4 arrays realising every ordering of the vertex values; "
        "frequencies below/above/inside every interval and exactly on vertex values; flat and partly degenerate fields. "
        "phonoc.tetrahedra_integration_weight(_at_omegas) vs the translated C (Gen/TetraC.lean, checked rationals, "
        "epsilon = 1e-10), TetrahedronMethod(lang='Py') vs Model/TetraPy.lean. Non-trivial = strictly ordered tetrahedron "
        "with a frequency strictly inside; coverage counts (ordering, interval, diagonal) triples.")
    run.cov["trusted_base"] = [
        "Lean 4.33 kernel; Mathlib v4.33; axioms per theorem in coverage.theorems",
        "tools/tetra2lean.py (translator C -> Lean, ~600 lines): the emitted terms are evaluated against the compiled C on every case",
        "hand-written Model/TetraPy.lean tied to tetrahedron_method.py by this correspondence run",
        "nanobind replaced by harness/nbstub; float rounding outside the models (tolerance 1e-9)",
    ]
    run.assumptions += [
        "IEEE rounding not modelled; Python's inf/nan arithmetic after a division by zero is outside the model (reported as 'divzero', not compared)",
        "smearing DOS normalisation is checked numerically only (quadrature accuracy)",
        "orthonormality of LAPACK eigenvectors is checked numerically per case (hypothesis of pdos_sum_total)",
    ]

    lines, meta = [], []
    coverage = set()

    # ------------------------------------------------------------------ tables
    allrel = TM.get_all_tetrahedra_relative_grid_address()
    lines.append("tables")
    meta.append(("tables", None, allrel))
    for d in range(4):
        rel_py, cen = _py_table(TM, d)
        sc = sorted(tuple(sorted(map(tuple, t.tolist()))) for t in allrel[d])
        sp = sorted(tuple(sorted(map(tuple, t.tolist()))) for t in rel_py)
        if sc != sp:
            run.violation("get_all_tetrahedra_relative_grid_address", "tables-c-ne-py", "C and Python tetrahedra differ for main diagonal %d" % d, dict(diagonal=d))
        if any(tuple(rel_py[t][cen[t]]) != (0, 0, 0) for t in range(24)) or any(tuple(allrel[d][t][0]) != (0, 0, 0) for t in range(24)):
            run.violation("get_all_tetrahedra_relative_grid_address", "central-vertex", "central vertex is not the origin", dict(diagonal=d))
        # the 24 tetrahedra around a point tile: each of the 6 tetrahedra of the cell appears once per vertex
        run.count("oracle-tables", section="oracle")

    # ------------------------------------------------------------------ weights: cases
    def add_case(kind, d, tet_c, tet_py, central, omegas, info):
        om = np.array(omegas, dtype="double")
        res = {}
        for fn in ("I", "J"):
            res[("C", fn)] = np.array(TM.get_tetrahedra_integration_weight(om, tet_c, function=fn))
            # scalar entry point of the glue as well
            one = phonoc.tetrahedra_integration_weight(float(om[len(om) // 2]), np.array(tet_c, dtype="double", order="C"), fn)
            if abs(one - res[("C", fn)][len(om) // 2]) > 1e-13 * max(1.0, abs(one)):
                run.violation("phonoc.tetrahedra_integration_weight", "scalar-ne-array", "scalar and array entry points differ", info)
            tm = TM.TetrahedronMethod(LATTICES[d], mesh=[1, 1, 1], lang="Py")
            if not (_central_of(tm.tetrahedra) == central).all():
                raise RuntimeError("harness: central indices changed")
            tm.set_tetrahedra_omegas(np.array(tet_py, dtype="double"))
            with np.errstate(all="ignore"):
                tm.run(om, value=fn)
            res[("Py", fn)] = np.array(tm.get_integration_weight())
            lines.append("cw %s %s %d %s %s" % (fn, q(EPS), len(om), _rats(om), _rats(tet_c)))
            meta.append(("cw", dict(info, function=fn), res[("C", fn)]))
            for cl in (0, 1):
                lines.append("pw %s %d %d %s %s %s" % (fn, cl, len(om), _rats(om), _rats(tet_py), " ".join(str(int(c)) for c in central)))
                meta.append(("pw%d" % cl, dict(info, function=fn), res[("Py", fn)]))
        cov = _orderings(tet_c, omegas)
        for pc in cov:
            coverage.add((d,) + pc)
        run.case((kind, d, tet_c.tobytes(), tuple(omegas)), nontrivial=bool(cov))
        run.count("%s diag=%d" % (kind, d))
        _oracle(run, info, om, tet_c, res)

    ncase = 1200 if thorough else 14
    for c in range(ncase):
        d = c % 4
        mesh = [rng.randint(2, 4)] * 3  # isotropic: the test lattices keep their shortest main diagonal
        style = rng.choice(["generic", "generic", "generic", "few-values", "flat", "plane"])
        if style == "generic":
            field = np.array([[[rng.randint(0, 64) / 8.0 for _ in range(mesh[2])] for _ in range(mesh[1])] for _ in range(mesh[0])])
        elif style == "few-values":
            field = np.array([[[rng.randint(0, 2) / 2.0 for _ in range(mesh[2])] for _ in range(mesh[1])] for _ in range(mesh[0])])
        elif style == "flat":
            field = np.full(mesh, rng.randint(1, 8) / 2.0)
        else:
            gx, gy, gz = np.meshgrid(*[np.arange(m) for m in mesh], indexing="ij")
            field = (gx * rng.randint(0, 2) + gy * rng.randint(0, 2) + gz) / 2.0
        rel_c = TM.get_tetrahedra_relative_grid_address(LATTICES[d] / mesh[0])
        if not (rel_c == allrel[d]).all():
            run.violation("get_tetrahedra_relative_grid_address", "main-diagonal", "C picks a different main diagonal than the shortest (%d)" % d, dict(diagonal=d))
            continue
        tmpy = TM.TetrahedronMethod(LATTICES[d], mesh=mesh, lang="Py")
        rel_py, central = np.array(tmpy.tetrahedra), _central_of(tmpy.tetrahedra)
        if sorted(tuple(sorted(map(tuple, t.tolist()))) for t in rel_py) != sorted(tuple(sorted(map(tuple, t.tolist()))) for t in rel_c):
            run.violation("TetrahedronMethod", "main-diagonal", "Python picks a different main diagonal than C", dict(diagonal=d))
            continue
        gp = [rng.randint(0, m - 1) for m in mesh]
        tet_c = _field_tetra(field, mesh, gp, rel_c)
        tet_py = _field_tetra(field, mesh, gp, rel_py)
        omegas = _omega_list(rng, tet_c)
        info = dict(kind="field", style=style, diagonal=d, mesh=mesh, grid_point=gp, field=field.tolist(), omegas=omegas)
        add_case("field", d, tet_c, tet_py, central, omegas, info)
        if c < 2:
            run.sample(dict(kind="field", style=style, diagonal=d, mesh=mesh, grid_point=gp, n_omegas=len(omegas)))
        # whole-field oracle: total cumulative weight of the band
        _field_oracle(run, rng, field, mesh, rel_c, d, style)

    # designated arrays: every ordering of four distinct values in every tetrahedron slot
    perms = list(itertools.permutations(range(4)))
    nd = 96 if thorough else 4
    for c in range(nd):
        d = c % 4
        base = sorted(rng.sample(range(1, 40), 4))
        order = perms[:]
        rng.shuffle(order)
        tet_c = np.array([[base[p[k]] / 4.0 for k in range(4)] for p in order], dtype="double")
        rel_py, central = _py_table(TM, d)
        tet_py = tet_c.copy()
        for t in range(24):
            ci = int(central[t])
            tet_py[t, 0], tet_py[t, ci] = tet_c[t, ci], tet_c[t, 0]
        omegas = _omega_list(rng, tet_c)
        info = dict(kind="designated", diagonal=d, tetrahedra=tet_c.tolist(), omegas=omegas)
        add_case("designated", d, tet_c, tet_py, np.array(central), omegas, info)

    # sort_omegas of the model against numpy on all orderings with ties
    for vals in ([1, 2, 3, 4], [1, 1, 2, 3], [1, 2, 2, 3], [1, 2, 3, 3], [1, 1, 1, 2], [1, 2, 2, 2], [1, 1, 2, 2], [5, 5, 5, 5]):
        for p in set(itertools.permutations(vals)):
            lines.append("sort %d %d %d %d" % p)
            meta.append(("sort", dict(v=list(p)), None))

    # ------------------------------------------------------------------ end to end through the Phonopy API
    _end_to_end(run, rng, thorough)
    _anisotropic(run, rng, thorough, lines, meta, allrel)
    _smearing(run, rng, thorough, lines, meta)
    _mesh_lookup(run, rng, thorough, lines, meta, allrel)
    _grid_order(run, rng, thorough, lines, meta)
    _object_reuse(run, rng, thorough, lines, meta)
    _mixed_paths(run, rng, thorough, lines, meta)
    _large_dos(run, rng, thorough)
    _relabelled(run, rng, thorough)

    # ------------------------------------------------------------------ compare with the models
    if not translated:
        return
    out = common.lean_run_driver("C11", lines)
    if len(out) != len(lines):
        run.broke("correspondence", "driver answered %d lines for %d requests" % (len(out), len(lines)))
        return
    ncmp = 0
    votes = {0: 0, 1: 0}
    pending = {}
    for (kind, info, impl), line in zip(meta, out):
        if kind == "tables":
            a, b = line.split("|")
            md = [int(t) for t in a.split()]
            tb = np.array([int(t) for t in b.split()]).reshape(4, 24, 4, 3)
            if md != [1, 1, 1, -1, 1, 1, 1, -1, 1, 1, 1, -1] or not (tb == impl).all():
                run.broke("correspondence", "relative grid address tables of the compiled C differ from the translated tables")
            ncmp += 1
            continue
        if kind == "sort":
            t = line.split()
            v = info["v"]
            s = [int(x) for x in t[1:]]
            if s != sorted(v) or s[int(t[0])] != v[0]:
                run.broke("correspondence", "sort_omegas model: %s -> %s" % (v, line))
            ncmp += 1
            continue
        if kind == "nbr":
            ncmp += 1
            run.count("neighbour lookups (C and Python) vs model", section="correspondence")
            mv = [int(t) for t in line.split()] if line != "bad-op" else None
            for lang, got in impl.items():
                if mv != got:
                    run.broke("correspondence", "tetrahedron vertex lookup (%s) differs from the model" % lang, dict(info, impl=got, model=mv))
            continue
        if kind == "gp2ir":
            ncmp += 1
            run.count("gp2ir tables vs model", section="correspondence")
            parts = [[int(t) for t in p_.split()] for p_ in line.split("|")] if line != "bad-op" else None
            if parts is None or len(parts) != 4 or parts[0] != impl["gp_ir_index"] or parts[3] != impl["gp_ir_index"] or parts[1] != impl["ir"] or parts[2] != impl["weights"]:
                run.broke("correspondence", "TetrahedronMesh ir-index table / extract_ir_grid_points differ from the gp2ir model", dict(info, impl=impl, model=line[:300]))
            continue
        if kind == "smear":
            ncmp += 1
            run.count("smearing function values", section="correspondence")
            import struct

            mv = np.array([struct.unpack("<d", struct.pack("<Q", int(t)))[0] for t in line.split()]) if line != "bad-op" else None
            if mv is None or mv.shape != impl.shape or (np.abs(mv - impl) > 8e-15 * np.maximum(np.abs(impl), 1e-300) + 1e-300).any():
                run.broke("correspondence", "%s smearing function differs from the model" % info["function"], dict(info, impl=impl.tolist(), model=None if mv is None else mv.tolist()))
            continue
        if kind == "fpts":
            ncmp += 1
            run.count("frequency points", section="correspondence")
            if line == "bad-op":
                run.broke("correspondence", "frequency-point model rejected the request", info)
                continue
            a, b = line.split("|")
            pts = np.array([float(Fraction(t)) for t in b.split()])
            if pts.shape != impl.shape or np.abs(pts - impl).max() > 1e-12 * max(1.0, np.abs(impl).max()):
                run.broke("correspondence", "frequency points differ from the model: %d points [%.6g, %.6g], model %d points" % (
                    len(impl), impl[0], impl[-1], len(pts)), info)
            continue
        if kind == "diag":
            ncmp += 1
            run.count("main diagonal of TotalDos/ProjectedDos vs model", section="correspondence")
            t = line.split()
            if line == "bad-op" or len(t) != 5:
                run.broke("correspondence", "main-diagonal model rejected the request", info)
                continue
            dm = int(t[0])
            lens = [float(Fraction(x)) for x in t[1:]]
            for who, di in impl.items():
                if di is None:
                    run.broke("correspondence", "%s: relative grid addresses are none of the four tables" % who, info)
                    continue
                unique = sorted(lens)[1] > min(lens) * (1 + 1e-6)
                if lens[di] > min(lens) * (1 + 1e-9) or (unique and di != dm):
                    run.broke("correspondence", "%s uses main diagonal %d, the shortest diagonal of reciprocal lattice / mesh is %d (squared lengths %s)"
                              % (who, di, dm, ["%.6g" % x for x in lens]), info)
            continue
        model = _parse(line)
        if model is None:
            run.broke("correspondence", "model rejected a %s request" % kind, info)
            continue
        ncmp += 1
        ok = True
        nz = 0
        for m, x in zip(model, impl):
            if m is None:
                nz += 1
                continue
            if not np.isfinite(x) or abs(m - x) > TOL * max(1.0, abs(m)):
                ok = False
        if kind == "cw":
            run.count("C weights compared", section="correspondence")
            if nz:
                run.broke("correspondence", "translated C divides by zero although THM_EPSILON guards are on", info)
            if not ok:
                run.broke("correspondence", "compiled C differs from the translated C (%s)" % info["function"],
                          dict(info=info, impl=impl.tolist(), model=model))
        else:
            cl = int(kind[2])
            key = (id(impl), info["function"])
            pending.setdefault(key, {})[cl] = (ok, nz, info, impl, model)
            if len(pending[key]) == 2:
                both = pending.pop(key)
                run.count("Py weights compared", section="correspondence")
                if both[0][1]:
                    run.count("Py model: division by zero (not compared)", section="correspondence")
                for cl2 in (0, 1):
                    if both[cl2][0]:
                        votes[cl2] += 1
                if not (both[0][0] or both[1][0]):
                    run.broke("correspondence", "TetrahedronMethod(lang='Py') differs from the Python model (%s)" % info["function"],
                              dict(info=info, impl=impl.tolist(), model_strict=both[0][4], model_closed=both[1][4]))
    n_py = sum(1 for m in meta if m[0] == "pw0")
    if votes[0] != n_py and votes[1] != n_py and n_py:
        run.broke("correspondence", "Python implementation follows neither interval convention consistently (strict %d, closed %d of %d)" % (votes[0], votes[1], n_py))
    run.cov["correspondence"]["compared"] = ncmp
    run.cov["correspondence"]["python interval convention"] = "strict (pinned)" if votes[0] == n_py and votes[1] != n_py else ("closed-below (repaired)" if votes[1] == n_py and votes[0] != n_py else "indistinguishable")
    run.cov["correspondence"]["(diagonal, ordering, interval) triples covered of 480"] = len(coverage)
    if len(coverage) < (480 if thorough else 400):
        run.broke("coverage", "only %d of 480 (diagonal, ordering, interval) triples were exercised" % len(coverage))


_SEEN = {}


def _viol(run, site, klass, what, info):
    n = _SEEN.get((site, klass), 0)
    _SEEN[(site, klass)] = n + 1
    if n < 3:  # keep the replay file readable
        run.violation(site, klass, what, info)


def _oracle(run, info, om, tet_c, res):
    """the property on the implementation: range, monotonicity, limits, C == Py"""
    vmin, vmax = tet_c.min(), tet_c.max()
    ties = any(w in tet_c for w in om)
    for impl in ("C", "Py"):
        site = "phonoc.tetrahedra_integration_weight" if impl == "C" else "TetrahedronMethod._get_integration_weight_py"
        J, I = res[(impl, "J")], res[(impl, "I")]
        degenerate = any(len(set(r.tolist())) < 4 for r in tet_c)
        tag = ("-degenerate" if degenerate else "") + ("-tie" if ties else "")
        if not (np.isfinite(J).all() and np.isfinite(I).all()):
            _viol(run, site, "non-finite" + tag, "integration weight is not finite", info)
            continue
        if (J < -1e-12).any() or (J > 1 + 1e-12).any():
            _viol(run, site, "J-out-of-range" + tag, "cumulative weight outside [0,1]: min %.3g max %.3g" % (J.min(), J.max()), info)
        if (I < -1e-12).any():
            _viol(run, site, "I-negative" + tag, "density weight negative: %.3g" % I.min(), info)
        dJ = np.diff(J)
        if (dJ < -1e-12).any():
            k = int(np.argmin(dJ))
            on_vertex = bool(om[k + 1] in tet_c)
            _viol(run, site, "cumulative-not-monotone" + ("-at-vertex-frequency" if on_vertex else tag),
                          "cumulative weight drops from %.6g at omega=%.6g to %.6g at omega=%.6g" % (J[k], om[k], J[k + 1], om[k + 1]), info)
        below, above = om < vmin, om > vmax
        if (np.abs(J[below]) > 1e-14).any() or (np.abs(I[below]) > 1e-14).any() or (np.abs(I[above]) > 1e-14).any():
            _viol(run, site, "outside-spectrum", "non-zero weight outside the spectrum", info)
        if (np.abs(J[above] - 1.0) > 1e-12).any():
            _viol(run, site, "cumulative-above-top", "cumulative weight above the spectrum is %.12g, not 1" % J[above][0], info)
        run.count("oracle-weights-%s" % impl, section="oracle")
    for fn in ("I", "J"):
        a, b = res[("C", fn)], res[("Py", fn)]
        if np.isfinite(a).all() and np.isfinite(b).all() and np.abs(a - b).max() > TOL * max(1.0, np.abs(a).max()):
            _viol(run, "TetrahedronMethod.run", "c-ne-py" + ("-degenerate" if any(len(set(r.tolist())) < 4 for r in tet_c) else ""),
                          "C and Python weights (%s) differ by %.3g" % (fn, np.abs(a - b).max()), info)


def _field_oracle(run, rng, field, mesh, rel, d, style):
    """sum over all grid points of a consistent field: total cumulative = N * n(omega), density >= 0, top -> N"""
    from phonopy.structure import tetrahedron_method as TM

    u = sorted(set(field.ravel().tolist()))
    allom = sorted(set([u[0] - 1, u[-1] + 1] + u + [(a + b) / 2 for a, b in zip(u[:-1], u[1:])]))
    if len(allom) > 24:
        keep = set(rng.sample(allom[1:-1], 22))
        allom = [o for o in allom if o in keep or o in (allom[0], allom[-1])]
    om = np.array(allom)
    totJ = np.zeros(len(om))
    totI = np.zeros(len(om))
    for gp in itertools.product(*[range(m) for m in mesh]):
        tet = _field_tetra(field, mesh, gp, rel)
        totJ += TM.get_tetrahedra_integration_weight(om, tet, function="J")
        totI += TM.get_tetrahedra_integration_weight(om, tet, function="I")
    N = int(np.prod(mesh))
    info = dict(kind="whole-field", style=style, diagonal=d, mesh=list(mesh), field=field.tolist(), omegas=om.tolist())
    site = "phonoc.tetrahedra_integration_weight_at_omegas"
    if abs(totJ[om > u[-1]][0] - N) > 1e-10 * N:
        _viol(run, site, "cumulative-above-top", "sum of cumulative weights above the band is %.12g, N = %d" % (totJ[om > u[-1]][0], N), info)
    if (totI < -1e-12).any():
        _viol(run, site, "dos-negative", "summed density weight negative", info)
    if (np.diff(totJ) < -1e-10).any():
        k = int(np.argmin(np.diff(totJ)))
        _viol(run, site, "cumulative-not-monotone-at-vertex-frequency" if om[k + 1] in u else "cumulative-not-monotone",
                      "band-summed cumulative weight drops from %.6g (omega=%.4g) to %.6g (omega=%.4g)" % (totJ[k], om[k], totJ[k + 1], om[k + 1]), info)
    run.count("oracle-whole-field", section="oracle")


def _anisotropic(run, rng, thorough, lines, meta, allrel):
    """Projected DOS sum = total DOS (tetrahedron method) on non-orthogonal lattices with anisotropic meshes, and which
    main diagonal TotalDos and ProjectedDos hand to the kernel (observed at the glue through the shim's trace hook)."""
    import itertools as it

    plan = [("triclinic", m) for m in it.permutations((2, 3, 6))]
    plan += [("bcc", (2, 3, 6)), ("bcc", (6, 3, 2)), ("bcc", (3, 5, 2)), ("bcc", (2, 2, 5)), ("hcp", (2, 2, 5)), ("mono_P", (3, 5, 2)),
             ("mono_P", (2, 3, 6)), ("rhombo", (2, 2, 5))]
    extra = [("triclinic", (3, 5, 2)), ("triclinic", (2, 2, 5)), ("triclinic", (5, 2, 2)), ("bcc", (5, 2, 3)), ("bcc", (2, 5, 2)),
             ("hcp", (2, 3, 6)), ("mono_P", (6, 2, 3)), ("rhombo", (3, 5, 2)), ("rhombo", (2, 3, 6)), ("triclinic", (4, 4, 2))]
    plan += extra if thorough else rng.sample(extra, 2)
    cache = {}
    shim = common._STATE["shim"]
    for name, mesh in plan:
        if name not in cache:
            cell, cen = gen.make_cell(name)
            ph = gen.make_phonopy(cell, np.diag([2, 2, 2]), pmat="auto" if cen != "P" else "P")
            ph.force_constants = gen.pair_fc(ph.supercell, min(0.9 * gen.min_lattice_vector(ph.supercell.cell), 5.0))
            cache[name] = ph
        ph = cache[name]
        mesh = list(mesh)
        ph.run_mesh(mesh, with_eigenvectors=True, is_mesh_symmetry=False)
        fr = ph.get_mesh_dict()["frequencies"]
        fmin, fmax = float(fr.min()), float(fr.max())
        pitch = (fmax - fmin + 1.0) / 150
        seen = {}

        phase = ["total"]

        def trace(fname, args, seen=seen, phase=phase):
            if fname == "tetrahedron_method_dos":
                seen[phase[0]] = np.array(args[-1]).copy()

        shim.trace = trace
        try:
            ph.run_total_dos(freq_min=fmin - 0.5, freq_max=fmax + 0.5, freq_pitch=pitch, use_tetrahedron_method=True)
            tot = np.array(ph.get_total_dos_dict()["total_dos"])
            phase[0] = "projected"
            ph.run_projected_dos(freq_min=fmin - 0.5, freq_max=fmax + 0.5, freq_pitch=pitch, use_tetrahedron_method=True)
            pdos = np.array(ph.get_projected_dos_dict()["projected_dos"])
        finally:
            shim.trace = None
        info = dict(cell=name, primitive_lattice=np.array(ph.primitive.cell).tolist(), mesh=mesh, is_mesh_symmetry=False, force_constants="gen.pair_fc, 2x2x2")
        err = float(np.abs(pdos.sum(axis=0) - tot).max())
        if pdos.shape[0] * 3 != fr.shape[1] or err > 1e-9 * max(1.0, float(np.abs(tot).max())):
            run.violation("Phonopy.run_projected_dos", "pdos-sum-ne-total-tetrahedron-anisotropic-mesh",
                          "sum of projected DOS differs from total DOS by %.3g (max total DOS %.3g)" % (err, float(np.abs(tot).max())), info)
        run.count("oracle-pdos-sum-anisotropic", section="oracle")
        run.case(("aniso", name, tuple(mesh)), nontrivial=len(set(mesh)) > 1)
        which = {}
        for who in ("total", "projected"):
            tab = seen.get(who)
            which["TotalDos" if who == "total" else "ProjectedDos"] = None if tab is None else next((d for d in range(4) if (allrel[d] == tab).all()), None)
        if "total" in seen and "projected" in seen and not (seen["total"] == seen["projected"]).all():
            # internal call arguments: an observation about the code (the end effect, PDOS sum != total DOS, is the
            # violation above; the comparison with the model's diagonal below is the correspondence)
            run.count("observed: TotalDos and ProjectedDos hand different relative grid addresses to the kernel", section="correspondence")
        reclat = np.linalg.inv(np.array(ph.primitive.cell))
        lines.append("diag %s %d %d %d" % (_rats(reclat), mesh[0], mesh[1], mesh[2]))
        meta.append(("diag", info, which))


def _smearing(run, rng, thorough, lines, meta):
    """smearing functions, frequency-point grid, and the quadrature of the smearing DOS with an explicit remainder bound"""
    import math

    from phonopy.phonon.dos import CauchyDistribution, NormalDistribution, TotalDos

    for _ in range(12 if thorough else 4):
        sg = rng.choice([rng.randint(1, 40) / 32.0, rng.uniform(0.01, 3.0)])
        xs = np.array([rng.uniform(-6, 6) * sg for _ in range(10)] + [0.0, sg, -3 * sg, 30 * sg])
        for nm, cls in (("normal", NormalDistribution), ("cauchy", CauchyDistribution)):
            lines.append("smear %s %s %d %s" % (nm, q(float(sg)), len(xs), _rats(xs)))
            meta.append(("smear", dict(function=nm, sigma=float(sg), x=xs.tolist()), np.array(cls(sg).calc(xs), dtype=float)))
    name = rng.choice(["cscl", "nacl_prim", "hcp"])
    cell, cen = gen.make_cell(name)
    ph = gen.make_phonopy(cell, np.diag([2, 2, 2]), pmat="P")
    ph.force_constants = gen.pair_fc(ph.supercell, min(0.9 * gen.min_lattice_vector(ph.supercell.cell), 5.0))
    ph.run_mesh([rng.randint(2, 4)] * 3, is_mesh_symmetry=rng.random() < 0.5)
    fr = np.array(ph.get_mesh_dict()["frequencies"])
    w = np.array(ph.get_mesh_dict()["weights"], dtype=float)
    lo, hi = float(fr.min()), float(fr.max())
    nb = fr.shape[1]
    opt = lambda v: "none" if v is None else q(float(v))
    for _ in range(16 if thorough else 6):
        sg = rng.choice([None, rng.randint(1, 16) / 32.0])
        fmin = rng.choice([None, lo - rng.randint(0, 8) / 4.0, rng.randint(-4, 4) / 2.0])
        fmax = rng.choice([None, hi + rng.randint(1, 8) / 4.0])
        pitch = rng.choice([None, rng.randint(1, 16) / 64.0, rng.uniform(0.02, 0.3)])
        tet = rng.random() < 0.3 and sg is None
        ph.run_total_dos(sigma=sg, freq_min=fmin, freq_max=fmax, freq_pitch=pitch, use_tetrahedron_method=tet)
        fp = np.array(ph.get_total_dos_dict()["frequency_points"], dtype=float)
        lines.append("fpts %s %s %s %s %s %s" % (q(lo), q(hi), opt(sg), opt(fmin), opt(fmax), opt(pitch)))
        meta.append(("fpts", dict(cell=name, sigma=sg, freq_min=fmin, freq_max=fmax, freq_pitch=pitch, tetrahedron=tet), fp))
        run.case(("fpts", name, sg, fmin, fmax, pitch), nontrivial=True)
    # quadrature of the smearing DOS on the code's own grid: |trapezoid - bands| <= tail mass + (b-a) h^2/12 max|D''|
    for fname in ("Normal", "Cauchy"):
        sg = rng.randint(4, 12) / 32.0
        td = TotalDos(ph.mesh, sigma=sg)
        td.set_smearing_function(fname)
        td.set_draw_area(freq_pitch=sg / 8.0)
        td.run()
        fp, dos = np.array(td.frequency_points), np.array(td.dos)
        a, b, h = float(fp[0]), float(fp[-1]), float(fp[1] - fp[0])
        integ = float(np.sum((dos[1:] + dos[:-1]) / 2 * np.diff(fp)))
        wn = (w / w.sum())[:, None]
        if fname == "Normal":
            tail = float((wn * 0.5 * (np.vectorize(math.erfc)((fr - a) / (sg * math.sqrt(2))) + np.vectorize(math.erfc)((b - fr) / (sg * math.sqrt(2))))).sum())
            d2max = 1.0 / (sg ** 3 * math.sqrt(2 * math.pi))
        else:
            tail = float((wn * (1.0 - (np.arctan((b - fr) / sg) + np.arctan((fr - a) / sg)) / math.pi)).sum())
            d2max = 2.0 / (math.pi * sg ** 3)
        bound = tail + (b - a) * h * h / 12.0 * nb * d2max
        run.count("oracle-smearing-quadrature-%s" % fname, section="oracle")
        run.cov["oracle"]["smearing quadrature remainder bound (%s)" % fname] = "%.3g (observed %.3g)" % (bound, abs(integ - nb))
        if (dos < 0).any() or abs(integ - nb) > bound * (1 + 1e-9) + 1e-10:
            run.violation("TotalDos.run", "smearing-normalisation-" + fname.lower(),
                          "trapezoid integral of the smearing DOS is %.10g, bands %d, remainder bound %.3g" % (integ, nb, bound),
                          dict(cell=name, sigma=sg, function=fname, freq_pitch=h))


def _mesh_lookup(run, rng, thorough, lines, meta, allrel):
    """neighbour lookup with periodic wrap (C kernel and Python), the ir lookup table, and the two DOS code paths"""
    from phonopy.phonon.dos import TotalDos
    from phonopy.phonon.tetrahedron_mesh import TetrahedronMesh, get_tetrahedra_frequencies
    from phonopy.structure.grid_points import GridPoints

    for _ in range(80 if thorough else 6):
        mesh = np.array([rng.randint(1, 5) for _ in range(3)], dtype="int64")
        N = int(np.prod(mesh))
        # addresses as GridPoints hands them over (reduced to (-m/2, m/2], or relocated), plus far-away ones
        gp = GridPoints(mesh, np.eye(3), fit_in_BZ=rng.random() < 0.5, is_mesh_symmetry=False, is_time_reversal=False)
        ga = np.array(gp.grid_address, dtype="int64", order="C")
        if rng.random() < 0.3:
            ga = ga + mesh * np.array([rng.randint(-2, 2) for _ in range(3)])
            ga = np.array(ga, dtype="int64", order="C")
        d = rng.randint(0, 3)
        g = rng.randint(0, N - 1)
        ident = np.arange(N, dtype="int64")
        freqs = np.arange(N, dtype="double").reshape(N, 1)
        got = {}
        for lang in ("C", "Py"):
            tf = get_tetrahedra_frequencies(g, mesh, ga, np.array(allrel[d], dtype="int64", order="C"), ident, freqs,
                                            grid_order=[1, int(mesh[0]), int(mesh[0] * mesh[1])], lang=lang)
            got[lang] = [int(round(v)) for v in np.array(tf)[0].ravel()]
            if min(got[lang]) < 0 or max(got[lang]) >= N:
                run.violation("get_tetrahedra_frequencies", "vertex-out-of-range-" + lang, "tetrahedron vertex index outside the mesh",
                              dict(mesh=mesh.tolist(), address=ga[g].tolist(), diagonal=d))
        lines.append("nbr %d %d %d %d %d %d %d" % (mesh[0], mesh[1], mesh[2], ga[g][0], ga[g][1], ga[g][2], d))
        meta.append(("nbr", dict(mesh=mesh.tolist(), address=ga[g].tolist(), diagonal=d), got))
        run.case(("nbr", tuple(mesh.tolist()), tuple(ga[g].tolist()), d), nontrivial=bool((ga[g] + allrel[d].reshape(-1, 3)).min() < 0))
    # ir lookup on real mapping tables
    names = ["cscl", "hcp", "nacl_prim", "bct", "rhombo", "mono_P"]
    for _ in range(24 if thorough else 3):
        name = rng.choice(names)
        cell, cen = gen.make_cell(name)
        ph = gen.make_phonopy(cell, np.eye(3, dtype=int), pmat="P")
        mesh = [rng.randint(2, 4)] * 3 if rng.random() < 0.6 else [rng.randint(1, 4) for _ in range(3)]
        gp = GridPoints(mesh, np.linalg.inv(ph.primitive.cell), rotations=ph.primitive_symmetry.pointgroup_operations,
                        is_gamma_center=rng.random() < 0.5, is_time_reversal=rng.random() < 0.7)
        tab = np.array(gp.grid_mapping_table, dtype="int64")
        nir = len(gp.ir_grid_points)
        thm = TetrahedronMesh(ph.primitive, np.zeros((nir, 1)), mesh, np.array(gp.grid_address, dtype="int64"), tab, gp.ir_grid_points)
        lines.append("gp2ir %d %s" % (len(tab), " ".join(str(int(v)) for v in tab)))
        hook = getattr(thm, "_gp_ir_index", None)
        if hook is None:
            # optional refinement (the iteration results of TetrahedronMesh are compared with the models elsewhere)
            run.count("intermediate hook unavailable: TetrahedronMesh._gp_ir_index", section="correspondence")
            hook = _gp_ir_index(tab, gp.ir_grid_points)
        meta.append(("gp2ir", dict(cell=name, mesh=mesh), dict(gp_ir_index=[int(v) for v in hook], ir=[int(v) for v in gp.ir_grid_points],
                                                               weights=[int(v) for v in gp.weights])))
    # the compiled kernel (its own gp2ir loop) and the TetrahedronMesh loop give the same total DOS on a reduced mesh
    name = rng.choice(["cscl", "nacl_prim", "hcp"])
    cell, cen = gen.make_cell(name)
    ph = gen.make_phonopy(cell, np.diag([2, 2, 2]), pmat="P")
    ph.force_constants = gen.pair_fc(ph.supercell, min(0.9 * gen.min_lattice_vector(ph.supercell.cell), 5.0))
    mesh = [rng.randint(2, 4)] * 3
    ph.run_mesh(mesh, is_mesh_symmetry=True, is_gamma_center=rng.random() < 0.5)
    doses = []
    for openmp in (True, False):
        td = TotalDos(ph.mesh, use_tetrahedron_method=True)
        if not _set_route(run, td, openmp):
            break
        td.set_draw_area(freq_pitch=(td.frequency_points[-1] - td.frequency_points[0]) / 40)
        td.run()
        doses.append(np.array(td.dos))
    run.count("oracle-dos-kernel-vs-tetrahedron-mesh", section="oracle")
    if len(doses) == 2 and np.abs(doses[0] - doses[1]).max() > 1e-9 * max(1.0, np.abs(doses[0]).max()):
        run.violation("TotalDos.run", "kernel-ne-tetrahedron-mesh", "compiled tetrahedron DOS and TetrahedronMesh loop differ by %.3g on a symmetry-reduced mesh"
                      % np.abs(doses[0] - doses[1]).max(), dict(cell=name, mesh=mesh))


def _grid_order(run, rng, thorough, lines, meta):
    """The tetrahedron DOS at a frequency must not depend on which other frequencies are requested, nor on their order:
    ascending grid, the same grid reversed, a shuffled grid, a sub-grid; compiled driver vs the TetrahedronMesh route;
    descending grids through the public API (freq_min > freq_max with a negative pitch)."""
    from phonopy.phonon.dos import TotalDos, run_tetrahedron_method_dos
    from phonopy.structure.tetrahedron_method import TetrahedronMethod

    for it in range(4 if thorough else 2):
        name = ["cscl", "nacl_prim", "hcp", "bct"][it % 4] if thorough else rng.choice(["cscl", "nacl_prim", "hcp"])
        cell, cen = gen.make_cell(name)
        ph = gen.make_phonopy(cell, np.diag([2, 2, 2]), pmat="P")
        ph.force_constants = gen.pair_fc(ph.supercell, min(0.9 * gen.min_lattice_vector(ph.supercell.cell), 5.0))
        mesh = [rng.randint(2, 4)] * 3 if rng.random() < 0.6 else [rng.randint(2, 4) for _ in range(3)]
        sym = it % 2 == 0
        ph.run_mesh(mesh, with_eigenvectors=not sym, is_mesh_symmetry=sym)
        m = ph.mesh
        fr = np.array(m.frequencies)
        fmin, fmax = float(fr.min()), float(fr.max())
        nfp = rng.choice([11, 41, 301])
        asc = np.linspace(fmin - 0.3, fmax + 0.3, nfp)
        perm = list(range(nfp))
        rng.shuffle(perm)
        sub = sorted(rng.sample(range(nfp), 9))
        grids = {"ascending": np.arange(nfp), "reversed": np.arange(nfp)[::-1], "shuffled": np.array(perm), "subset": np.array(sub),
                 "subset-reversed": np.array(sub[::-1])}
        tm = TetrahedronMethod(np.linalg.inv(ph.primitive.cell), mesh=mesh)
        info = dict(cell=name, mesh=mesh, is_mesh_symmetry=sym, force_constants="gen.pair_fc, 2x2x2")
        coefs = [None] if sym else [None, np.abs(np.array(m.eigenvectors)) ** 2]
        for coef in coefs:
            ref = None
            for gname, idx in grids.items():
                fp = np.array(asc[idx], dtype="double")
                d = np.array(run_tetrahedron_method_dos(m.mesh_numbers, fp, fr, m.grid_address, m.grid_mapping_table, tm.tetrahedra, coef=coef))
                full = np.full((nfp,) + d.shape[1:], np.nan)
                full[idx] = d
                if ref is None:
                    ref = full
                    continue
                sel = ~np.isnan(full).reshape(nfp, -1)[:, 0]
                err = float(np.abs(full[sel] - ref[sel]).max())
                run.count("oracle-dos-grid-order", section="oracle")
                if err > 1e-10 * max(1.0, float(np.abs(ref).max())):
                    run.violation("run_tetrahedron_method_dos", "dos-depends-on-frequency-grid-order" + ("" if coef is None else "-projected"),
                                  "tetrahedron DOS at the same frequencies differs by %.3g between the ascending grid and the %s grid" % (err, gname),
                                  dict(info, grid=gname, frequency_points=fp.tolist()))
            # the compiled driver vs the TetrahedronMesh loop on the reversed grid (total DOS)
            if coef is None:
                td = TotalDos(m, use_tetrahedron_method=True)
                if not _set_route(run, td, False):
                    continue
                td.set_draw_area(freq_min=float(asc[-1]), freq_max=float(asc[0]), freq_pitch=-float(asc[1] - asc[0]))
                td.run()
                fdesc = np.array(td.frequency_points, dtype="double")
                refd = np.array(run_tetrahedron_method_dos(m.mesh_numbers, np.sort(fdesc), fr, m.grid_address, m.grid_mapping_table, tm.tetrahedra))
                err = float(np.abs(np.array(td.dos)[np.argsort(fdesc)] - refd).max()) if len(fdesc) > 2 and (np.diff(fdesc) < 0).all() else float("inf")
                run.count("oracle-dos-grid-order-python-route", section="oracle")
                if err > 1e-9 * max(1.0, float(np.abs(ref).max())):
                    run.violation("TotalDos.run", "kernel-ne-tetrahedron-mesh-descending-grid",
                                  "compiled DOS on the ascending grid and TetrahedronMesh loop on the descending grid differ by %.3g" % err, info)
        # through the public API: descending grid (freq_min > freq_max, negative pitch) vs ascending grid
        pitch = (fmax - fmin + 0.6) / 32
        ph.run_total_dos(freq_min=fmin - 0.3, freq_max=fmax + 0.3, freq_pitch=pitch, use_tetrahedron_method=True)
        da = ph.get_total_dos_dict()
        ph.run_total_dos(freq_min=float(da["frequency_points"][-1]), freq_max=float(da["frequency_points"][0]), freq_pitch=-pitch, use_tetrahedron_method=True)
        dd = ph.get_total_dos_dict()
        fa, fd = np.array(da["frequency_points"]), np.array(dd["frequency_points"])
        lines.append("fpts %s %s none %s %s %s" % (q(fmin), q(fmax), q(float(da["frequency_points"][-1])), q(float(da["frequency_points"][0])), q(float(-pitch))))
        meta.append(("fpts", dict(info, freq_min=float(fa[-1]), freq_max=float(fa[0]), freq_pitch=-pitch, descending=True), fd))
        n = min(len(fa), len(fd))
        run.count("oracle-dos-descending-api", section="oracle")
        run.case(("grid-order", name, tuple(mesh), sym), nontrivial=True)
        if len(fd) < len(fa) - 1 or np.abs(fd[:n] - fa[::-1][:n]).max() > 1e-9:
            run.violation("Phonopy.run_total_dos", "descending-grid-points", "freq_min > freq_max with a negative pitch does not give the reversed grid", info)
        elif np.abs(np.array(dd["total_dos"])[:n] - np.array(da["total_dos"])[::-1][:n]).max() > 1e-9 * max(1.0, float(np.abs(da["total_dos"]).max())):
            run.violation("Phonopy.run_total_dos", "dos-depends-on-frequency-grid-order",
                          "total DOS on the descending grid (freq_min > freq_max, negative pitch) differs from the ascending grid by %.3g"
                          % np.abs(np.array(dd["total_dos"])[:n] - np.array(da["total_dos"])[::-1][:n]).max(), dict(info, freq_pitch=-pitch))


def _mixed_paths(run, rng, thorough, lines, meta):
    """The integration weights of a grid point do not depend on the route: TetrahedronMesh(lang = C | Py) x set(lang = C | Py),
    all four compared with each other per grid point and one with the models; and the 24x4 vertex-frequency table of
    get_tetrahedra_frequencies (compiled and Python lookup, compiled and Python tetrahedra tables) against an independent
    numpy evaluation from the mesh frequencies and grid addresses."""
    from phonopy.phonon.tetrahedron_mesh import TetrahedronMesh, get_tetrahedra_frequencies
    from phonopy.structure.grid_points import GridPoints
    from phonopy.structure.tetrahedron_method import TetrahedronMethod

    for it in range(3 if thorough else 1):
        name = rng.choice(["cscl", "nacl_prim", "hcp", "mono_P"])
        cell, cen = gen.make_cell(name)
        ph = gen.make_phonopy(cell, np.diag([2, 2, 2]), pmat="P")
        ph.force_constants = gen.pair_fc(ph.supercell, min(0.9 * gen.min_lattice_vector(ph.supercell.cell), 5.0))
        mesh = rng.choice([[2, 2, 2], [3, 3, 2], [2, 3, 4], [3, 3, 3]])
        sym = rng.random() < 0.5
        ph.run_mesh(mesh, is_mesh_symmetry=sym, is_gamma_center=rng.random() < 0.5)
        m = ph.mesh
        fr = np.array(m.frequencies)
        ga = np.array(m.grid_address, dtype="int64")
        tab = np.array(m.grid_mapping_table, dtype="int64")
        msh = np.array(m.mesh_numbers, dtype="int64")
        gpi = _gp_ir_index(tab, m.ir_grid_points)
        fmin, fmax = float(fr.min()), float(fr.max())
        fp = np.array([fmin - 0.2] + sorted(rng.uniform(fmin, fmax) for _ in range(4)) + [fmax + 0.2])
        info = dict(cell=name, mesh=list(mesh), is_mesh_symmetry=sym, frequency_points=fp.tolist(), force_constants="gen.pair_fc, 2x2x2")
        # ---- vertex-frequency tables: independent oracle
        reclat = np.linalg.inv(np.array(ph.primitive.cell))
        for tlang in ("C", "Py"):
            rel = np.array(TetrahedronMethod(reclat, mesh=msh, lang=tlang).tetrahedra, dtype="int64", order="C")
            for g in rng.sample([int(v) for v in m.ir_grid_points], min(4, len(m.ir_grid_points))):
                a = (ga[g][None, None, :] + rel) % msh
                idx = a[..., 0] + msh[0] * (a[..., 1] + msh[1] * a[..., 2])
                expect = fr[gpi[idx]].transpose(2, 0, 1)          # [band, 24, 4]
                for llang in ("C", "Py"):
                    got = np.array(get_tetrahedra_frequencies(g, msh, ga, rel, gpi, fr, grid_order=[1, int(msh[0]), int(msh[0] * msh[1])], lang=llang))
                    run.count("oracle-vertex-frequency-table", section="oracle")
                    if got.shape != expect.shape or not (got == expect).all():
                        run.violation("get_tetrahedra_frequencies", "vertex-frequencies-wrong-%s-lookup-%s-tetrahedra" % (llang, tlang),
                                      "vertex frequencies of the 24 tetrahedra around grid point %d differ from frequencies[gp_ir_index[index(address + relative address)]]"
                                      " (%d of %d entries)" % (g, int((got != expect).sum()) if got.shape == expect.shape else -1, expect.size),
                                      dict(info, grid_point=g, lookup_lang=llang, tetrahedra_table=tlang))
        # ---- the four routes
        for value in ("I", "J"):
            res = {}
            for mlang in ("C", "Py"):
                for slang in ("C", "Py"):
                    thm = TetrahedronMesh(ph.primitive, fr, msh, ga, tab, m.ir_grid_points, lang=mlang)
                    thm.set(value=value, frequency_points=fp, lang=slang)
                    with np.errstate(all="ignore"):
                        res[(mlang, slang)] = np.array([np.array(iw).copy() for iw in thm])
            ref = res[("C", "C")]
            for key, arr in res.items():
                run.count("oracle-mixed-routes", section="oracle")
                err = float(np.abs(arr - ref).max()) if arr.shape == ref.shape else float("inf")
                if err > 1e-10:
                    run.violation("TetrahedronMesh.set", "route-dependent-weights-mesh-%s-set-%s" % key,
                                  "per grid point integration weights (%s) of TetrahedronMesh(lang=%s).set(lang=%s) differ from the compiled route by %.3g"
                                  % (value, key[0], key[1], err), dict(info, value=value, mesh_lang=key[0], set_lang=key[1]))
            run.case(("routes", name, tuple(mesh), sym, value), nontrivial=True)
            # one grid point / band of the mixed route C-mesh + Py-set against the Python model
            igp = rng.randint(0, len(m.ir_grid_points) - 1)
            band = rng.randint(0, fr.shape[1] - 1)
            tmpy = TetrahedronMethod(reclat, mesh=msh, lang="Py")
            relpy = np.array(tmpy.tetrahedra, dtype="int64")
            a = (ga[int(m.ir_grid_points[igp])][None, None, :] + relpy) % msh
            tet = fr[gpi[a[..., 0] + msh[0] * (a[..., 1] + msh[1] * a[..., 2])], band]
            impl = res[("C", "Py")][igp][:, band] * float(np.prod(msh))
            for cl in (0, 1):
                lines.append("pw %s %d %d %s %s %s" % (value, cl, len(fp), _rats(fp), _rats(tet), " ".join(str(int(c)) for c in _central_of(relpy))))
                meta.append(("pw%d" % cl, dict(info, function=value, grid_point=igp, band=band, route="mesh C, set Py"), impl))


def _object_reuse(run, rng, thorough, lines, meta):
    """Histories on ONE TetrahedronMesh object: set(value, frequency points, lang) -> iterate, then change lang and/or
    value and/or the frequency points and iterate again; every pass is compared per grid point with a fresh object
    configured the same way, and one (grid point, band) of every pass with the models. Same for the DOS classes."""
    from phonopy.phonon.dos import ProjectedDos, TotalDos
    from phonopy.phonon.tetrahedron_mesh import TetrahedronMesh, get_tetrahedra_frequencies
    from phonopy.structure.tetrahedron_method import TetrahedronMethod

    for it in range(3 if thorough else 1):
        name = rng.choice(["cscl", "nacl_prim", "hcp"])
        cell, cen = gen.make_cell(name)
        ph = gen.make_phonopy(cell, np.diag([2, 2, 2]), pmat="P")
        ph.force_constants = gen.pair_fc(ph.supercell, min(0.9 * gen.min_lattice_vector(ph.supercell.cell), 5.0))
        mesh = rng.choice([[2, 2, 2], [3, 3, 2], [2, 3, 2], [3, 3, 3]])
        ph.run_mesh(mesh, with_eigenvectors=True, is_mesh_symmetry=False)
        m = ph.mesh
        fr = np.array(m.frequencies)
        fmin, fmax = float(fr.min()), float(fr.max())
        ga = np.array(m.grid_address, dtype="int64")
        tab = np.array(m.grid_mapping_table, dtype="int64")

        def fresh(lang0):
            return TetrahedronMesh(ph.primitive, fr, m.mesh_numbers, ga, tab, m.ir_grid_points, lang=lang0)

        def one_pass(obj, value, fp, lang):
            obj.set(value=value, frequency_points=fp, lang=lang)
            with np.errstate(all="ignore"):
                return [np.array(iw).copy() for iw in obj]

        fps = [np.array([fmin - 0.2] + sorted(rng.uniform(fmin, fmax) for _ in range(3)) + [fmax + 0.2]) for _ in range(2)]
        for lang0 in ("C", "Py"):
            obj = fresh(lang0)
            langs = ["C", "Py"] if rng.random() < 0.5 else ["Py", "C"]
            history = [(rng.choice("IJ"), 0, langs[0]), (rng.choice("IJ"), rng.randint(0, 1), langs[1]), (rng.choice("IJ"), 1, langs[0]),
                       (rng.choice("IJ"), rng.randint(0, 1), langs[0]), ("J", 0, langs[1])]
            done = []
            for step, (value, ifp, lang) in enumerate(history):
                got = one_pass(obj, value, fps[ifp], lang)
                ref = one_pass(fresh(lang0), value, fps[ifp], lang)
                done.append((value, ifp, lang))
                info = dict(cell=name, mesh=list(mesh), constructor_lang=lang0, history=[dict(value=v, frequency_points=fps[i].tolist(), lang=l) for v, i, l in done])
                worst = max(float(np.abs(a - b).max()) for a, b in zip(got, ref))
                run.count("oracle-tetrahedron-mesh-history", section="oracle")
                run.case(("history", name, tuple(mesh), lang0, tuple(done)), nontrivial=step > 0)
                if len(got) != len(ref) or worst > 1e-12:
                    changed = [k for k, (a, b) in enumerate(zip(done[-2:][0], done[-1])) if a != b] if step else []
                    run.violation("TetrahedronMesh.set", "reused-object-ne-fresh-object" + ("-after-lang-change" if step and done[-2][2] != lang else ""),
                                  "pass %d on a reused TetrahedronMesh differs from a fresh object configured the same way by %.3g (per grid point weights)" % (step + 1, worst), info)
                    break
                # one (grid point, band) of this pass against the models
                igp = rng.randint(0, len(got) - 1)
                band = rng.randint(0, fr.shape[1] - 1)
                tm = TetrahedronMethod(np.linalg.inv(ph.primitive.cell), mesh=m.mesh_numbers, lang=lang)
                tet = np.array(get_tetrahedra_frequencies(int(m.ir_grid_points[igp]), np.array(m.mesh_numbers, dtype="int64"), ga, tm.tetrahedra,
                                                          _gp_ir_index(tab, m.ir_grid_points), fr, grid_order=[1, int(mesh[0]), int(mesh[0] * mesh[1])], lang=lang0))[band]
                impl = got[igp][:, band] * float(np.prod(mesh))
                if lang == "C":
                    lines.append("cw %s %s %d %s %s" % (value, q(EPS), len(fps[ifp]), _rats(fps[ifp]), _rats(tet)))
                    meta.append(("cw", dict(info, function=value, grid_point=igp, band=band), np.array(impl)))
                else:
                    for cl in (0, 1):
                        lines.append("pw %s %d %d %s %s %s" % (value, cl, len(fps[ifp]), _rats(fps[ifp]), _rats(tet), " ".join(str(int(c)) for c in _central_of(tm.tetrahedra))))
                        meta.append(("pw%d" % cl, dict(info, function=value, grid_point=igp, band=band), impl))
        # the DOS classes hold a TetrahedronMesh: run, change the frequency points, run again == fresh object
        for cls, kw in ((TotalDos, {}), (ProjectedDos, {})):
            d = cls(m, use_tetrahedron_method=True, **kw)
            if not _set_route(run, d, False):
                continue
            d.set_draw_area(freq_min=fmin - 0.2, freq_max=fmax + 0.2, freq_pitch=(fmax - fmin + 0.4) / 6)
            d.run()
            d.set_draw_area(freq_min=fmin, freq_max=fmax, freq_pitch=(fmax - fmin) / 4)
            d.run()
            second = np.array(d.dos if cls is TotalDos else d.projected_dos)
            f = cls(m, use_tetrahedron_method=True, **kw)
            _set_route(run, f, False)
            f.set_draw_area(freq_min=fmin, freq_max=fmax, freq_pitch=(fmax - fmin) / 4)
            f.run()
            refd = np.array(f.dos if cls is TotalDos else f.projected_dos)
            run.count("oracle-dos-object-rerun", section="oracle")
            if second.shape != refd.shape or np.abs(second - refd).max() > 1e-12 * max(1.0, np.abs(refd).max()):
                run.violation(cls.__name__ + ".run", "rerun-ne-fresh-object", "second run after set_draw_area differs from a fresh object", dict(cell=name, mesh=list(mesh)))


def _relabelled(run, rng, thorough):
    """DESCRIPTION INVARIANCE: tetrahedron (and smearing) DOS on relabelled lattice vectors (left-handed: swap, negation,
    inversion; sheared; cyclic): the property's oracle on the relabelled description, and comparison with the original
    description - pointwise where the tetrahedron decomposition is the same (inversion always; other signed permutations
    when the shortest main diagonal is unique), otherwise integrated DOS and normalisation."""
    from phonopy.phonon.tetrahedron_mesh import TetrahedronMesh

    kinds = [rng.choice(["swap12", "negate3", "invert"]), rng.choice(["shear", "cyclic", "invert"])]
    if thorough:
        kinds = list(gen.UNIMODULAR)
    names = ["cscl", "nacl_prim", "hcp", "bct", "mono_P", "triclinic", "rhombo", "zincblende_prim"]
    for kind in kinds:
        name = rng.choice(names)
        cell, cen = gen.make_cell(name)
        M = np.array(gen.UNIMODULAR[kind], dtype=int)
        cell2, qmap, smap = gen.relabelled_cell(cell, M)
        S = np.diag([2, 2, 2]) if len(cell) <= 2 else np.diag([2, 2, 1])
        if kind == "shear":
            m0 = rng.choice([3, 4, 5])
            mesh = [m0, m0, rng.randint(2, 5)]
        else:
            mesh = [rng.randint(2, 5) for _ in range(3)]
        mesh2 = [int(v) for v in np.abs(M) @ np.array(mesh)] if kind != "shear" else list(mesh)
        out = {}
        grid = None
        for tag, c_, S_, mesh_ in (("original", cell, S, mesh), (kind, cell2, smap(S), mesh2)):
            ph = gen.make_phonopy(c_, S_, pmat="P")
            ph.force_constants = gen.pair_fc(ph.supercell, min(0.9 * gen.min_lattice_vector(ph.supercell.cell), 5.0))
            ph.run_mesh(mesh_, with_eigenvectors=True, is_mesh_symmetry=False, is_gamma_center=True)
            m = ph.mesh
            fr = np.array(m.frequencies)
            nb = fr.shape[1]
            if grid is None:
                fmin, fmax = float(fr.min()), float(fr.max())
                grid = dict(freq_min=fmin - 0.3, freq_max=fmax + 0.3, freq_pitch=(fmax - fmin + 0.6) / 400)
            info = dict(cell=name, description=tag, M=M.tolist() if tag != "original" else None, volume=float(c_.volume), mesh=list(mesh_),
                        supercell_matrix=np.array(S_).tolist(), force_constants="gen.pair_fc")
            per = {}
            for method, kw in (("tetrahedron", dict(use_tetrahedron_method=True)), ("smearing", dict(sigma=0.1, use_tetrahedron_method=False))):
                ph.run_total_dos(**grid, **kw)
                td = ph.get_total_dos_dict()
                ph.run_projected_dos(**grid, **kw)
                pd = np.array(ph.get_projected_dos_dict()["projected_dos"])
                fp, tot = np.array(td["frequency_points"]), np.array(td["total_dos"])
                integ = float(np.sum((tot[1:] + tot[:-1]) / 2 * np.diff(fp)))
                per[method] = (fp, tot, integ)
                run.count("oracle-relabelled-dos-%s" % method, section="oracle")
                suffix = "-left-handed" if c_.volume < 0 else ("-relabelled" if tag != "original" else "")
                if (tot < -1e-10).any() or (pd < -1e-10).any():
                    run.violation("Phonopy.run_total_dos", "dos-negative-" + method + suffix, "negative DOS on the %s description" % tag, info)
                if np.abs(pd.sum(axis=0) - tot).max() > 1e-9 * max(1.0, np.abs(tot).max()):
                    run.violation("Phonopy.run_projected_dos", "pdos-sum-ne-total-" + method + suffix,
                                  "sum of projected DOS differs from the total DOS by %.3g on the %s description" % (np.abs(pd.sum(axis=0) - tot).max(), tag), info)
                if method == "smearing" and abs(integ - nb) > 0.02 * nb:
                    run.violation("Phonopy.run_total_dos", "dos-normalisation-smearing" + suffix, "integrated DOS %.4f, bands %d on the %s description" % (integ, nb, tag), info)
            thm = TetrahedronMesh(ph.primitive, fr, m.mesh_numbers, np.array(m.grid_address, dtype="int64"), np.array(m.grid_mapping_table, dtype="int64"), m.ir_grid_points)
            thm.set(value="J", frequency_points=np.array([float(fr.max()) + 0.5]))
            cum = sum(float((iw * m.weights[i]).sum()) for i, iw in enumerate(thm))
            if abs(cum - nb) > 1e-10 * nb:
                run.violation("TetrahedronMesh", "cumulative-above-top" + ("-left-handed" if c_.volume < 0 else ""),
                              "cumulative tetrahedron weight above the spectrum is %.12g, bands %d on the %s description" % (cum, nb, tag), info)
            rl = np.linalg.inv(np.array(ph.primitive.cell)) / np.array(mesh_, dtype=float)[None, :]
            dl = sorted(float(((rl @ np.array(sg)) ** 2).sum()) for sg in ((1, 1, 1), (-1, 1, 1), (1, -1, 1), (1, 1, -1)))
            out[tag] = (per, dl[1] > dl[0] * (1 + 1e-6))
        (po, uniq), (pr, _) = out["original"], out[kind]
        run.case(("relabel-dos", name, kind, tuple(mesh)), nontrivial=True)
        run.count("relabelled description: %s" % kind)
        info = dict(cell=name, kind=kind, M=M.tolist(), mesh=list(mesh), mesh_relabelled=list(mesh2), force_constants="gen.pair_fc")
        # smearing DOS does not depend on the tetrahedron decomposition: pointwise equal for every relabelling
        # (tolerance 1e-5: the acoustic modes at Gamma carry +-1e-7 THz noise that differs between descriptions)
        if np.abs(po["smearing"][1] - pr["smearing"][1]).max() > 1e-5 * max(1.0, np.abs(po["smearing"][1]).max()):
            run.violation("Phonopy.run_total_dos", "smearing-dos-depends-on-description", "smearing DOS differs between the original and the %s description by %.3g"
                          % (kind, np.abs(po["smearing"][1] - pr["smearing"][1]).max()), info)
        same_decomposition = kind == "invert" or (kind in ("negate3", "swap12", "cyclic") and uniq)
        if same_decomposition:
            if np.abs(po["tetrahedron"][1] - pr["tetrahedron"][1]).max() > 1e-5 * max(1.0, np.abs(po["tetrahedron"][1]).max()):
                run.violation("Phonopy.run_total_dos", "tetrahedron-dos-depends-on-description",
                              "tetrahedron DOS (same grid, same decomposition) differs between the original and the %s description by %.3g"
                              % (kind, np.abs(po["tetrahedron"][1] - pr["tetrahedron"][1]).max()), info)
        elif abs(po["tetrahedron"][2] - pr["tetrahedron"][2]) > 0.05 * max(1.0, abs(po["tetrahedron"][2])):
            run.violation("Phonopy.run_total_dos", "integrated-tetrahedron-dos-depends-on-description",
                          "integrated tetrahedron DOS %.4f vs %.4f between the original and the %s description" % (po["tetrahedron"][2], pr["tetrahedron"][2], kind), info)
        run.count("oracle-relabelled-dos-vs-original", section="oracle")


def _large_dos(run, rng, thorough):
    """SIZE: (grid points x bands x coefficients x frequency points) of a few 10^7: total DOS and xyz-projected DOS on a fine
    frequency grid; sum of PDOS = total DOS pointwise, normalisation, and equality with the same DOS evaluated in small
    batches of frequency points."""
    from phonopy.phonon.dos import run_tetrahedron_method_dos
    from phonopy.structure.tetrahedron_method import TetrahedronMethod

    configs = [("triclinic", [6, 6, 6], 4200), ("triclinic", [8, 8, 8], 2050), ("triclinic", [7, 6, 8], 2600)]
    if thorough:
        configs += [("rutile", [5, 5, 6], 2300), ("triclinic", [4, 4, 4], 11000)]
    for name, mesh, nfp in (configs if thorough else [rng.choice(configs[:3])]):
        cell, cen = gen.make_cell(name)
        ph = gen.make_phonopy(cell, np.diag([2, 2, 2]) if len(cell) <= 3 else np.diag([2, 2, 1]), pmat="P")
        ph.force_constants = gen.pair_fc(ph.supercell, min(0.9 * gen.min_lattice_vector(ph.supercell.cell), 5.0))
        ph.run_mesh(mesh, with_eigenvectors=True, is_mesh_symmetry=False)
        m = ph.mesh
        fr = np.array(m.frequencies)
        nb = fr.shape[1]
        fmin, fmax = float(fr.min()), float(fr.max())
        nfp = nfp + rng.randint(0, 60)
        pitch = (fmax - fmin + 0.4) / (nfp - 1)
        kw = dict(freq_min=fmin - 0.2, freq_max=fmax + 0.2, freq_pitch=pitch, use_tetrahedron_method=True)
        ph.run_total_dos(**kw)
        td = ph.get_total_dos_dict()
        ph.run_projected_dos(xyz_projection=True, **kw)
        pdd = ph.get_projected_dos_dict()
        fp, tot, pd = np.array(td["frequency_points"]), np.array(td["total_dos"]), np.array(pdd["projected_dos"])
        size = fr.size * nb * len(fp)
        info = dict(cell=name, mesh=mesh, n_frequency_points=int(len(fp)), bands=int(nb), products=int(size), force_constants="gen.pair_fc")
        run.case(("large-dos", name, tuple(mesh), len(fp)), nontrivial=size > 2 ** 25)
        run.count("large DOS: products 10^%d" % int(np.log10(size)))
        scale = max(1.0, float(np.abs(tot).max()))
        if pd.shape != (nb, len(fp)) or np.abs(pd.sum(axis=0) - tot).max() > 1e-9 * scale:
            run.violation("Phonopy.run_projected_dos", "xyz-pdos-sum-ne-total-tetrahedron-large",
                          "sum over the 3N Cartesian projections differs from the total DOS by %.3g on %d frequency points (%d products)"
                          % (float(np.abs(pd.sum(axis=0) - tot).max()) if pd.shape == (nb, len(fp)) else -1.0, len(fp), size), info)
        integ = float(np.sum((tot[1:] + tot[:-1]) / 2 * np.diff(fp)))
        if (tot < -1e-10).any() or (pd < -1e-10).any() or abs(integ - nb) > 0.02 * nb:
            run.violation("Phonopy.run_total_dos", "dos-normalisation-tetrahedron-large", "integrated total DOS %.5f, bands %d (fine grid, %d points)" % (integ, nb, len(fp)), info)
        # the same values from small batches of frequency points
        tm = TetrahedronMethod(np.linalg.inv(ph.primitive.cell), mesh=m.mesh_numbers)
        ev2 = np.abs(np.array(m.eigenvectors)) ** 2
        worst = 0.0
        for _ in range(4):
            idx = np.array(sorted(rng.sample(range(len(fp)), 40)))
            dp = np.array(run_tetrahedron_method_dos(m.mesh_numbers, fp[idx], fr, m.grid_address, m.grid_mapping_table, tm.tetrahedra, coef=ev2))
            dt = np.array(run_tetrahedron_method_dos(m.mesh_numbers, fp[idx], fr, m.grid_address, m.grid_mapping_table, tm.tetrahedra))
            worst = max(worst, float(np.abs(dp.T - pd[:, idx]).max()), float(np.abs(dt - tot[idx]).max()))
        run.count("oracle-large-dos", section="oracle")
        if worst > 1e-9 * scale:
            run.violation("Phonopy.run_projected_dos", "dos-depends-on-number-of-frequency-points",
                          "DOS on the fine grid differs from the same frequencies evaluated in batches of 40 points by %.3g" % worst, info)


def _end_to_end(run, rng, thorough):
    names = ["cscl", "nacl_prim", "zincblende_prim", "hcp", "bct", "rhombo", "mono_P"]
    n = 30 if thorough else 2
    for _ in range(n):
        name = rng.choice(names)
        cell, cen = gen.make_cell(name)
        ph = gen.make_phonopy(cell, np.diag([2, 2, 2]), pmat="auto" if cen != "P" else "P")
        ph.force_constants = gen.pair_fc(ph.supercell, min(0.9 * gen.min_lattice_vector(ph.supercell.cell), 5.0))
        mesh = [rng.randint(2, 4) for _ in range(3)]
        if rng.random() < 0.5:
            mesh = [mesh[0]] * 3
        gamma = rng.random() < 0.5
        ph.run_mesh(mesh, with_eigenvectors=True, is_mesh_symmetry=False, is_gamma_center=gamma)
        md = ph.get_mesh_dict()
        freqs, eig = md["frequencies"], md["eigenvectors"]
        nb = freqs.shape[1]
        fmin, fmax = float(freqs.min()), float(freqs.max())
        info = dict(cell=name, mesh=mesh, is_gamma_center=gamma, force_constants="gen.pair_fc, 2x2x2")
        # hypothesis of pdos_sum_total: columns of the eigenvector matrices are normalised
        nrm = np.abs(eig) ** 2
        if np.abs(nrm.sum(axis=1) - 1).max() > 1e-10:
            run.broke("hypothesis", "eigenvector columns are not normalised", info)
        run.count("hypothesis-eigenvector-normalisation", section="oracle")
        for method in ("tetrahedron", "smearing"):
            kw = dict(use_tetrahedron_method=True) if method == "tetrahedron" else dict(sigma=0.12, use_tetrahedron_method=False)
            npts = rng.choice([25, 600, 1800])  # sizes over orders of magnitude
            pitch = (fmax - fmin + 2.0) / npts
            ph.run_total_dos(freq_min=fmin - 1.0, freq_max=fmax + 1.0, freq_pitch=pitch, **kw)
            td = ph.get_total_dos_dict()
            ph.run_projected_dos(freq_min=fmin - 1.0, freq_max=fmax + 1.0, freq_pitch=pitch, **kw)
            pd = ph.get_projected_dos_dict()
            tot, pdos = np.array(td["total_dos"]), np.array(pd["projected_dos"])
            site = "Phonopy.run_total_dos" if True else ""
            if (tot < -1e-10).any():
                run.violation("Phonopy.run_total_dos", "dos-negative-" + method, "total DOS negative: %.3g" % tot.min(), info)
            if (pdos < -1e-10).any():
                run.violation("Phonopy.run_projected_dos", "pdos-negative-" + method, "projected DOS negative: %.3g" % pdos.min(), info)
            if np.abs(pdos.sum(axis=0) - tot).max() > 1e-9 * max(1.0, np.abs(tot).max()):
                run.violation("Phonopy.run_projected_dos", "pdos-sum-ne-total-" + method,
                              "sum of projected DOS differs from total DOS by %.3g" % np.abs(pdos.sum(axis=0) - tot).max(), info)
            ph.run_projected_dos(freq_min=fmin - 1.0, freq_max=fmax + 1.0, freq_pitch=pitch, xyz_projection=True, **kw)
            px = np.array(ph.get_projected_dos_dict()["projected_dos"])
            if px.shape[0] != nb or np.abs(px.sum(axis=0) - tot).max() > 1e-9 * max(1.0, np.abs(tot).max()):
                run.violation("Phonopy.run_projected_dos", "xyz-pdos-sum-ne-total-" + method, "sum over 3N Cartesian projections differs from the total DOS", info)
            # direction projections (given along the basis vectors, converted to Cartesian by the API): each is bounded
            # by the atom projection (pdos_direction_le_atom), and an orthonormal Cartesian triple adds up to it
            invc = np.linalg.inv(np.array(ph.primitive.cell))
            qmat, _ = np.linalg.qr(np.array([[rng.uniform(-1, 1) for _ in range(3)] for _ in range(3)]))
            acc = np.zeros_like(pdos)
            for dcart in qmat.T:
                ph.run_projected_dos(freq_min=fmin - 1.0, freq_max=fmax + 1.0, freq_pitch=pitch, direction=dcart @ invc, **kw)
                pdir = np.array(ph.get_projected_dos_dict()["projected_dos"])
                acc += pdir
                if (pdir > pdos + 1e-9 * max(1.0, np.abs(pdos).max())).any() or (pdir < -1e-10).any():
                    run.violation("Phonopy.run_projected_dos", "direction-pdos-exceeds-atom-pdos-" + method,
                                  "direction-projected DOS outside [0, atom-projected DOS]", dict(info, direction_cartesian=dcart.tolist()))
            if np.abs(acc - pdos).max() > 1e-8 * max(1.0, np.abs(pdos).max()):
                run.violation("Phonopy.run_projected_dos", "direction-pdos-triple-ne-atom-pdos-" + method,
                              "projections on an orthonormal triple of directions do not add up to the atom-projected DOS (%.3g)" % np.abs(acc - pdos).max(), info)
            run.count("oracle-direction-projection-%s" % method, section="oracle")
            integ = float(np.sum((tot[1:] + tot[:-1]) / 2 * np.diff(np.array(td["frequency_points"]))))
            # (a flat tetrahedron is a delta peak the density misses: for the tetrahedron method the normalisation is the
            #  statement about the cumulative weights checked below, the quadrature check applies to smearing only)
            if method == "smearing" and npts >= 600 and abs(integ - nb) > 0.02 * nb:
                run.violation("Phonopy.run_total_dos", "dos-normalisation-" + method, "integrated DOS %.4f, number of bands %d" % (integ, nb), info)
            run.count("oracle-e2e-%s" % method, section="oracle")
        # exact normalisation: cumulative tetrahedron weights above the spectrum
        from phonopy.phonon.tetrahedron_mesh import TetrahedronMesh

        m = ph.mesh
        for lang in ("C", "Py") if (thorough or int(np.prod(mesh)) <= 27) else ("C",):
            thm = TetrahedronMesh(ph.primitive, m.frequencies, m.mesh_numbers, np.array(m.grid_address, dtype="int64"),
                                  np.array(m.grid_mapping_table, dtype="int64"), m.ir_grid_points, lang=lang)
            fp = np.array([fmin - 0.5, (fmin + fmax) / 2, fmax + 0.5])
            thm.set(value="J", frequency_points=fp, lang=lang)
            tot = np.zeros(3)
            for i, iw in enumerate(thm):
                tot += (iw * m.weights[i]).sum(axis=1)
            if abs(tot[2] - nb) > 1e-10 * nb or abs(tot[0]) > 1e-12 or not (-1e-12 <= tot[1] <= nb + 1e-12):
                run.violation("TetrahedronMesh", "cumulative-above-top-" + lang, "cumulative weights below/inside/above the spectrum: %s, bands %d" % (tot.tolist(), nb), info)
            run.count("oracle-e2e-cumulative-%s" % lang, section="oracle")
        run.case(("e2e", name, tuple(mesh), gamma), nontrivial=True)
