"""C18 — command-line tools are faithful front-ends of the library.

Steps (BUILDING.md): regenerate the tag/option/attribute table from /repo (tools/settings2lean.py),
proof step, correspondence of the Lean model with the real `PhonopyConfParser` (every row of the
table by both routes, random combinations of file tags and options), property oracle on the real
parser (route equivalence, option overrides file, absent option keeps file, order independence,
mixed routes), run-mode decision of `main` against the model, and the command workflows
(`-d`, `-f`, `--mesh`, `--band`, `--qpoints`, `--dos/--pdos`, `-t`, `--writefc/--readfc`, `--nac`,
phonopy-load) compared with the library calls to printed precision."""

import os
import shutil
import sys
import tempfile

from .. import common
from . import c18_util as U

SITE = "PhonopyConfParser"


def _translate(run):
    sys.path.insert(0, os.path.join(common.VERIF, "tools"))
    import settings2lean

    try:
        return settings2lean.main(common.REPO)
    except settings2lean.TranslateError as e:
        run.broke("proof", "tools/settings2lean.py cannot translate the sources (the generated table and the theorems about it are stale): %s" % e)
    except Exception as e:  # a source the translator was not written for
        run.broke("proof", "tools/settings2lean.py stopped on the sources: %s: %s" % (type(e).__name__, e))
    return None


def _violation(run, site, klass, what, case, cap=3):
    """record a failing input; at most `cap` per (site, class) are written out (all are counted)"""
    run.count("failing inputs: %s / %s" % (site, klass), section="oracle")
    if run.cov["oracle"]["failing inputs: %s / %s" % (site, klass)] <= cap:
        run.violation(site, klass, what, case)


class Parser:
    """Runs cases through the real parser and collects the requests for the Lean model."""

    def __init__(self, run, tab, tmp):
        self.run = run
        self.tab = tab
        self.tmp = tmp
        self.n = 0
        self.requests = []  # (line, toks, real outcome, info)

    def conf(self, lines):
        self.n += 1
        path = os.path.join(self.tmp, "c%05d.conf" % self.n)
        U.write_conf(path, lines)
        return path

    def real(self, variant, lines=None, argv=None):
        path = None if lines is None else self.conf(lines)
        out = U.real_parse(variant, conf_path=path, argv=argv)
        if path is not None:
            os.remove(path)
        return out

    def model(self, variant, entries, real, info):
        """queue a model request for a case whose real outcome is `real`"""
        if self.tab is None:
            return
        if real.kind == "exit" and real.args is None and info.get("argv") is not None:
            return  # argparse rejected the command line: nothing reaches the settings parser
        if real.kind == "exc" and real.where == "read_file":
            # the text of the conf file never reaches the merge (the model starts from the parsed lines):
            # an uncaught exception of read_file on a well-formed line is a failing input of its own
            self.run.count("read_file raised (reported by the oracle)", section="correspondence")
            lines = info.get("conf") or []
            _violation(self.run, SITE, "conf-value-with-equals-crashes" if any(l.count("=") > 1 for l in lines) else "conf-file-crashes",
                       "reading the conf file %s raises %s" % (lines, real.detail), dict(info))
            return
        try:
            line, toks = U.encode_case(self.tab, variant, entries, real.args)
        except U.HookUnavailable as e:
            # the per-key parse outcomes are the only source of the model's tokens
            self.run.broke("correspondence", "model input unavailable: %s (the merge model cannot be compared with the parser)" % e)
            self.tab = None
            return
        if line is None:
            # some value is rejected by its own branch of _parse_conf: the whole run must stop
            self.run.count("malformed value (both sides reject)", section="correspondence")
            if real.kind == "ok":
                self.run.broke("correspondence", "a value rejected by its own branch is accepted in the full run", dict(info, why=toks))
            return
        self.requests.append((line, toks, real, info))


def _entries_to_lines(rng, entries, noise=True):
    lines = []
    for tag, text in entries:
        name = tag.upper() if rng.random() < 0.7 else (tag if rng.random() < 0.5 else tag.capitalize())
        eq = rng.choice([" = ", "=", " =", "  =  "]) if noise else " = "
        lines.append(name + eq + text)
        if noise and rng.random() < 0.15:
            lines.append(rng.choice(["", "# comment = 1", "   ", "#TMAX = 3"]))
    return lines


def _option_forms(tab, variant, tag, text):
    """command lines equivalent to `TAG = text` according to the table"""
    out = []
    for r in tab.tb["opt_rules"]:
        if r["tag"] != tag or r["act"] in ("ifTagAbsent", "always"):
            continue
        for a in tab.flags(r["dest"], variant):
            flag = a["flags"][0]
            v = r["val"][0]
            if v == "arg":
                if tab.is_bool_text(tag, text):
                    continue
                out.append([flag] + (text.split() if a["nargs"] == "+" else [text]))
            elif v == "t" and text.lower() == ".true.":
                out.append([flag])
            elif v == "f" and text.lower() == ".false.":
                out.append([flag])
            elif v == "str" and text == r["val"][1]:
                out.append([flag])
            elif v == "dflt":
                dflt = U.CTRL[variant].get(r["dflt_attr"], dict(tab.tb["defaults"])[r["dflt_attr"]] == ("bool", True))
                if text.lower() == (".false." if dflt else ".true."):
                    out.append([flag])
    return out


def _is_numeric_zero(tab, tag, text):
    for r in tab.tb["opt_rules"]:
        if r["tag"] == tag and r["numeric"]:
            try:
                return float(text) == 0
            except ValueError:
                return False
    return False


def _write_sets(tab):
    """conf key -> attributes its statements of _set_settings can write (one level of set_parameter closure)"""
    prog = tab.tb["prog"]

    def mentions(s, keys):
        def ex(x):
            return (x[0] == "param" and x[1] in keys) or (x[0] == "app" and ex(x[2]))

        def cd(c):
            if c[0] == "hasParam":
                return c[1] in keys
            if c[0] in ("and", "or"):
                return cd(c[1]) or cd(c[2])
            if c[0] == "not":
                return cd(c[1])
            return ex(c[1])
        if s[0] == "ite":
            return cd(s[1]) or any(mentions(x, keys) for x in s[2] + s[3])
        if s[0] == "setParam":
            return s[1] in keys or ex(s[2])
        return ex(s[2])

    def writes(s, attrs, params):
        if s[0] == "ite":
            for x in s[2] + s[3]:
                writes(x, attrs, params)
        elif s[0] == "set":
            attrs.add(s[1])
        elif s[0] == "setParam":
            params.add(s[1])

    out = {}
    for tag in tab.tb["code_tags"]:
        keys = set(tab.targets(tag))
        attrs, params = set(), set()
        for s in prog:
            if mentions(s, keys):
                writes(s, attrs, params)
        if params - keys:
            for s in prog:
                if mentions(s, params - keys):
                    writes(s, attrs, set())
        out[tag] = attrs
    return out


def _attr_reads(tab):
    """conf key -> settings attributes read (in guards or values) by the statements that mention its parameter keys"""
    prog = tab.tb["prog"]

    def ex_keys(x, keys, attrs):
        if x[0] == "param":
            keys.add(x[1])
        elif x[0] == "attr":
            attrs.add(x[1])
        elif x[0] == "app":
            ex_keys(x[2], keys, attrs)

    def cd_keys(c, keys, attrs):
        if c[0] == "hasParam":
            keys.add(c[1])
        elif c[0] in ("and", "or"):
            cd_keys(c[1], keys, attrs)
            cd_keys(c[2], keys, attrs)
        elif c[0] == "not":
            cd_keys(c[1], keys, attrs)
        else:
            ex_keys(c[1], keys, attrs)

    def st(s, keys, attrs):
        if s[0] == "ite":
            cd_keys(s[1], keys, attrs)
            for x in s[2] + s[3]:
                st(x, keys, attrs)
        elif s[0] == "setParam":
            keys.add(s[1])
            ex_keys(s[2], keys, attrs)
        else:
            ex_keys(s[2], keys, attrs)

    out = {}
    for s in prog:
        keys, attrs = set(), set()
        st(s, keys, attrs)
        if not attrs:
            continue
        for tag in tab.tb["code_tags"]:
            if keys & set(tab.targets(tag)):
                out.setdefault(tag, set()).update(attrs)
    return out


def _settings_pool(tab):
    """all (tag, text) the generators draw from"""
    pool = []
    missing = []
    for tag in tab.tb["code_tags"]:
        r = tab.rule_of_tag.get(tag)
        vals = list(U.VALUES.get(tag, []))
        if r is not None and r["has_bool"]:
            vals += U.BOOL_TEXTS[:4]
        if not vals:
            missing.append(tag)
        for v in vals:
            pool.append((tag, v))
    return pool, missing


def _stage(run, name, fn, *args):
    """run one stage; an exception (of /repo on well-formed input, or of this tooling on a changed source) is
    recorded as broken and the remaining stages still run"""
    import traceback

    try:
        return fn(*args)
    except SystemExit:
        raise
    except common.Broken as b:
        run.broke("harness", "stage %s: %s" % (name, b.what), b.detail)
    except Exception as e:
        tb = traceback.extract_tb(e.__traceback__)
        repo = os.path.abspath(common.REPO) + os.sep
        in_repo = [f for f in tb if os.path.abspath(f.filename).startswith(repo)]
        f = (in_repo or tb)[-1]
        run.broke("impl-exception" if in_repo else "harness",
                  "stage %s stopped: %s: %s at %s:%d (%s)" % (name, type(e).__name__, e, os.path.basename(f.filename), f.lineno, f.name))
    return None


def documented_route_oracle(run, tmp):
    """Both routes on the real parser for every option <-> tag equivalence of doc/command-options.md (plus the
    hand-written list of undocumented ones).  Uses the docs, the real argparse parser and the example values only —
    not the generated table — so it still runs when the translator or the Lean build breaks on a changed source."""
    import re

    rng = run.rng
    thorough = run.tier == "thorough"
    P = Parser(run, None, tmp)
    pairs = list(U.EXTRA_EQUIV)
    try:
        md = open(os.path.join(common.REPO, "doc", "command-options.md")).read()
        for m in re.finditer(r"^- ((?:`-[^`]+`(?:, )?)+)\s+\(([^)]*)\)", md.replace("\n  ", " "), re.M):
            flags = re.findall(r"`(-[^`]+)`", m.group(1))
            for t in re.findall(r"`([^`]+)`", m.group(2)):
                tag, _, val = t.partition("=")
                if re.fullmatch(r"[A-Z][A-Z0-9_]*", tag.strip()):
                    for f in flags:
                        pairs.append((f.replace("_", "-"), tag.strip().lower(), val.strip() or None))
    except OSError as e:
        run.broke("harness", "doc/command-options.md cannot be read: %s" % e)
    if len(pairs) < 60:
        run.broke("harness", "only %d option/tag equivalences found in doc/command-options.md" % len(pairs))
    for variant in ("phonopy", "load"):
        acts = U.parser_actions(variant)
        for flag, tag, docval in pairs:
            a = acts.get(flag)
            if a is None:
                continue
            numeric = a.type in (int, float)
            if a.nargs == 0:
                cases = [([flag], docval or ".TRUE.")]
            else:
                vals = [v for v in U.VALUES.get(tag, []) if v.lower() not in (".true.", ".false.")]
                zeros = [v for v in vals if numeric and _is_zero(v)]
                rest = [v for v in vals if v not in zeros]
                rng.shuffle(rest)
                vals = zeros[:1] + rest[: (4 if thorough else 2)]
                cases = [([flag] + (v.split() if a.nargs == "+" else [v]), v) for v in vals]
            for argv, text in cases:
                conf_lines = ["%s = %s" % (tag.upper(), text)]
                rf = P.real(variant, lines=conf_lines, argv=[])
                ro = P.real(variant, lines=None, argv=argv)
                run.case(("doc-pair", variant, flag, tag, text), nontrivial=True)
                run.count("oracle documented equivalence", section="oracle")
                d = rf.diff(ro)
                if d and docval is not None and all(isinstance(v, list) and all(isinstance(x, str) for x in v) and v[0].lower() == v[1].lower() for v in d.values()):
                    d = None  # `FC_CALCULATOR = ALM` keeps the spelling of the file, `--alm` writes "alm"; the name is lower-cased where it is used
                if not d:
                    continue
                case = dict(variant=variant, conf=conf_lines, argv=argv, differing=d)
                if rf.kind == "exc" and rf.where == "read_file":
                    _violation(run, SITE, "conf-value-with-equals-crashes" if "=" in text else "conf-file-crashes",
                               "conf file `%s` raises %s; the option `%s` is accepted" % (conf_lines[0], rf.detail, " ".join(argv)), case)
                elif numeric and _is_zero(text):
                    _violation(run, SITE, "falsy-numeric-option-dropped", "`%s` and `%s` give different settings: %s" % (" ".join(argv), conf_lines[0], str(d)[:300]), case)
                else:
                    _violation(run, SITE, "option-and-tag-differ",
                               "`%s` is the option form of `%s`, but `%s` and `%s` give different settings: %s" % (
                                   flag, tag.upper(), " ".join(argv), conf_lines[0], str(d)[:300]), case)


# fixed mixed runs: the conf file holds a tag that _set_settings handles after (and that touches the same public
# settings attributes as) the setting given on the command line; the option must supersede it.
# (file lines, option argv, public attributes compared with the option-only run, commands)
PRECEDENCE = [
    (["DOS_RANGE = 0 8 0.1"], ["--fpitch", "0.05"], ["frequency_pitch"], ("phonopy", "load")),
    (["TDISP = .TRUE."], ["-t"], ["is_thermal_properties", "is_thermal_displacements", "is_thermal_displacement_matrices", "is_thermal_distances"], ("phonopy", "load")),
    (["TDISPMAT = .TRUE."], ["-t"], ["is_thermal_properties", "is_thermal_displacements", "is_thermal_displacement_matrices", "is_thermal_distances"], ("phonopy", "load")),
    (["TDISPMAT_CIF = 300"], ["-t"], ["is_thermal_properties", "is_thermal_displacements", "is_thermal_displacement_matrices", "is_thermal_distances"], ("phonopy", "load")),
    (["TDISTANCE = 1 2"], ["-t"], ["is_thermal_properties", "is_thermal_displacements", "is_thermal_displacement_matrices", "is_thermal_distances"], ("phonopy", "load")),
    (["QPOINTS = 0 0 0"], ["--mesh", "2", "2", "2"], ["run_mode"], ("phonopy", "load")),
    (["QPOINTS = .TRUE."], ["--band", "0", "0", "0", "1/2", "0", "0"], ["run_mode"], ("phonopy", "load")),
    (["ANIME = 0 0 0"], ["--mesh", "2", "2", "2"], ["run_mode"], ("phonopy", "load")),
    (["MODULATION = 1 1 1, 0 0 0 1 1"], ["--band", "0", "0", "0", "1/2", "0", "0"], ["run_mode"], ("phonopy", "load")),
    (["IRREPS = 0 0 0"], ["--mesh", "2", "2", "2"], ["run_mode"], ("phonopy", "load")),
    (["BAND = 0 0 0 1/2 0 0"], ["--mesh", "2", "2", "2"], ["run_mode"], ("phonopy", "load")),
    (["MESH = 2 2 2"], ["--band", "0", "0", "0", "1/2", "0", "0"], ["run_mode"], ("phonopy", "load")),
    (["INCLUDE_ALL = .TRUE."], ["--exclude-born"], ["include_nac_params"], ("load",)),
]


def precedence_oracle(run, tmp):
    """documented rule (doc/setting-tags.md, doc/command-options.md): a command-line option supersedes the
    configuration-file tags — on the public settings attributes the option decides, the mixed run must equal the
    option-only run"""
    P = Parser(run, None, tmp)
    for lines, argv, attrs, variants in PRECEDENCE:
        for variant in variants:
            mixed = P.real(variant, lines=lines, argv=argv)
            alone = P.real(variant, lines=None, argv=argv)
            run.case(("precedence", variant, tuple(lines), tuple(argv)), nontrivial=True)
            run.count("oracle option supersedes file tag (fixed mixed runs)", section="oracle")
            if mixed.kind != "ok" or alone.kind != "ok":
                if mixed.kind != alone.kind:
                    _violation(run, SITE, "option-does-not-supersede-file-tag", "conf %s + `%s`: %s (%s); the option alone: %s" % (
                        lines, " ".join(argv), mixed.kind, mixed.detail, alone.kind), dict(variant=variant, conf=lines, argv=argv))
                continue
            d = {a: [U.plain(mixed.settings[a]), U.plain(alone.settings[a])] for a in attrs if U.canon(mixed.settings[a]) != U.canon(alone.settings[a])}
            if d:
                _violation(run, SITE, "option-does-not-supersede-file-tag",
                           "conf file %s with `%s` on the command line: the option does not supersede the file's tag: %s (mixed run, option alone)" % (
                               lines, " ".join(argv), d), dict(variant=variant, conf=lines, argv=argv, differing=d))


def _is_zero(text):
    try:
        return float(text) == 0
    except ValueError:
        return False


def parser_checks(run, tb, tmp):
    rng = run.rng
    thorough = run.tier == "thorough"
    tab = U.Tab(tb)
    P = Parser(run, tab, tmp)
    pool, missing = _settings_pool(tab)
    if missing:
        run.broke("coverage", "conf keys of the code without example values in harness/props/c18_util.py VALUES: %s" % missing)
    wsets = _write_sets(tab)
    targets = {t: set(tab.targets(t)) for t in tb["code_tags"]}

    def viol(klass, what, case):
        _violation(run, SITE, klass, what, case)

    # ------------------------------------------------------------------ rows of the table, both routes
    nrows = 0
    for variant in ("phonopy", "load"):
        for r in tb["opt_rules"]:
            if r["act"] in ("ifTagAbsent", "always") or not tab.flags(r["dest"], variant):
                continue
            tag = r["tag"]
            texts = []
            if r["val"][0] == "arg":
                texts = list(U.VALUES.get(tag, []))
                if not thorough and len(texts) > 4:
                    zeros = [t for t in texts if _is_numeric_zero(tab, tag, t)]
                    rest = [t for t in texts if t not in zeros]
                    rng.shuffle(rest)
                    texts = zeros + rest[: 4 - len(zeros)]
            elif r["val"][0] == "str":
                texts = [r["val"][1]]
            elif r["val"][0] == "t":
                texts = [".TRUE."]
            elif r["val"][0] == "f":
                texts = [".FALSE."]
            elif r["val"][0] == "dflt":
                dflt = U.CTRL[variant].get(r["dflt_attr"], dict(tb["defaults"])[r["dflt_attr"]] == ("bool", True))
                texts = [".FALSE." if dflt else ".TRUE."]
            for text in texts:
                forms = [f for f in _option_forms(tab, variant, tag, text) if any(f[0] in a["flags"] for a in tab.flags(r["dest"], variant))]
                if not forms:
                    continue
                # every alias of the flag in thorough, the first one (and one random alias) in quick
                argvs = [forms[0]]
                aliases = [[fl] + forms[0][1:] for a in tab.flags(r["dest"], variant) for fl in a["flags"][1:]]
                if aliases:
                    argvs += aliases if thorough else [rng.choice(aliases)]
                conf_lines = ["%s = %s" % (tag.upper(), text)]
                rf = P.real(variant, lines=conf_lines, argv=[])
                info_f = dict(variant=variant, conf=conf_lines, argv=[])
                P.model(variant, [(tag, text)], rf, info_f)
                run.case(("row-file", variant, tag, text), nontrivial=True)
                for argv in argvs:
                    if rng.random() < 0.3:  # deprecated spelling with underscores is rewritten by get_parser
                        argv = [argv[0].replace("-", "_").replace("__", "--", 1) if argv[0].startswith("--") else argv[0]] + argv[1:]
                    ro = P.real(variant, lines=None, argv=argv)
                    info_o = dict(variant=variant, conf=None, argv=argv)
                    P.model(variant, None, ro, info_o)
                    nrows += 1
                    run.case(("row-opt", variant, tuple(argv)), nontrivial=True)
                    run.count("rows: %s" % ("flag" if r["val"][0] != "arg" else ("numeric option" if r["numeric"] else "valued option")))
                    run.count("oracle route equivalence (row)", section="oracle")
                    d = rf.diff(ro)
                    if d:
                        case = dict(variant=variant, conf=conf_lines, argv=argv, differing=d)
                        if rf.kind == "exc":
                            viol("conf-value-with-equals-crashes" if "=" in text else "conf-file-crashes",
                                 "conf file `%s` raises %s; the option `%s` is accepted" % (conf_lines[0], rf.detail, " ".join(argv)), case)
                        elif _is_numeric_zero(tab, tag, text):
                            viol("falsy-numeric-option-dropped",
                                 "`%s` is ignored (settings keep %s) while `%s` is applied" % (
                                     " ".join(argv), {k: v[1] for k, v in d.items() if isinstance(v, list)}, conf_lines[0]), case)
                        else:
                            viol("route-mismatch", "`%s` and `%s` give different settings: %s" % (conf_lines[0], " ".join(argv), str(d)[:300]), case)
    run.cov["correspondence"]["rows"] = nrows

    # malformed values: both routes must reject (or both accept)
    for variant in ("phonopy", "load"):
        for tag, texts in sorted(U.MALFORMED.items()):
            for text in texts:
                forms = _option_forms(tab, variant, tag, text)
                rf = P.real(variant, lines=["%s = %s" % (tag.upper(), text)], argv=[])
                run.count("malformed stream", section="oracle")
                P.model(variant, [(tag, text)], rf, dict(variant=variant, conf=["%s = %s" % (tag.upper(), text)], argv=[]))
                for argv in forms[:1]:
                    ro = P.real(variant, lines=None, argv=argv)
                    if rf.kind != ro.kind:
                        viol("malformed-value-route-mismatch", "`%s = %s`: file route %s (%s), option route %s (%s)" % (
                            tag.upper(), text, rf.kind, rf.detail, ro.kind, ro.detail), dict(variant=variant, conf=["%s = %s" % (tag.upper(), text)], argv=argv))

    # ------------------------------------------------------------------ combinations
    ncombo = 2000 if thorough else 90
    unknown = ["FOO", "MESHH", "T_MAX"]
    for c in range(ncombo):
        variant = rng.choice(["phonopy", "load"])
        kf = rng.choice([0, 1, 2, 3, 3, 4, 6])
        ko = rng.choice([0, 1, 2, 2, 3, 5])
        entries = [rng.choice(pool) for _ in range(kf)]
        if entries and rng.random() < 0.25:  # a tag repeated with another value (dict semantics of read_file)
            t = rng.choice(entries)[0]
            alt = [e for e in pool if e[0] == t]
            entries.insert(rng.randrange(len(entries) + 1), rng.choice(alt))
        if rng.random() < 0.15:
            entries.insert(rng.randrange(len(entries) + 1), (rng.choice(unknown).lower(), "1"))
        argv = []
        tries = 0
        while len([a for a in argv if a.startswith("-")]) < ko and tries < 30:
            tries += 1
            tag, text = rng.choice(pool)
            forms = _option_forms(tab, variant, tag, text)
            if forms:
                argv += rng.choice(forms)
        if rng.random() < 0.08 and variant == "phonopy":
            argv += ["--symmetry"]
        if rng.random() < 0.1:
            argv += [rng.choice(["--qe", "--abinit", "--vasp", "--wien2k"])]
        lines = _entries_to_lines(rng, entries) if kf or rng.random() < 0.5 else None
        if lines is None:
            entries_m = None
        else:
            entries_m = entries
        real = P.real(variant, lines=lines, argv=argv)
        info = dict(variant=variant, conf=lines, argv=argv)
        P.model(variant, entries_m, real, info)
        run.case(("combo", variant, tuple(lines or ()), tuple(argv)), nontrivial=bool(entries) or bool(argv))
        run.count("combination: %d file tags" % kf)
        run.count("combination: %d options" % ko)
        if c < 2:
            run.sample(dict(kind="combination", **info))

        # ---- oracle: absent option keeps file (no args object at all == empty command line)
        if lines is not None and real.kind != "exit":
            r_noargs = P.real(variant, lines=lines, argv=None)
            r_empty = P.real(variant, lines=lines, argv=[])
            run.count("oracle absent option keeps file", section="oracle")
            d = r_noargs.diff(r_empty)
            if d:  # a statement of the model (absent_option_keeps_file), not of a command: commands always pass an args object
                run.broke("correspondence", "PhonopyConfParser(filename) without an args object and with an empty command line differ: %s" % str(d)[:300],
                          dict(variant=variant, conf=lines, argv=[]))
        # ---- oracle: order independence of file lines (distinct, non-conflicting tags) and of the command line
        tags = [e[0] for e in entries]
        if real.kind == "ok" and len(set(tags)) == len(tags) and len(tags) > 1 and not any(
                targets.get(a, set()) & targets.get(b, set()) for i, a in enumerate(tags) for b in tags[i + 1:]):
            sh = list(entries)
            rng.shuffle(sh)
            r2 = P.real(variant, lines=_entries_to_lines(rng, sh), argv=argv)
            run.count("oracle file order", section="oracle")
            d = real.diff(r2)
            if d:  # merge_order_free is a theorem about the model: a disagreement is a broken correspondence, the route oracles search the failing input
                run.broke("correspondence", "permuting non-conflicting lines of the conf file changes the settings (merge_order_free does not describe the code): %s" % str(d)[:300],
                          dict(variant=variant, conf=lines, conf_permuted=_entries_to_lines(rng, sh, noise=False), argv=argv))

    # ------------------------------------------------------------------ oracle: sets of settings by all-file / all-option / mixed routes
    def check_set(variant, chosen, all_splits):
        """chosen: list of (tag, text, option argv or None); every split of the movable settings between the
        conf file and the command line must give the settings of the all-file run"""
        lines_all = ["%s = %s" % (t.upper(), x) for t, x, _ in chosen]
        r_file = P.real(variant, lines=lines_all, argv=[])
        run.case(("set", variant, tuple(lines_all)), nontrivial=True)
        P.model(variant, [(t, x) for t, x, _ in chosen], r_file, dict(variant=variant, conf=lines_all, argv=[]))
        movable = [i for i, c in enumerate(chosen) if c[2] is not None]
        if len(movable) == len(chosen):
            argv_all = [a for _, _, f in chosen for a in f]
            r_opt = P.real(variant, lines=None, argv=argv_all)
            run.count("oracle set: all-file vs all-option", section="oracle")
            P.model(variant, None, r_opt, dict(variant=variant, conf=None, argv=argv_all))
            d = r_file.diff(r_opt)
            zero = any(_is_numeric_zero(tab, t, x) for t, x, _ in chosen)
            if d:
                viol("falsy-numeric-option-dropped" if zero else ("conf-value-with-equals-crashes" if r_file.kind == "exc" else "route-mismatch-set"),
                     "the same settings by file and by options differ: %s" % str(d)[:300], dict(variant=variant, conf=lines_all, argv=argv_all, differing=d))
                return
            groups = [f for _, _, f in chosen]
            rng.shuffle(groups)
            r_opt2 = P.real(variant, lines=None, argv=[a for g in groups for a in g])
            run.count("oracle option order", section="oracle")
            if r_opt.diff(r_opt2):
                run.broke("correspondence", "permuting the command line changes the settings (the model reads an unordered namespace)",
                          dict(variant=variant, argv=argv_all, argv_permuted=[a for g in groups for a in g]))
        for mask in range(1, 2 ** len(movable)):
            if mask == 2 ** len(movable) - 1 and len(movable) == len(chosen):
                continue  # all-option: done above
            if not all_splits and rng.random() < 0.4:
                continue
            moved = {movable[b] for b in range(len(movable)) if mask >> b & 1}
            fl = ["%s = %s" % (t.upper(), x) for i, (t, x, _) in enumerate(chosen) if i not in moved]
            av = [a for i, (_, _, f) in enumerate(chosen) if i in moved for a in f]
            r_mix = P.real(variant, lines=fl, argv=av)
            run.count("oracle mixed routes", section="oracle")
            P.model(variant, [(t, x) for i, (t, x, _) in enumerate(chosen) if i not in moved], r_mix, dict(variant=variant, conf=fl, argv=av))
            d = r_file.diff(r_mix)
            if d:
                zero = any(_is_numeric_zero(tab, chosen[i][0], chosen[i][1]) for i in moved)
                viol("falsy-numeric-option-dropped" if zero else ("conf-value-with-equals-crashes" if "exc" in (r_file.kind, r_mix.kind) else "mixed-route-drops-setting"),
                     "file %s + options `%s` differs from the same settings all in the file: %s" % (fl, " ".join(av), str(d)[:300]),
                     dict(variant=variant, conf=fl, argv=av, all_file=lines_all, differing=d))
                return

    def compatible(tag, others):
        return tag in wsets and not any(wsets[tag] & wsets[t2] or targets[tag] & targets[t2] for t2 in others)

    # (a) deterministic: every conf key whose statement of _set_settings reads an attribute, paired with every conf key writing that attribute
    reads = _attr_reads(tab)
    for reader, attrs in sorted(reads.items()):
        for writer in tb["code_tags"]:
            if writer == reader or not (attrs & wsets.get(writer, set())) or not compatible(reader, [writer]):
                continue
            for variant in ("phonopy", "load"):
                vr = [x for t, x in pool if t == reader]
                vw = [x for t, x in pool if t == writer]
                if not vr or not vw:
                    continue
                for _ in range(2 if thorough else 1):
                    xr, xw = rng.choice(vr), rng.choice(vw)
                    fr, fw = _option_forms(tab, variant, reader, xr), _option_forms(tab, variant, writer, xw)
                    if not fr and not fw:
                        continue
                    run.count("dependent pairs (reader, writer of a guard attribute)", section="oracle")
                    check_set(variant, [(writer, xw, fw[0] if fw else None), (reader, xr, fr[0] if fr else None)], True)

    # (b) random sets of non-interfering settings
    nsets = 1000 if thorough else 60
    made = 0
    attempts = 0
    while made < nsets and attempts < 20 * nsets:
        attempts += 1
        variant = rng.choice(["phonopy", "load"])
        k = rng.choice([2, 2, 3, 3, 4])
        chosen = []
        for _ in range(40):
            tag, text = rng.choice(pool)
            forms = _option_forms(tab, variant, tag, text)
            if not forms or not compatible(tag, [c[0] for c in chosen]):
                continue
            chosen.append((tag, text, forms[0]))
            if len(chosen) == k:
                break
        if len(chosen) < 2:
            continue
        made += 1
        check_set(variant, chosen, thorough)

    # ------------------------------------------------------------------ oracle: option overrides file (same conf key by both routes)
    nov = 0
    for variant in ("phonopy", "load"):
        for tag in tb["code_tags"]:
            vals = [x for t, x in pool if t == tag]
            withopt = [x for x in vals if _option_forms(tab, variant, tag, x)]
            if not withopt or len(vals) < 2:
                continue
            for _ in range(5 if thorough else 1):
                v2 = rng.choice(withopt)
                v1 = rng.choice([x for x in vals if x != v2])
                argv = _option_forms(tab, variant, tag, v2)[0]
                lines = ["%s = %s" % (tag.upper(), v1)]
                r_both = P.real(variant, lines=lines, argv=argv)
                r_opt = P.real(variant, lines=None, argv=argv)
                nov += 1
                run.case(("override", variant, tag, v1, v2), nontrivial=True)
                run.count("oracle option overrides file", section="oracle")
                P.model(variant, [(tag, v1)], r_both, dict(variant=variant, conf=lines, argv=argv))
                if r_both.kind == "exit" and r_opt.kind == "ok":
                    continue  # the file value is malformed on its own
                d = r_both.diff(r_opt)
                if d:
                    zero = _is_numeric_zero(tab, tag, v2)
                    klass = "falsy-numeric-option-dropped" if zero else "option-does-not-override-file"
                    if "exc" in (r_both.kind, r_opt.kind) and (r_both.where == "read_file" or r_opt.where == "read_file"):
                        continue  # read_file raised: already reported by P.model
                    if not zero and r_both.kind == "ok" and r_opt.kind == "ok":
                        # residue: every differing attribute is one the option's value does not set at all
                        # (option-only leaves the default) and the combined run keeps what the file's value set
                        r_file = P.real(variant, lines=lines, argv=[])
                        r_dflt = P.real(variant, lines=None, argv=[])
                        if r_file.kind == "ok" and all(
                                U.canon(r_both.settings[a]) == U.canon(r_file.settings[a]) and U.canon(r_opt.settings[a]) == U.canon(r_dflt.settings[a])
                                for a in d):
                            klass = "file-value-residue-survives-option"
                    viol(klass,
                         "`%s` in the file and `%s` on the command line: result differs from the option alone: %s" % (lines[0], " ".join(argv), str(d)[:300]),
                         dict(variant=variant, conf=lines, argv=argv, differing=d))

    return P, tab


def _run_model(run, P, tab):
    lines = ["wf", "names tag", "names key", "names attr", "names dest", "names str", "names fn"] + [r[0] for r in P.requests] + ["run D 0 K 0", "frob", "run D 1 0 Q K 0 F 0 0 A 0 0"]
    out = common.lean_run_driver("C18", lines)
    if len(out) != len(lines):
        run.broke("correspondence", "driver answered %d lines for %d requests" % (len(out), len(lines)))
        return
    run.cov["correspondence"]["table certificates"] = out[0]
    cert = dict(x.split("=", 1) for x in out[0].split()) if "=" in out[0] else {}
    classes = {v["class"] for v in run.violations} | {k.get("class") for k in run.known}
    if cert.get("guarded") != "true":
        run.broke("certificate", "Table.progGuarded is false on the generated table: an assignment of _set_settings is not under a guard that needs a parameter "
                  "(absent_option_keeps_file does not apply)")
    if cert.get("numericNotTruthy") != "true":
        names = [tab.tb["dests"][int(i)] for i in cert.get("truthyNumeric", "").split(",") if i]
        run.cov["correspondence"]["numeric options tested by truthiness (F14)"] = names
        if "falsy-numeric-option-dropped" not in classes:
            run.broke("certificate", "Table.numericNotTruthy is false (%s) but the oracle found no dropped option value" % names)
    non_iso = {tab.tb["tags"][int(i)] for i in cert.get("nonIsolated", "").split(",") if i}
    dependent = sorted(non_iso & {"qpoints_format", "moment_order"})
    if dependent:
        run.cov["correspondence"]["conf keys guarded by another setting's attribute"] = dependent
        if "mixed-route-drops-setting" not in classes:
            run.broke("certificate", "%s are not isolated in the generated table but the oracle found no mixed-route failing input" % dependent)
    for which, ans in zip(["tags", "keys", "attrs", "dests", "strs", "fns"], out[1:7]):
        if ans.split(",") != [n for n in tab.tb[which]]:
            run.broke("correspondence", "the compiled Gen/SettingsTable.lean is not the table of this run (%s differ)" % which)
            return
    for bad in out[-3:]:
        if bad != "bad-op":
            run.broke("correspondence", "driver accepted a malformed request: %r" % bad[:60])
    ncmp = 0
    nbad = 0
    for (line, toks, real, info), ans in zip(P.requests, out[7:-3]):
        ncmp += 1
        d = U.compare_model(tab, toks, ans, real)
        if d:
            nbad += 1
            if nbad <= 6:
                run.broke("correspondence", "settings parser: model and implementation disagree", dict(case=info, differing=d))
    run.cov["correspondence"]["parser cases compared"] = ncmp
    run.cov["correspondence"]["parser cases disagreeing"] = nbad


def main(run):
    common.setup_phonopy("omp")
    thorough = run.tier == "thorough"
    tb = _translate(run)
    run.proof_step(leancheck=thorough)
    run.cov["rule"] = (
        "table rows: every block of read_options that a parser flag reaches x example values of its conf key (numeric zeros always "
        "included) x both commands, by conf file and by option (and one alias / deprecated underscore spelling); random combinations of "
        "0-6 file tags (repeated tags, unknown tags, comments, case, spacing) and 0-5 options; sets of 2-4 non-interfering settings by "
        "all-file / all-option / every mixed split; same conf key by both routes. Each case runs the real PhonopyConfParser and the Lean "
        "model (values are tokens produced by the real per-key branch of _parse_conf). Non-trivial = at least one tag or option given.")
    run.cov["trusted_base"] = [
        "Lean 4.33 kernel; Mathlib v4.33; axioms per theorem in coverage.theorems",
        "tools/settings2lean.py (Python ast -> rule tables); its output is compared by name lists with the compiled table on every run",
        "hand-written interpreter Model/Settings.lean tied to PhonopyConfParser by this correspondence run",
        "per-conf-key string parsers are not modelled: the model receives the (parameter key, value) list the real branch produced",
        "nanobind replaced by harness/nbstub (c/_phonopy.cpp compiled unchanged); symfc, seekpath, pypolymlp, h5py-dependent paths as available",
    ]
    run.assumptions += [
        "values of conf keys are opaque tokens (truthiness, length, identity with a source string constant are what the model sees)",
        "pypolymlp / SSCHA branches of main are outside the run-mode model (use_pypolymlp = False)",
        "phonopy-load's default force-constants calculator (symfc) is not installed: load workflows run with --fc-calc traditional; the default rule is checked on the settings only",
    ]
    tmp = tempfile.mkdtemp(prefix="c18-", dir="/tmp")
    cwd = os.getcwd()
    try:
        from . import c18_flow as W

        # the route oracle that needs neither the generated table nor the Lean side runs first
        _stage(run, "documented route oracle", documented_route_oracle, run, tmp)
        _stage(run, "option supersedes file tag", precedence_oracle, run, tmp)
        from . import c18_keys as K

        _stage(run, "per-key value parsers vs model", K.key_checks, run, tmp)
        if tb is not None:
            res = _stage(run, "settings parser vs model", parser_checks, run, tb, tmp)
            if res is not None:
                _stage(run, "Lean model of the parser", _run_model, run, res[0], res[1])
        _stage(run, "fc-calculator rule", W.fc_calculator_checks, run)
        crystals = [("nacl_prim", (2, 2, 2)), ("cscl", (2, 2, 1))]
        if thorough:
            crystals += [("hcp", (2, 2, 1)), ("zincblende_prim", (2, 2, 2)), ("bcc", (2, 2, 2)), ("mono_P", (2, 1, 1)), ("cscl", (2, 2, 2)), ("rhombo", (2, 2, 1))]
        flows = []
        for name, dim in crystals:
            fl = W.Flow(run, name + "-" + "x".join(map(str, dim)), dim, tmp)
            fl.cell, fl.cen = __import__("harness.gen", fromlist=["make_cell"]).make_cell(name)
            flows.append(fl)
            _stage(run, "workflow " + fl.name, fl.go, run.rng, thorough)
            os.chdir(tmp)
            _stage(run, "further modes " + fl.name, fl.go_extra, run.rng, thorough, thorough or len(flows) == 1)
            os.chdir(tmp)
        _stage(run, "calculator named by the yaml only", W.calculator_flows, run, tmp, run.rng, thorough)
        os.chdir(tmp)
        _stage(run, "settings contradicting the input yaml", W.override_flows, run, tmp, run.rng, thorough)
        os.chdir(tmp)
        _stage(run, "boundary values through the workflows", W.boundary_flows, run, tmp, flows[0], tb, run.rng, thorough)
        os.chdir(tmp)
        _stage(run, "left-handed input cells", W.lefthanded_flows, run, tmp, run.rng, thorough)
        os.chdir(tmp)
        _stage(run, "LAMMPS route", W.lammps_flows, run, tmp, run.rng, thorough)
        os.chdir(tmp)
        _stage(run, "mixed conf file + options through main", W.precedence_flows, run, tmp, flows[0])
        os.chdir(tmp)
        _stage(run, "run-mode decision", W.decision_checks, run, tmp, flows[0], run.rng, thorough)
    finally:
        os.chdir(cwd)
        shutil.rmtree(tmp, ignore_errors=True)
