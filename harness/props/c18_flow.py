"""C18 workflows: the phonopy / phonopy-load commands run in-process through
`phonopy.cui.phonopy_script.main` in a scratch directory, their output files compared with the
corresponding library calls to printed precision; the run-mode decision of `main` against the model."""

from __future__ import annotations

import contextlib
import io
import os
import shutil
import sys

import numpy as np

from .. import common, gen
from . import c18_util as U

OUTPUTS = ["FORCE_SETS", "phonopy_disp.yaml", "phonopy_rd_disp.yaml", "phonopy.yaml", "phonopy_params.yaml", "band.yaml", "mesh.yaml", "qpoints.yaml",
           "thermal_properties.yaml", "thermal_displacements.yaml", "thermal_displacement_matrices.yaml", "projected_dos.dat",
           "total_dos.dat", "FORCE_CONSTANTS", "force_constants.hdf5", "anime.ascii", "modulation.yaml", "irreps.yaml", "BPOSCAR", "PPOSCAR", "phonopy_supercell.yaml",
           "band.hdf5", "mesh.hdf5", "qpoints.hdf5"]


def run_main(variant, argv):
    """`phonopy <argv>` / `phonopy-load <argv>` in the current directory -> (exit code or None, stdout, exception or None)"""
    from phonopy.cui.phonopy_script import main

    saved = sys.argv
    sys.argv = ["phonopy" if variant == "phonopy" else "phonopy-load"] + list(argv)
    out = io.StringIO()
    code, exc = None, None
    try:
        with contextlib.redirect_stdout(out), contextlib.redirect_stderr(io.StringIO()):
            try:
                main(**U.CTRL[variant])
            except SystemExit as e:
                code = 0 if e.code is None else e.code
            except Exception as e:  # reported by the caller
                exc = e
    finally:
        sys.argv = saved
    return code, out.getvalue(), exc


def write_poscar(path, cell):
    syms = []
    for s in cell.symbols:
        if s not in syms:
            syms.append(s)
    order = [i for s in syms for i, t in enumerate(cell.symbols) if t == s]
    lines = ["generated", "   1.0"]
    for v in cell.cell:
        lines.append("  %22.16f %22.16f %22.16f" % tuple(v))
    lines.append(" ".join(syms))
    lines.append(" ".join(str(sum(1 for t in cell.symbols if t == s)) for s in syms))
    lines.append("Direct")
    for i in order:
        lines.append("  %20.16f %20.16f %20.16f" % tuple(cell.scaled_positions[i]))
    with open(path, "w") as f:
        f.write("\n".join(lines) + "\n")
    return order


def write_vasprun(path, cell, forces):
    L = ['<?xml version="1.0" encoding="ISO-8859-1"?>\n<modeling>\n <generator>\n  <i name="program" type="string">vasp </i>\n'
         '  <i name="version" type="string">6.3.0  </i>\n </generator>\n <calculation>\n  <structure>\n   <crystal>\n    <varray name="basis" >\n']
    for v in cell.cell:
        L.append("     <v> %22.16f %22.16f %22.16f </v>\n" % tuple(v))
    L.append('    </varray>\n   </crystal>\n   <varray name="positions" >\n')
    for v in cell.scaled_positions:
        L.append("    <v> %22.16f %22.16f %22.16f </v>\n" % tuple(v))
    L.append('   </varray>\n  </structure>\n  <varray name="forces" >\n')
    for v in forces:
        L.append("   <v> %22.16f %22.16f %22.16f </v>\n" % tuple(v))
    L.append('  </varray>\n  <energy>\n   <i name="e_fr_energy"> -10.0 </i>\n   <i name="e_wo_entrp"> -10.0 </i>\n   <i name="e_0_energy"> -10.0 </i>\n'
             "  </energy>\n </calculation>\n</modeling>\n")
    with open(path, "w") as f:
        f.write("".join(L))


def _yaml(path):
    import yaml

    with open(path) as f:
        return yaml.safe_load(f)


def _dat(path):
    rows = []
    with open(path) as f:
        for line in f:
            if line.strip() and not line.lstrip().startswith("#"):
                rows.append([float(x) for x in line.split()])
    return np.array(rows)


class Flow:
    def __init__(self, run, name, dim, tmp):
        self.run = run
        self.name = name
        self.dim = list(dim)
        self.dir = os.path.join(tmp, "wf-" + name)
        os.makedirs(self.dir)
        self.cell = None
        self.nchecks = 0

    # ---- reporting
    def bad(self, klass, what, **case):
        self.run.violation("phonopy_script.main", klass, "%s: %s" % (self.name, what), dict(crystal=self.name, dim=self.dim, **case))

    def close(self, what, a, b, tol, argv, klass="output-differs-from-library"):
        self.nchecks += 1
        self.run.count("workflow comparisons", section="oracle")
        a, b = np.asarray(a, dtype=float), np.asarray(b, dtype=float)
        if a.shape != b.shape:
            self.bad(klass, "%s: shape %s (file) vs %s (library)" % (what, a.shape, b.shape), argv=argv)
            return False
        if a.size and not np.all(np.abs(a - b) <= tol):
            self.bad(klass, "%s differs from the library call by %.3g (printed precision %.1g)" % (what, float(np.abs(a - b).max()), tol), argv=argv)
            return False
        return True

    def close_freq(self, what, a, b, tol, argv, klass="output-differs-from-library"):
        """frequencies: numerically zero modes (acoustic at Gamma, |f| < 1e-4 on both sides) are rounding noise"""
        a, b = np.asarray(a, dtype=float), np.asarray(b, dtype=float)
        if a.shape == b.shape:
            noise = (np.abs(a) < 1e-4) & (np.abs(b) < 1e-4)
            a = np.where(noise, 0.0, a)
            b = np.where(noise, 0.0, b)
        return self.close(what, a, b, tol, argv, klass=klass)

    def cmd(self, variant, argv, expect=0, must=()):
        code, out, exc = run_main(variant, argv)
        self.run.count("commands run", section="oracle")
        self.run.count("command: %s %s" % (variant, " ".join(a for a in argv if a.startswith("-"))))
        self.run.case(("flow", self.name, variant, tuple(argv)), nontrivial=True)
        if exc is not None:
            self.bad("command-raises", "`%s %s` raises %s: %s" % (variant, " ".join(argv), type(exc).__name__, exc), argv=argv)
            return None
        if code != expect:
            self.bad("command-exit-code", "`%s %s` exits with %r (expected %r): %s" % (variant, " ".join(argv), code, expect, out[-300:]), argv=argv)
            return None
        for f in must:
            if not os.path.exists(f):
                self.bad("output-missing", "`%s %s` did not write %s" % (variant, " ".join(argv), f), argv=argv)
                return None
        return out

    # ---- library side
    def api(self, **kw):
        from phonopy import Phonopy

        return Phonopy(self.cell, supercell_matrix=np.diag(self.dim), primitive_matrix=None, log_level=0, **kw)

    def api_with_forces(self):
        from phonopy.file_IO import parse_FORCE_SETS

        ph = self.api()
        ph.dataset = parse_FORCE_SETS(natom=len(ph.supercell), filename="FORCE_SETS")
        ph.produce_force_constants(calculate_full_force_constants=False, fc_calculator="traditional")
        return ph

    # ---- the workflow
    def go(self, rng, thorough):
        import phonopy
        from phonopy.file_IO import parse_BORN, parse_FORCE_CONSTANTS, parse_FORCE_SETS
        from phonopy.interface.vasp import read_vasp
        from phonopy.phonon.band_structure import get_band_qpoints

        os.chdir(self.dir)
        write_poscar("POSCAR", self.cell)
        dimv = [str(x) for x in self.dim]
        base = ["--dim"] + dimv + ["-c", "POSCAR"]

        # ---------------- -d with displacement options
        disp_opts = rng.choice([[], ["--amplitude", "0.03"], ["--nodiag"], ["--pm"], ["--pm", "--nodiag", "--amplitude", "0.02"]])
        argv = ["-d"] + base + disp_opts
        if self.cmd("phonopy", argv, must=["phonopy_disp.yaml", "SPOSCAR", "POSCAR-001"]) is None:
            return
        ph = self.api()
        kw = {}
        if "--amplitude" in disp_opts:
            kw["distance"] = float(disp_opts[disp_opts.index("--amplitude") + 1])
        ph.generate_displacements(is_plusminus=True if "--pm" in disp_opts else "auto", is_diagonal="--nodiag" not in disp_opts, **kw)
        yl = phonopy.load("phonopy_disp.yaml", produce_fc=False, log_level=0)
        d_api = np.array([[x["number"]] + list(x["displacement"]) for x in ph.dataset["first_atoms"]], dtype=float)
        d_cli = np.array([[x["number"]] + list(x["displacement"]) for x in yl.dataset["first_atoms"]], dtype=float)
        self.close("displacements of phonopy_disp.yaml", d_cli, d_api, 1e-14, argv)
        for i, scd in enumerate(ph.supercells_with_displacements):
            c = read_vasp("POSCAR-%03d" % (i + 1))
            dpos = c.scaled_positions - scd.scaled_positions
            self.close("POSCAR-%03d positions (modulo lattice)" % (i + 1), dpos - np.rint(dpos), np.zeros_like(dpos), 1e-14, argv)
        self.close("SPOSCAR lattice", read_vasp("SPOSCAR").cell, ph.supercell.cell, 1e-13, argv)
        self.check_reload("phonopy_disp.yaml", ph, argv, expect_dataset=True)
        ndisp = len(ph.supercells_with_displacements)

        # ---------------- the same through a conf file
        U.write_conf("disp.conf", ["DIM = " + " ".join(dimv), "CREATE_DISPLACEMENTS = .TRUE."] + (
            ["DISPLACEMENT_DISTANCE = %s" % disp_opts[disp_opts.index("--amplitude") + 1]] if "--amplitude" in disp_opts else []) + (
            ["DIAG = .FALSE."] if "--nodiag" in disp_opts else []) + (["PM = .TRUE."] if "--pm" in disp_opts else []))
        saved = open("phonopy_disp.yaml").read()
        if self.cmd("phonopy", ["disp.conf", "-c", "POSCAR"], must=["phonopy_disp.yaml"]) is not None:
            y1 = phonopy.load("phonopy_disp.yaml", produce_fc=False, log_level=0)
            d2 = np.array([[x["number"]] + list(x["displacement"]) for x in y1.dataset["first_atoms"]], dtype=float)
            self.close("displacements by conf file vs by options", d2, d_cli, 0.0, ["disp.conf", "-c", "POSCAR"], klass="conf-route-differs-from-option-route")
        with open("phonopy_disp.yaml", "w") as f:
            f.write(saved)

        # ---------------- random displacements: a given seed must be used (also seed 0)
        for seed in (0, 7):
            argv_r = ["-d", "--rd", "2", "--random-seed", str(seed)] + base
            os.makedirs("rd", exist_ok=True)
            shutil.copy("POSCAR", "rd/POSCAR")
            os.chdir("rd")
            try:
                if self.cmd("phonopy", argv_r, must=["phonopy_disp.yaml"]) is not None:
                    y = phonopy.load("phonopy_disp.yaml", produce_fc=False, log_level=0)
                    pr = self.api()
                    pr.generate_displacements(number_of_snapshots=2, random_seed=seed)
                    ok = np.asarray(y.dataset["displacements"]).shape == np.asarray(pr.dataset["displacements"]).shape and np.abs(
                        np.asarray(y.dataset["displacements"]) - np.asarray(pr.dataset["displacements"])).max() <= 1e-14
                    self.nchecks += 1
                    self.run.count("workflow comparisons", section="oracle")
                    if not ok:
                        self.run.violation("phonopy_script.main", "falsy-numeric-option-dropped" if seed == 0 else "output-differs-from-library",
                                           "%s: `phonopy %s` does not produce the displacements of generate_displacements(number_of_snapshots=2, random_seed=%d)" % (
                                               self.name, " ".join(argv_r), seed), dict(crystal=self.name, dim=self.dim, argv=argv_r))
            finally:
                os.chdir(self.dir)
                shutil.rmtree("rd", ignore_errors=True)

        # ---------------- forces of a harmonic pair-potential model, -f
        sc = ph.supercell
        fc_model = gen.pair_fc(sc, cutoff=4.5)
        names = []
        forces = []
        for i, scd in enumerate(ph.supercells_with_displacements):
            u = scd.positions - sc.positions
            f = -np.einsum("ijab,jb->ia", fc_model, u)
            forces.append(f)
            nm = "vasprun.xml-%03d" % (i + 1)
            write_vasprun(nm, scd, f)
            names.append(nm)
        argv = ["-f"] + names
        if self.cmd("phonopy", argv, must=["FORCE_SETS"]) is None:
            return
        ds = parse_FORCE_SETS(natom=len(sc), filename="FORCE_SETS")
        self.close("FORCE_SETS forces", [x["forces"] for x in ds["first_atoms"]], forces, 1e-9, argv)
        self.close("FORCE_SETS displacements", [[x["number"]] + list(x["displacement"]) for x in ds["first_atoms"]], d_api, 1e-14, argv)
        # conf-file route of -f
        U.write_conf("fs.conf", ["CREATE_FORCE_SETS = " + " ".join(names)])
        os.rename("FORCE_SETS", "FORCE_SETS.opt")
        if self.cmd("phonopy", ["fs.conf"], must=["FORCE_SETS"]) is not None:
            self.nchecks += 1
            if open("FORCE_SETS").read() != open("FORCE_SETS.opt").read():
                self.bad("conf-route-differs-from-option-route", "FORCE_SETS by CREATE_FORCE_SETS tag differs from the one by -f", argv=["fs.conf"])
        # --sp: phonopy_params.yaml for phonopy-load
        if self.cmd("phonopy", ["-f"] + names + ["--sp"], must=["phonopy_params.yaml"]) is None:
            return

        # ---------------- mesh + thermal properties + writefc (FORCE_SETS route)
        mesh = rng.choice([[4, 4, 4], [3, 3, 3], [5, 4, 3]])
        meshv = [str(x) for x in mesh]
        tmax = rng.choice([300, 500])
        argv = base + ["--mesh"] + meshv + ["-t", "--tmax", str(tmax), "--tstep", "50", "--cutoff-freq", "0.05", "--writefc", "--include-all"]
        if self.cmd("phonopy", argv, must=["mesh.yaml", "thermal_properties.yaml", "FORCE_CONSTANTS", "phonopy.yaml"]) is None:
            return
        pa = self.api_with_forces()
        pa.run_mesh(mesh)
        pa.run_thermal_properties(t_min=0, t_max=tmax, t_step=50, cutoff_frequency=0.05)
        self.cmp_mesh("mesh.yaml", pa, argv)
        self.cmp_tprop("thermal_properties.yaml", pa, argv)
        fc_file = parse_FORCE_CONSTANTS(filename="FORCE_CONSTANTS", p2s_map=pa.primitive.p2s_map)
        self.close("FORCE_CONSTANTS", fc_file, pa.force_constants, 1e-14, argv)
        self.check_reload("phonopy.yaml", pa, argv, expect_dataset=True, expect_fc=True)
        saved_mesh = open("mesh.yaml").read()
        saved_tp = open("thermal_properties.yaml").read()

        # the same by conf file
        U.write_conf("mesh.conf", ["DIM = " + " ".join(dimv), "MESH = " + " ".join(meshv), "TPROP = .TRUE.", "TMAX = %d" % tmax, "TSTEP = 50", "CUTOFF_FREQUENCY = 0.05"])
        if self.cmd("phonopy", ["mesh.conf", "-c", "POSCAR"], must=["mesh.yaml", "thermal_properties.yaml"]) is not None:
            self.nchecks += 2
            if open("mesh.yaml").read() != saved_mesh:
                self.bad("conf-route-differs-from-option-route", "mesh.yaml by conf file differs from mesh.yaml by options", argv=["mesh.conf", "-c", "POSCAR"])
            if open("thermal_properties.yaml").read() != saved_tp:
                self.bad("conf-route-differs-from-option-route", "thermal_properties.yaml by conf file differs from the one by options", argv=["mesh.conf", "-c", "POSCAR"])
        # mixed: conf file + options
        U.write_conf("dim.conf", ["DIM = " + " ".join(dimv), "TMAX = 9999"])
        if self.cmd("phonopy", ["dim.conf", "-c", "POSCAR", "--mesh"] + meshv + ["-t", "--tmax", str(tmax), "--tstep", "50", "--cutoff-freq", "0.05"], must=["thermal_properties.yaml"]) is not None:
            self.nchecks += 1
            if open("thermal_properties.yaml").read() != saved_tp:
                self.bad("option-does-not-override-file", "--tmax on the command line does not supersede TMAX of the conf file in thermal_properties.yaml", argv=["dim.conf", "--tmax", str(tmax)])

        # ---------------- --tmin 0 / --tmax 0 reach the calculation (F14 at the level of the output file)
        U.write_conf("t.conf", ["DIM = " + " ".join(dimv), "MESH = " + " ".join(meshv), "TPROP = .TRUE.", "TMIN = 100", "TMAX = 200", "TSTEP = 50"])
        argv0 = ["t.conf", "-c", "POSCAR", "--tmin", "0"]
        if self.cmd("phonopy", argv0, must=["thermal_properties.yaml"]) is not None:
            t = [x["temperature"] for x in _yaml("thermal_properties.yaml")["thermal_properties"]]
            self.nchecks += 1
            if abs(t[0]) > 1e-12:
                self.run.violation("phonopy_script.main", "falsy-numeric-option-dropped",
                                   "%s: `phonopy %s` (conf file has TMIN = 100): thermal_properties.yaml starts at T = %g, not at the 0 given on the command line" % (
                                       self.name, " ".join(argv0), t[0]), dict(crystal=self.name, dim=self.dim, argv=argv0, conf=open("t.conf").read().split("\n")))

        # ---------------- --readfc: band, qpoints, dos, pdos
        pf = self.api()
        pf.force_constants = fc_file
        path = rng.choice(["0 0 0 1/2 0 0", "0 0 0 1/2 1/2 0 1/2 1/2 1/2", "0 0 0 0.5 0 0.5, 0.5 0.5 0 0 0 0"])
        npts = rng.choice([5, 11])
        argv = base + ["--readfc", "--band"] + path.split() + ["--band-points", str(npts)]
        if self.cmd("phonopy", argv, must=["band.yaml"]) is not None:
            paths = [np.array([U.fracval(x) for x in sec.split()]).reshape(-1, 3) for sec in path.split(",")]
            pf.run_band_structure(get_band_qpoints(paths, npoints=npts))
            self.cmp_band("band.yaml", pf, argv)
        qtxt = rng.choice(["0 0 0 1/2 1/2 0", "0.1 0.2 0.3", "1/3 1/3 0 0 0 1/2 0.5 0.5 0.5"])
        argv = base + ["--readfc", "--qpoints"] + qtxt.split()
        if self.cmd("phonopy", argv, must=["qpoints.yaml"]) is not None:
            q = np.array([U.fracval(x) for x in qtxt.split()]).reshape(-1, 3)
            pf.run_qpoints(q)
            y = _yaml("qpoints.yaml")
            self.close_freq("qpoints.yaml frequencies", [[b["frequency"] for b in p["band"]] for p in y["phonon"]], pf.get_qpoints_dict()["frequencies"], 2e-10, argv)
            self.close("qpoints.yaml q-positions", [p["q-position"] for p in y["phonon"]], q, 1e-6, argv)
        sig = rng.choice([None, "0.1"])
        argv = base + ["--readfc", "--mesh"] + meshv + ["--dos"] + (["--sigma", sig] if sig else [])
        if self.cmd("phonopy", argv, must=["total_dos.dat"]) is not None:
            pf.run_mesh(mesh)
            pf.run_total_dos(sigma=None if sig is None else float(sig))
            d = pf.get_total_dos_dict()
            t = _dat("total_dos.dat")
            self.close("total_dos.dat", t, np.c_[d["frequency_points"], d["total_dos"]], 2e-9, argv)
        argv = base + ["--readfc", "--mesh"] + meshv + ["--pdos", "1,", "2"]
        if self.cmd("phonopy", argv, must=["projected_dos.dat"]) is not None:
            pf.run_mesh(mesh, with_eigenvectors=True, is_mesh_symmetry=False)
            pf.run_projected_dos()
            d = pf.get_projected_dos_dict()
            t = _dat("projected_dos.dat")
            self.close("projected_dos.dat", t, np.c_[d["frequency_points"], np.asarray(d["projected_dos"]).T], 2e-9, argv)

        # ---------------- NAC through a BORN file
        npa = len(pa.primitive)
        z = 1.1
        ionic = len(set(self.cell.symbols)) >= 2
        with open("BORN", "w") as f:
            f.write("14.400\n 2.5 0 0 0 2.5 0 0 0 2.5\n")
            inds = pa.primitive_symmetry.get_independent_atoms()
            for k, i in enumerate(inds):
                zz = z if k % 2 == 0 else -z
                f.write(" %g 0 0 0 %g 0 0 0 %g\n" % (zz, zz, zz))
        argv = base + ["--readfc", "--nac", "--qpoints", "0", "0", "0", "0.1", "0.2", "0.3", "--q-direction", "1", "0", "0"]
        out = self.cmd("phonopy", argv, must=["qpoints.yaml"]) if ionic else None
        if out is not None:
            pn = self.api()
            pn.force_constants = fc_file
            pn.nac_params = parse_BORN(pn.primitive, filename="BORN")
            pn.run_qpoints([[0, 0, 0], [0.1, 0.2, 0.3]], nac_q_direction=[1, 0, 0])
            y = _yaml("qpoints.yaml")
            self.close_freq("qpoints.yaml frequencies with NAC", [[b["frequency"] for b in p["band"]] for p in y["phonon"]], pn.get_qpoints_dict()["frequencies"], 2e-10, argv)
            pf.run_qpoints([[0, 0, 0], [0.1, 0.2, 0.3]])
            self.nchecks += 1
            if npa > 1 and np.abs(pn.get_qpoints_dict()["frequencies"] - pf.get_qpoints_dict()["frequencies"]).max() < 1e-6:
                self.run.broke("harness", "NAC workflow is vacuous: BORN charges do not change the frequencies")
        os.remove("BORN")

        # ---------------- phonopy-load
        for f in ("mesh.yaml", "thermal_properties.yaml", "phonopy.yaml", "FORCE_CONSTANTS"):
            if os.path.exists(f):
                os.remove(f)
        argv = ["phonopy_params.yaml", "--fc-calc", "traditional", "--mesh"] + meshv + ["-t", "--tmax", str(tmax), "--tstep", "50", "--cutoff-freq", "0.05", "--writefc", "--include-all"]
        if self.cmd("load", argv, must=["mesh.yaml", "thermal_properties.yaml", "FORCE_CONSTANTS", "phonopy.yaml"]) is not None:
            pl = phonopy.load("phonopy_params.yaml", fc_calculator="traditional", log_level=0)
            pl.run_mesh(mesh)
            pl.run_thermal_properties(t_min=0, t_max=tmax, t_step=50, cutoff_frequency=0.05)
            self.cmp_mesh("mesh.yaml", pl, argv)
            self.cmp_tprop("thermal_properties.yaml", pl, argv)
            self.close("FORCE_CONSTANTS (phonopy-load)", parse_FORCE_CONSTANTS(filename="FORCE_CONSTANTS", p2s_map=pl.primitive.p2s_map), pl.force_constants, 1e-14, argv)
            self.check_reload("phonopy.yaml", pl, argv, expect_dataset=True, expect_fc=True)
            # --no-fc-symmetry switches the symmetrisation off
            argv2 = ["phonopy_params.yaml", "--fc-calc", "traditional", "--no-fc-symmetry", "--writefc"]
            if self.cmd("load", argv2, must=["FORCE_CONSTANTS"]) is not None:
                pl2 = phonopy.load("phonopy_params.yaml", fc_calculator="traditional", symmetrize_fc=False, log_level=0)
                self.close("FORCE_CONSTANTS (phonopy-load --no-fc-symmetry)", parse_FORCE_CONSTANTS(filename="FORCE_CONSTANTS", p2s_map=pl2.primitive.p2s_map), pl2.force_constants, 1e-14, argv2)
            # conf file through --config
            U.write_conf("load.conf", ["MESH = " + " ".join(meshv), "TPROP = .TRUE.", "TMAX = %d" % tmax, "TSTEP = 50", "CUTOFF_FREQUENCY = 0.05", "FC_CALCULATOR = traditional"])
            saved_tp = open("thermal_properties.yaml").read()
            if self.cmd("load", ["phonopy_params.yaml", "--config", "load.conf"], must=["thermal_properties.yaml"]) is not None:
                self.nchecks += 1
                if open("thermal_properties.yaml").read() != saved_tp:
                    self.bad("conf-route-differs-from-option-route", "phonopy-load --config: thermal_properties.yaml differs from the one by options", argv=["phonopy_params.yaml", "--config", "load.conf"])
        self.run.cov["oracle"]["workflow comparisons: " + self.name] = self.nchecks

    # ---- further modes: outputs of the command against the library writing the same file
    def cmp_tree(self, what, a, b, tol, argv, path=""):
        """parsed yaml / nested lists: numbers within tol (numerically zero frequencies are noise), everything else equal"""
        if isinstance(a, dict) and isinstance(b, dict):
            if sorted(a) != sorted(b):
                self.bad("output-differs-from-library", "%s%s: keys %s (command) vs %s (library)" % (what, path, sorted(a), sorted(b)), argv=argv)
                return False
            return all([self.cmp_tree(what, a[k], b[k], tol, argv, path + "/" + str(k)) for k in a])
        if isinstance(a, (list, tuple)) and isinstance(b, (list, tuple)):
            if len(a) != len(b):
                self.bad("output-differs-from-library", "%s%s: %d entries (command) vs %d (library)" % (what, path, len(a), len(b)), argv=argv)
                return False
            return all([self.cmp_tree(what, x, y, tol, argv, path + "/%d" % i) for i, (x, y) in enumerate(zip(a, b))])
        if isinstance(a, (int, float)) and isinstance(b, (int, float)) and not isinstance(a, bool):
            if abs(a - b) <= tol or (abs(a) < 1e-4 and abs(b) < 1e-4 and path.endswith("frequency")):
                return True
            self.bad("output-differs-from-library", "%s%s: %r (command) vs %r (library)" % (what, path, a, b), argv=argv)
            return False
        if a != b:
            self.bad("output-differs-from-library", "%s%s: %r (command) vs %r (library)" % (what, path, a, b), argv=argv)
            return False
        return True

    def yaml_vs_api(self, fname, argv, write, tol=2e-7):
        """`fname` written by the command in the cwd against the same file written by the library (`write()`) in ./api"""
        self.nchecks += 1
        self.run.count("workflow comparisons", section="oracle")
        os.makedirs("api", exist_ok=True)
        os.chdir("api")
        try:
            for f in os.listdir("."):
                os.remove(f)
            with contextlib.redirect_stdout(io.StringIO()):
                write()
            lib = _yaml(fname)
        finally:
            os.chdir(self.dir)
        return self.cmp_tree(fname, _yaml(fname), lib, tol, argv)

    def go_extra(self, rng, thorough, full):
        """band labels, group velocities, thermal displacements (matrices), moments, irreps, QPOINTS file, --writedm,
        hdf5 outputs, phonopy vs phonopy-load on the same yaml (after `go`: FORCE_SETS and phonopy_params.yaml exist)"""
        from phonopy.file_IO import parse_QPOINTS
        from phonopy.phonon.band_structure import get_band_qpoints

        os.chdir(self.dir)
        dimv = [str(x) for x in self.dim]
        base = ["--dim"] + dimv + ["-c", "POSCAR"]
        mesh = rng.choice([[3, 3, 3], [2, 2, 2], [4, 3, 2]])
        meshv = [str(x) for x in mesh]
        pa = self.api_with_forces()
        natom = len(pa.primitive)

        # ---- band with labels, points, group velocities
        path = "0 0 0 1/2 0 0 1/2 1/2 0, 0 0 0 1/2 1/2 1/2"
        labels = ["G", "X", "M", "G", "R"]
        npts = rng.choice([4, 7])
        argv = base + ["--band"] + path.split() + ["--band-points", str(npts), "--band-labels"] + labels + ["--gv"]
        if self.cmd("phonopy", argv, must=["band.yaml"]) is not None:
            paths = [np.array([U.fracval(x) for x in sec.split()]).reshape(-1, 3) for sec in path.split(",")]
            conn = []
            for p in paths:
                conn += [True] * (len(p) - 2) + [False]
            pa.run_band_structure(get_band_qpoints(paths, npoints=npts), with_group_velocities=True, path_connections=conn, labels=labels)
            if self.yaml_vs_api("band.yaml", argv, lambda: pa.write_yaml_band_structure()):
                y = _yaml("band.yaml")
                self.nchecks += 1
                if y.get("labels") != [["G", "X"], ["X", "M"], ["G", "R"]] or "group_velocity" not in y["phonon"][0]["band"][0]:
                    self.bad("output-differs-from-library", "band.yaml lacks the labels / group velocities that were asked for: labels %r" % (y.get("labels"),), argv=argv)
        # ---- group velocities on the mesh
        argv = base + ["--mesh"] + meshv + ["--gv"]
        if self.cmd("phonopy", argv, must=["mesh.yaml"]) is not None:
            pa.run_mesh(mesh, with_group_velocities=True)
            d = pa.get_mesh_dict()
            y = _yaml("mesh.yaml")
            self.close("mesh.yaml group velocities", [[b["group_velocity"] for b in p["band"]] for p in y["phonon"]], d["group_velocities"], 2e-7, argv)
            self.close_freq("mesh.yaml frequencies (--gv)", [[b["frequency"] for b in p["band"]] for p in y["phonon"]], d["frequencies"], 2e-10, argv)
        # ---- QPOINTS file and --writedm
        with open("QPOINTS", "w") as f:
            f.write("3\n0 0 0\n1/2 1/3 0\n0.1 0.2 0.3\n")
        argv = base + ["--read-qpoints", "--writedm"]
        if self.cmd("phonopy", argv, must=["qpoints.yaml"]) is not None:
            pa.run_qpoints(parse_QPOINTS(), with_dynamical_matrices=True)
            self.yaml_vs_api("qpoints.yaml", argv, lambda: pa.write_yaml_qpoints_phonon(), tol=2e-10)
            saved = open("qpoints.yaml").read()
            U.write_conf("rq.conf", ["DIM = " + " ".join(dimv), "QPOINTS = .TRUE.", "WRITEDM = .TRUE."])
            if self.cmd("phonopy", ["rq.conf", "-c", "POSCAR"], must=["qpoints.yaml"]) is not None:
                self.nchecks += 1
                if open("qpoints.yaml").read() != saved:
                    self.bad("conf-route-differs-from-option-route", "qpoints.yaml by QPOINTS = .TRUE. / WRITEDM differs from --read-qpoints --writedm", argv=["rq.conf", "-c", "POSCAR"])
        # ---- phonopy and phonopy-load on the same phonopy_params.yaml
        argv_p = ["phonopy_params.yaml", "--mesh"] + meshv
        argv_l = ["phonopy_params.yaml", "--fc-calc", "traditional", "--no-fc-symmetry", "--mesh"] + meshv
        if self.cmd("phonopy", argv_p, must=["mesh.yaml"]) is not None:
            one = open("mesh.yaml").read()
            if self.cmd("load", argv_l, must=["mesh.yaml"]) is not None:
                self.nchecks += 1
                self.run.count("workflow comparisons", section="oracle")
                if open("mesh.yaml").read() != one:
                    self.cmp_tree("mesh.yaml (phonopy-load vs phonopy on the same phonopy_params.yaml)", _yaml("mesh.yaml"), __import__("yaml").safe_load(one), 2e-10, argv_l)
        if not full:
            return
        # ---- thermal displacements and displacement matrices
        targs = ["--tmax", "300", "--tstep", "100"]
        argv = base + ["--mesh"] + meshv + ["--td"] + targs
        if self.cmd("phonopy", argv, must=["thermal_displacements.yaml"]) is not None:
            pa.init_mesh(mesh, with_eigenvectors=True, is_mesh_symmetry=False, use_iter_mesh=True)
            pa.run_thermal_displacements(t_min=0, t_max=300, t_step=100)
            self.yaml_vs_api("thermal_displacements.yaml", argv, lambda: pa.write_yaml_thermal_displacements())
        tcif = rng.choice([None, "300"])
        argv = base + ["--mesh"] + meshv + (["--tdm-cif", tcif] if tcif else ["--tdm"] + targs)
        if self.cmd("phonopy", argv, must=["thermal_displacement_matrices.yaml"]) is not None:
            pa.init_mesh(mesh, with_eigenvectors=True, is_mesh_symmetry=False, use_iter_mesh=True)
            if tcif:
                pa.run_thermal_displacement_matrices(temperatures=[float(tcif)])
            else:
                pa.run_thermal_displacement_matrices(t_min=0, t_max=300, t_step=100)
            self.yaml_vs_api("thermal_displacement_matrices.yaml", argv, lambda: pa.write_yaml_thermal_displacement_matrices())
        # ---- moments (printed only)
        order = rng.choice([1, 2])
        argv = base + ["--mesh"] + meshv + ["--moment", "--moment-order", str(order)]
        out = self.cmd("phonopy", argv)
        if out is not None:
            pa.run_mesh(mesh, with_eigenvectors=True, is_mesh_symmetry=False)
            pa.run_moment(order=order, is_projection=False)
            tot = pa.get_moment()
            pa.run_moment(order=order, is_projection=True)
            proj = list(pa.get_moment())
            row = [ln for ln in out.split("\n") if ln.strip().startswith("%d |" % order)]
            self.nchecks += 1
            if len(row) != 1:
                self.bad("output-differs-from-library", "--moment --moment-order %d prints no row for that order" % order, argv=argv)
            else:
                nums = [float(x) for x in row[0].replace("|", " ").split()[1:]]
                self.close("moments printed by --moment", nums, [tot] + proj, 2e-5, argv)
        # ---- irreducible representations at Gamma and at a zone-boundary point
        for qi in (["0", "0", "0"], ["1/2", "0", "0"]) if getattr(self, "cen", "P") == "P" else ():  # irreps need a primitive unit cell
            argv = base + ["--irreps"] + qi
            if self.cmd("phonopy", argv, must=["irreps.yaml"]) is not None:
                with contextlib.redirect_stdout(io.StringIO()):
                    # the command passes degeneracy_tolerance=settings.irreps_tolerance (None -> 1e-5 inside IrReps);
                    # the default of Phonopy.set_irreps is 1e-4
                    ok = pa.set_irreps([U.fracval(x) for x in qi], degeneracy_tolerance=None)
                if ok:
                    self.yaml_vs_api("irreps.yaml", argv, lambda: pa.write_yaml_irreps(False), tol=2e-6)
        # ---- hdf5 outputs
        try:
            import h5py
        except ImportError:
            self.run.cov["oracle"]["hdf5 outputs"] = "not covered: h5py is not available"
            return
        for opt in (["--hdf5"], ["--mesh-format", "hdf5"]):
            if os.path.exists("mesh.hdf5"):
                os.remove("mesh.hdf5")
            argv = base + ["--mesh"] + meshv + opt
            if self.cmd("phonopy", argv, must=["mesh.hdf5"]) is not None:
                pa.run_mesh(mesh)
                d = pa.get_mesh_dict()
                with h5py.File("mesh.hdf5", "r") as h:
                    self.close_freq("mesh.hdf5 frequency", h["frequency"][:], d["frequencies"], 1e-12, argv)
                    self.close("mesh.hdf5 weight", h["weight"][:], d["weights"], 0, argv)
                    self.close("mesh.hdf5 qpoint", h["qpoint"][:], d["qpoints"], 1e-14, argv)
        argv = base + ["--band"] + path.split() + ["--band-points", str(npts), "--hdf5"]
        if self.cmd("phonopy", argv, must=["band.hdf5"]) is not None:
            paths = [np.array([U.fracval(x) for x in sec.split()]).reshape(-1, 3) for sec in path.split(",")]
            pa.run_band_structure(get_band_qpoints(paths, npoints=npts))
            d = pa.get_band_structure_dict()
            with h5py.File("band.hdf5", "r") as h:
                self.close_freq("band.hdf5 frequency", h["frequency"][:], np.array(d["frequencies"]), 1e-12, argv)
                self.close("band.hdf5 distance", h["distance"][:], np.array(d["distances"]), 1e-12, argv)
        argv = base + ["--qpoints", "0.1", "0.2", "0.3", "1/2", "0", "0", "--hdf5"]
        if self.cmd("phonopy", argv, must=["qpoints.hdf5"]) is not None:
            pa.run_qpoints([[0.1, 0.2, 0.3], [0.5, 0, 0]])
            with h5py.File("qpoints.hdf5", "r") as h:
                self.close_freq("qpoints.hdf5 frequency", h["frequency"][:], pa.get_qpoints_dict()["frequencies"], 1e-12, argv)
        argv = base + ["--writefc", "--hdf5"]
        if self.cmd("phonopy", argv, must=["force_constants.hdf5"]) is not None:
            with h5py.File("force_constants.hdf5", "r") as h:
                self.close("force_constants.hdf5", h["force_constants"][:], pa.force_constants, 1e-14, argv)
            argv = base + ["--readfc", "--readfc-format", "hdf5", "--qpoints", "0.1", "0.2", "0.3"]
            if self.cmd("phonopy", argv, must=["qpoints.yaml"]) is not None:
                pa.run_qpoints([[0.1, 0.2, 0.3]])
                y = _yaml("qpoints.yaml")
                self.close_freq("qpoints.yaml frequencies (--readfc-format hdf5)", [[b["frequency"] for b in p["band"]] for p in y["phonon"]], pa.get_qpoints_dict()["frequencies"], 2e-10, argv)
        self.run.cov["oracle"]["workflow comparisons: " + self.name] = self.nchecks

    # ---- file comparisons
    def cmp_mesh(self, path, ph, argv):
        y = _yaml(path)
        d = ph.get_mesh_dict()
        self.close("mesh.yaml mesh numbers", y["mesh"], ph.mesh_numbers, 0, argv)
        self.close("mesh.yaml q-positions", [p["q-position"] for p in y["phonon"]], d["qpoints"], 1e-6, argv)
        self.close("mesh.yaml weights", [p["weight"] for p in y["phonon"]], d["weights"], 0, argv)
        self.close_freq("mesh.yaml frequencies", [[b["frequency"] for b in p["band"]] for p in y["phonon"]], d["frequencies"], 2e-10, argv)

    def cmp_tprop(self, path, ph, argv):
        y = _yaml(path)["thermal_properties"]
        d = ph.get_thermal_properties_dict()
        self.close("thermal_properties.yaml temperatures", [x["temperature"] for x in y], d["temperatures"], 1e-6, argv)
        self.close("thermal_properties.yaml free energy", [x["free_energy"] for x in y], d["free_energy"], 2e-7, argv)
        self.close("thermal_properties.yaml entropy", [x["entropy"] for x in y], d["entropy"], 2e-7, argv)
        self.close("thermal_properties.yaml heat capacity", [x["heat_capacity"] for x in y], d["heat_capacity"], 2e-7, argv)

    def cmp_band(self, path, ph, argv):
        y = _yaml(path)
        d = ph.get_band_structure_dict()
        self.close_freq("band.yaml frequencies", [[b["frequency"] for b in p["band"]] for p in y["phonon"]], np.concatenate(d["frequencies"]), 2e-10, argv)
        self.close("band.yaml distances", [p["distance"] for p in y["phonon"]], np.concatenate(d["distances"]), 1e-6, argv)
        self.close("band.yaml q-positions", [p["q-position"] for p in y["phonon"]], np.concatenate(d["qpoints"]), 1e-6, argv)

    def check_reload(self, path, ph, argv, expect_dataset=False, expect_fc=False):
        """the summary file reloads (phonopy.load) to the calculation that was run"""
        import phonopy

        try:
            r = phonopy.load(path, produce_fc=False, log_level=0)
        except Exception as e:
            self.bad("summary-does-not-reload", "phonopy.load(%s) raises %s: %s" % (path, type(e).__name__, e), argv=argv)
            return
        self.close("reloaded %s: unit cell lattice" % path, r.unitcell.cell, ph.unitcell.cell, 1e-13, argv, klass="summary-does-not-reload")
        self.close("reloaded %s: unit cell positions" % path, r.unitcell.scaled_positions, ph.unitcell.scaled_positions, 1e-13, argv, klass="summary-does-not-reload")
        self.close("reloaded %s: supercell matrix" % path, r.supercell_matrix, ph.supercell_matrix, 0, argv, klass="summary-does-not-reload")
        pm = lambda m: np.eye(3) if m is None else np.asarray(m, dtype=float)  # noqa: E731
        self.close("reloaded %s: primitive matrix" % path, pm(r.primitive_matrix), pm(ph.primitive_matrix), 1e-13, argv, klass="summary-does-not-reload")
        self.nchecks += 1
        if list(r.unitcell.symbols) != list(ph.unitcell.symbols):
            self.bad("summary-does-not-reload", "reloaded %s: symbols differ" % path, argv=argv)
        if expect_dataset:
            if r.dataset is None:
                self.bad("summary-does-not-reload", "reloaded %s has no displacement dataset" % path, argv=argv)
            else:
                a = [[x["number"]] + list(x["displacement"]) for x in r.dataset["first_atoms"]]
                b = [[x["number"]] + list(x["displacement"]) for x in ph.dataset["first_atoms"]]
                self.close("reloaded %s: displacements" % path, a, b, 1e-14, argv, klass="summary-does-not-reload")
                if "forces" in ph.dataset["first_atoms"][0]:
                    if "forces" not in r.dataset["first_atoms"][0]:
                        self.bad("summary-does-not-reload", "reloaded %s has no forces (--include-all was given)" % path, argv=argv)
                    else:
                        self.close("reloaded %s: forces" % path, [x["forces"] for x in r.dataset["first_atoms"]],
                                   [x["forces"] for x in ph.dataset["first_atoms"]], 1e-9, argv, klass="summary-does-not-reload")
        if expect_fc:
            if r.force_constants is None:
                self.bad("summary-does-not-reload", "reloaded %s has no force constants (--include-all was given)" % path, argv=argv)
            else:
                self.close("reloaded %s: force constants" % path, r.force_constants, ph.force_constants, 1e-12, argv, klass="summary-does-not-reload")
                r.run_qpoints([[0.1, 0.2, 0.3]])
                ph.run_qpoints([[0.1, 0.2, 0.3]])
                # masses are printed with 6 decimals in the summary file (relative 1e-8): frequencies agree to ~1e-7
                self.close("reloaded %s: frequencies at a generic q" % path, r.get_qpoints_dict()["frequencies"], ph.get_qpoints_dict()["frequencies"], 1e-6, argv, klass="summary-does-not-reload")


# --------------------------------------------------------------------------
# run-mode decision of main against the model
# --------------------------------------------------------------------------

EXPECT = {
    "createForceSets": {"FORCE_SETS"}, "displacements": {"phonopy_disp.yaml"}, "randomDisplacementsAtT": {"phonopy_disp.yaml"},
    "forceConstants": set(), "qpoints": {"qpoints.yaml"}, "band": {"band.yaml"}, "mesh": {"mesh.yaml"}, "meshIter": set(),
    "thermalProperties": {"thermal_properties.yaml"}, "thermalDisplacements": {"thermal_displacements.yaml"},
    "thermalDisplacementMatrices": {"thermal_displacement_matrices.yaml"}, "pdos": {"projected_dos.dat"}, "dos": {"total_dos.dat"},
    "moment": set(), "anime": {"anime.ascii"}, "modulation": {"modulation.yaml"}, "irreps": {"irreps.yaml"},
    "symmetryInfo": {"phonopy_supercell.yaml"}, "createForceConstants": set(), "finalize": {"phonopy.yaml"},
}

SCENARIOS = [
    ["-d"], ["-d", "--mesh", "2", "2", "2"], ["-d", "-t", "--band", "0", "0", "0", "1/2", "0", "0"], ["--rd", "2"],
    ["--rd", "2", "--rd-temperature", "300", "--mesh", "2", "2", "2"], ["-d", "--rd-temperature", "300"],
    ["-f", "@VASPRUNS"], ["-f", "@VASPRUNS", "-d", "--mesh", "2", "2", "2"],
    ["--fc", "missing-vasprun.xml"], ["--fc", "missing-vasprun.xml", "-d"], ["--symmetry"], ["--symmetry", "-d", "--mesh", "2", "2", "2"],
    [], ["--mesh", "2", "2", "2"], ["--mesh", "2", "2", "2", "-t"], ["--mesh", "2", "2", "2", "--td"], ["--mesh", "2", "2", "2", "--tdm"],
    ["--mesh", "2", "2", "2", "--pdos", "1,", "2"], ["--mesh", "2", "2", "2", "--dos"], ["--mesh", "2", "2", "2", "--dos", "-t"],
    ["--mesh", "2", "2", "2", "--moment"], ["--mesh", "2", "2", "2", "--moment", "--dos"], ["--mesh", "2", "2", "2", "-t", "--td"],
    ["--mesh", "2", "2", "2", "--td", "--pdos", "1"], ["--mesh", "2", "2", "2", "--nowritemesh", "-t"],
    ["--band", "0", "0", "0", "1/2", "0", "0", "--band-points", "3"], ["--band", "0", "0", "0", "1/2", "0", "0", "--band-points", "3", "--mesh", "2", "2", "2", "--dos"],
    ["--band", "0", "0", "0", "1/2", "0", "0", "--band-points", "3", "--mesh", "2", "2", "2", "-t"],
    ["--qpoints", "0", "0", "0"], ["--qpoints", "0", "0", "0", "--mesh", "2", "2", "2"], ["--qpoints", "0", "0", "0", "-t"],
    ["--anime", "0", "0", "0"], ["--irreps", "0", "0", "0"], ["--modulation", "1", "1", "1,", "0", "0", "0", "1", "1"],
    ["--mesh", "2", "2", "2", "--dos", "--pdos", "auto"], ["-t"], ["--dos"],
]


def main_in_from(settings, args):
    s = settings
    early = [bool(s["create_force_sets"] or s["create_force_sets_zero"]), bool(s["create_force_constants"]), bool(args.is_check_symmetry),
             bool(s["create_displacements"]), bool(U.truthy(s["random_displacements"])), s["random_displacement_temperature"] is not None,
             bool(s["use_pypolymlp"]), bool(U.truthy(s["sscha_iterations"]))]
    mode = s["run_mode"] if s["run_mode"] is not None else "none"
    mesh = [bool(s["is_thermal_properties"]), bool(s["is_thermal_displacements"]), bool(s["is_thermal_displacement_matrices"]),
            s["pdos_indices"] is not None, bool(args.is_graph_plot or s["is_dos_mode"]), isinstance(s["pdos_indices"], str) and s["pdos_indices"] == "auto",
            bool(s["is_moment"])]
    return early, mode, mesh


def decision_checks(run, tmp, flow, rng, thorough):
    """real main on a prepared directory vs mainActions of the model"""
    src = flow.dir
    scen = list(SCENARIOS)
    if not thorough:
        keep = scen[:13]
        rest = scen[13:]
        rng.shuffle(rest)
        scen = keep + rest[:12]
    lines, meta = [], []
    vaspruns = sorted(f for f in os.listdir(src) if f.startswith("vasprun.xml-"))
    for argv in scen:
        argv = [b for a in argv for b in (vaspruns if a == "@VASPRUNS" else [a])]
        d = os.path.join(tmp, "dec")
        shutil.rmtree(d, ignore_errors=True)
        os.makedirs(d)
        for f in ["POSCAR", "FORCE_SETS", "phonopy_disp.yaml"] + vaspruns:
            if os.path.exists(os.path.join(src, f)):
                shutil.copy(os.path.join(src, f), os.path.join(d, f))
        os.chdir(d)
        # -d scenarios start without an old phonopy_disp.yaml / FORCE_SETS so that what is written is observable
        creating = any(a in argv for a in ("-d", "--rd")) and "-f" not in argv
        if creating:
            os.remove("phonopy_disp.yaml")
        if "-f" in argv:
            os.remove("FORCE_SETS")
        before = {f: os.path.getmtime(f) for f in os.listdir(".")}
        full = (["--dim"] + [str(x) for x in flow.dim] + ["-c", "POSCAR"] if "-f" not in argv else []) + argv
        real = U.real_parse("phonopy", argv=full)
        if real.kind != "ok":
            run.broke("correspondence", "run-mode scenario rejected by the settings parser", dict(argv=full, detail=real.detail))
            continue
        early, mode, mesh = main_in_from(real.settings, real.args)
        code, out, exc = run_main("phonopy", full)
        run.case(("decision", tuple(argv)), nontrivial=True)
        run.count("run-mode scenarios", section="correspondence")
        produced = set()
        for f in os.listdir("."):
            if f in OUTPUTS and (f not in before or os.path.getmtime(f) != before[f]):
                produced.add(f)
        lines.append("main %s %s %s" % (" ".join("1" if b else "0" for b in early), mode, " ".join("1" if b else "0" for b in mesh)))
        meta.append((full, produced, code, exc, out))
        os.chdir(tmp)
    out = common.lean_run_driver("C18", lines) if lines else []
    for (full, produced, code, exc, text), ans in zip(meta, out):
        if not ans.startswith("ok"):
            run.broke("correspondence", "run-mode model rejected the scenario", dict(argv=full, answer=ans))
            continue
        acts = ans.split()[1:]
        expect = set()
        for a in acts:
            expect |= EXPECT[a]
        if "mesh" in acts and "--nowritemesh" in full:
            expect.discard("mesh.yaml")
        extra_ok = {"FORCE_CONSTANTS"}
        detail = dict(argv=full, model_actions=acts, expected_files=sorted(expect), produced=sorted(produced), exit_code=code, stdout_tail=text[-400:],
                      exception=None if exc is None else "%s: %s" % (type(exc).__name__, exc))
        ok = (produced - extra_ok) == expect
        if "moment" in acts:
            ok = ok and "Order|   Total" in text
        if "createForceConstants" in acts:
            ok = ok and "missing-vasprun.xml" in text and code == 1
        if exc is not None:
            ok = False
        if not ok:
            run.broke("correspondence", "run-mode decision: files written by main differ from the model's actions", detail)
        if len(run.cov["samples"]) < 4:
            run.sample(dict(kind="run-mode", argv=full, model_actions=acts, produced=sorted(produced)))


def fc_calculator_checks(run):
    from types import SimpleNamespace

    ids = {"traditional": 0, "symfc": 1, "alm": 2}
    try:
        from phonopy.cui.phonopy_script import _get_fc_calculator_params

        _get_fc_calculator_params(SimpleNamespace(fc_calculator=None, fc_symmetry=False, fc_calculator_options=None), load_phonopy_yaml=False)
    except (ImportError, AttributeError, TypeError) as e:
        # optional refinement: the rule is also observed through the commands (the phonopy-load workflows need
        # --fc-calc traditional / --no-fc-symmetry exactly when the default would be symfc)
        run.count("intermediate hook unavailable: phonopy_script._get_fc_calculator_params (%s)" % type(e).__name__, section="correspondence")
        return
    lines, want = [], []
    for fc in (None, "traditional", "symfc", "alm", "ALM", "Symfc", "unknown"):
        for sym in (False, True):
            for load in (False, True):
                got, _ = _get_fc_calculator_params(SimpleNamespace(fc_calculator=fc, fc_symmetry=sym, fc_calculator_options=None), load_phonopy_yaml=load)
                tok = "-" if fc is None else (str(ids[fc.lower()]) if fc.lower() in ids else "?")
                lines.append("fccalc %s %d %d" % (tok, sym, load))
                want.append((fc, sym, load, got))
    # the defaults of the two commands, on real settings objects
    for variant, argv in [("phonopy", []), ("phonopy", ["--fc-symmetry"]), ("phonopy", ["--symfc"]), ("phonopy", ["--alm"]), ("phonopy", ["--fc-calc", "traditional", "--fc-symmetry"]),
                          ("load", []), ("load", ["--no-fc-symmetry"]), ("load", ["--fc-calc", "traditional"]), ("load", ["--fc-calc", "ALM"]), ("load", ["--fc-calc", "nonsense"])]:
        r = U.real_parse(variant, argv=argv)
        load = variant == "load"
        got, _ = _get_fc_calculator_params(r.obj, load_phonopy_yaml=load)
        fc, sym = r.settings["fc_calculator"], bool(r.settings["fc_symmetry"])
        tok = "-" if fc is None else (str(ids[fc.lower()]) if fc.lower() in ids else "?")
        lines.append("fccalc %s %d %d" % (tok, sym, load))
        want.append((fc, sym, load, got))
        if argv == [] and got != ("symfc" if load else "traditional"):
            # symfc is not installed, so the default cannot be observed through outputs: a statement about the modelled rule only
            run.broke("correspondence", "fc-calculator rule: default calculator of %s is %r" % (variant, got), dict(variant=variant, argv=argv))
    out = common.lean_run_driver("C18", lines)
    for (fc, sym, load, got), ans in zip(want, out):
        run.count("fc-calculator default rule", section="correspondence")
        exp = "ok none" if got is None else "ok %d" % ids[got]
        if ans != exp:
            run.broke("correspondence", "fc-calculator rule: model %r, _get_fc_calculator_params %r" % (ans, got), dict(fc_calculator=fc, fc_symmetry=sym, load=load))


# --------------------------------------------------------------------------
# the calculator is named by the yaml file only (no --qe / --abinit … on the command line)
# --------------------------------------------------------------------------

def _unit_value(name, PU):
    """value in eV / Angstrom of a unit name of get_default_physical_units, from the constants of phonopy.units"""
    atom = {"eV": 1.0, "Ry": PU.Rydberg, "mRy": PU.Rydberg / 1000, "hartree": PU.Hartree, "angstrom": 1.0, "au": PU.Bohr}
    name = name.replace("Angstrom", "angstrom")
    top, _, bot = name.partition("/")
    v = atom[top]
    if bot:
        for part in bot.split("."):
            base, _, pw = part.partition("^")
            v /= atom[base] ** (int(pw) if pw else 1)
    return v


def calculator_flows(run, tmp, rng, thorough):
    """One physical crystal (NaCl, pair-potential force constants, Born charges) written in the units of a non-VASP
    calculator into phonopy_params.yaml (`calculator: qe` …).  `phonopy-load` and the yaml fallback of `phonopy`, run
    WITHOUT the calculator option, must give the frequencies of the library call on the same file, the same output as
    with the calculator option repeated, the frequencies of the eV/Angstrom description, and record the calculator's
    NAC unit-conversion factor in phonopy.yaml."""
    import phonopy
    import phonopy.units as PU
    from phonopy import Phonopy
    from phonopy.interface.calculator import calculator_info, get_default_physical_units
    from phonopy.structure.atoms import PhonopyAtoms

    cell, _ = gen.make_cell("nacl_prim")
    dim = [2, 2, 2]
    z = 1.0 + rng.randint(1, 6) / 8.0
    eps = 2.0 + rng.randint(0, 6) / 4.0
    born = np.array([np.eye(3) * z, -np.eye(3) * z])
    qtxt = "0.02 0 0 0.01 0.01 0 0.3 0.2 0.1 1/2 0 0"
    q = np.array([U.fracval(x) for x in qtxt.split()]).reshape(-1, 3)
    ref = Phonopy(cell, supercell_matrix=np.diag(dim), log_level=0)
    fc = gen.pair_fc(ref.supercell, cutoff=4.5)
    ref.force_constants = fc
    ref.run_qpoints(q)
    f_plain = ref.get_qpoints_dict()["frequencies"].copy()
    ref.nac_params = {"born": born, "dielectric": np.eye(3) * eps, "factor": get_default_physical_units(None)["nac_factor"]}
    ref.run_qpoints(q)
    f_ref = ref.get_qpoints_dict()["frequencies"].copy()
    if np.abs(f_ref - f_plain).max() < 1e-2:
        run.broke("harness", "calculator workflow is vacuous: NAC does not change the reference frequencies")
    vasp_nac = get_default_physical_units(None)["nac_factor"]
    others = [c for c in calculator_info if c not in ("qe", "vasp") and get_default_physical_units(c)["nac_factor"] is not None
              and get_default_physical_units(c)["length_unit"] in ("au", "angstrom", "Angstrom")
              and abs(get_default_physical_units(c)["nac_factor"] - vasp_nac) > 1e-3]
    calcs = ["qe"] + ([rng.choice(others)] if not thorough else others)
    flag_of = {c: calculator_info[c]["option"]["name"] for c in calculator_info}
    for calc in calcs:
        u = get_default_physical_units(calc)
        lenu = _unit_value(u["length_unit"], PU)
        fcu = _unit_value(u["force_constants_unit"], PU)
        fl = Flow(run, "units-" + calc, dim, tmp)
        fl.cell = cell
        os.chdir(fl.dir)
        ucell = PhonopyAtoms(cell=cell.cell / lenu, symbols=cell.symbols, scaled_positions=cell.scaled_positions)
        ph = Phonopy(ucell, supercell_matrix=np.diag(dim), calculator=calc, factor=u["factor"], log_level=0)
        ph.generate_displacements(distance=0.01 / lenu)
        sc = ph.supercell
        forces = [-np.einsum("ijab,jb->ia", fc / fcu, scd.positions - sc.positions) for scd in ph.supercells_with_displacements]
        ph.forces = forces
        ph.save("phonopy_params.yaml")
        with open("BORN", "w") as w:
            w.write("default\n" + " ".join("%.12f" % x for x in (np.eye(3) * eps).ravel()) + "\n")
            for b in born:
                w.write(" ".join("%.12f" % x for x in b.ravel()) + "\n")
        # a second input: NAC parameters inside the yaml, without unit conversion factor
        ph.nac_params = {"born": born, "dielectric": np.eye(3) * eps, "factor": u["nac_factor"]}
        ph.save("params_nac.yaml")
        txt = open("params_nac.yaml").read().split("\n")
        k = [i for i, l in enumerate(txt) if l.strip().startswith("unit_conversion_factor:") or l.strip().startswith("nac_unit_conversion_factor:")]
        yaml_nac = bool(k)
        if yaml_nac:
            with open("params_nac.yaml", "w") as w:
                w.write("\n".join(l for i, l in enumerate(txt) if i not in k))
        run.count("calculator workflows: %s" % calc, section="oracle")

        def one(variant, infile, extra, lib_kw, born_file):
            if not born_file and os.path.exists("BORN"):
                os.rename("BORN", "BORN.off")
            if born_file and os.path.exists("BORN.off"):
                os.rename("BORN.off", "BORN")
            for f in ("qpoints.yaml", "phonopy.yaml"):
                if os.path.exists(f):
                    os.remove(f)
            argv = [infile] + extra + ["--qpoints"] + qtxt.split()
            if fl.cmd(variant, argv, must=["qpoints.yaml", "phonopy.yaml"]) is None:
                return
            y = _yaml("qpoints.yaml")
            f_cli = np.array([[b["frequency"] for b in p["band"]] for p in y["phonon"]])
            text = open("qpoints.yaml").read()
            lib = phonopy.load(infile, log_level=0, **lib_kw)
            lib.run_qpoints(q)
            f_lib = lib.get_qpoints_dict()["frequencies"]
            fl.close_freq("qpoints.yaml frequencies (calculator %s named by the yaml only)" % calc, f_cli, f_lib, 2e-10, argv, klass="yaml-calculator-units-ignored")
            # unit invariance: the eV/Angstrom description of the same crystal
            fl.nchecks += 1
            if np.abs(f_lib - f_ref).max() > 1e-6 * max(1.0, np.abs(f_ref).max()):
                # a statement about the library alone (C17's unit invariance), not about the front-end: the reference is unusable
                run.broke("harness", "calculator workflow: library frequencies in %s units differ from the eV/Angstrom description by %.3g (C17's property)" % (
                    calc, float(np.abs(f_lib - f_ref).max())), dict(argv=argv))
            # the summary file records the calculator's NAC factor
            py = _yaml("phonopy.yaml")
            fac = (py.get("nac") or {}).get("unit_conversion_factor", (py.get("phonopy") or {}).get("nac_unit_conversion_factor"))
            fl.nchecks += 1
            if fac is None or abs(float(fac) - u["nac_factor"]) > 2e-6 * max(1.0, u["nac_factor"]):
                fl.bad("yaml-calculator-units-ignored", "phonopy.yaml records NAC unit_conversion_factor %r, calculator %s has %.7f" % (fac, calc, u["nac_factor"]), argv=argv)
            # repeating the calculator option must change nothing
            argv2 = [infile, flag_of[calc]] + extra + ["--qpoints"] + qtxt.split()
            # (phonopy-load only: `phonopy <yaml> --qe` hands the yaml file to the QE structure reader first)
            if variant == "load" and fl.cmd(variant, argv2, must=["qpoints.yaml"]) is not None:
                fl.nchecks += 1
                if open("qpoints.yaml").read() != text:
                    y2 = _yaml("qpoints.yaml")
                    f2 = np.array([[b["frequency"] for b in p["band"]] for p in y2["phonon"]])
                    fl.bad("yaml-calculator-units-ignored", "`%s` changes qpoints.yaml although the yaml file already names calculator %s (max frequency change %.3g)" % (
                        flag_of[calc], calc, float(np.abs(f2 - f_cli).max()) if f2.shape == f_cli.shape else float("nan")), argv=argv2)

        one("load", "phonopy_params.yaml", ["--fc-calc", "traditional"], dict(born_filename="BORN", fc_calculator="traditional"), True)
        one("phonopy", "phonopy_params.yaml", ["--nac"], dict(born_filename="BORN", fc_calculator="traditional", symmetrize_fc=False), True)
        if yaml_nac:
            one("load", "params_nac.yaml", ["--fc-calc", "traditional"], dict(fc_calculator="traditional"), False)
            one("phonopy", "params_nac.yaml", ["--nac"], dict(fc_calculator="traditional", symmetrize_fc=False), False)
        run.cov["oracle"]["workflow comparisons: " + fl.name] = fl.nchecks
        os.chdir(tmp)


# --------------------------------------------------------------------------
# a setting on the command line / in the conf file contradicts what the input yaml stores
# --------------------------------------------------------------------------

def override_flows(run, tmp, rng, thorough):
    """Conventional NaCl (8 atoms, F-centred) saved as phonopy_params.yaml with a stored primitive matrix, NAC
    parameters and a displacement-force dataset.  For `phonopy-load <yaml>` and `phonopy <yaml>`: PRIMITIVE_AXES /
    --pa, NAC on/off, fc symmetry, MESH (conf) vs --mesh, --dim vs the stored supercell matrix must have the
    documented effect, i.e. the outputs equal the library call `phonopy.load(yaml, primitive_matrix=…, is_nac=…,
    symmetrize_fc=…)` that passes the same override, and phonopy.yaml records what was used."""
    import phonopy
    from phonopy import Phonopy

    cell, _ = gen.make_cell("nacl")
    dim = [1, 1, 1]
    fl = Flow(run, "override-nacl-conv", dim, tmp)
    fl.cell = cell
    os.chdir(fl.dir)
    born8 = np.array([np.eye(3) * 1.1] * 4 + [-np.eye(3) * 1.1] * 4)
    qtxt = "0.1 0.2 0.3 1/2 0 0 0.02 0 0"
    q = np.array([U.fracval(x) for x in qtxt.split()]).reshape(-1, 3)
    stored = {}
    for label, pm in (("F", "F"), ("P", "P")):
        ph = Phonopy(cell, supercell_matrix=np.diag(dim), primitive_matrix=pm, log_level=0)
        ph.generate_displacements(distance=0.01, is_plusminus=True)
        fc = gen.pair_fc(ph.supercell, cutoff=4.5)
        forces = []
        for k, scd in enumerate(ph.supercells_with_displacements):
            f = -np.einsum("ijab,jb->ia", fc, scd.positions - ph.supercell.positions)
            # a small asymmetric part so that symmetrising the force constants changes them
            noise = np.array([[((7 * i + 3 * a + 11 * k) % 13 - 6) * 2e-5 for a in range(3)] for i in range(len(f))])
            forces.append(f + noise)
        ph.forces = forces
        ph.save("params_%s.yaml" % label, settings={"force_sets": True, "displacements": True})
        ph.nac_params = {"born": born8[[0, 4]] if pm == "F" else born8, "dielectric": np.eye(3) * 2.5, "factor": 14.399652}
        ph.save("pa_nac_%s.yaml" % label, settings={"force_sets": True, "displacements": True, "born_effective_charge": True, "dielectric_constant": True})
        stored[label] = ph

    def freqs():
        y = _yaml("qpoints.yaml")
        return np.array([[b["frequency"] for b in p["band"]] for p in y["phonon"]]), y

    def run_case(variant, infile, opts, lib_kw, what, extra_check=None, conf=None):
        """one command against the library call with the same override"""
        for f in ("qpoints.yaml", "phonopy.yaml", "mesh.yaml"):
            if os.path.exists(f):
                os.remove(f)
        head = [infile] + (["--fc-calc", "traditional"] if variant == "load" else [])
        if conf is not None:
            U.write_conf("ov.conf", conf)
            head += ["--config", "ov.conf"]
        argv = head + opts + ["--qpoints"] + qtxt.split()
        if fl.cmd(variant, argv, must=["qpoints.yaml", "phonopy.yaml"]) is None:
            return
        kw = dict(fc_calculator="traditional", symmetrize_fc=(variant == "load"), is_nac=(variant == "load"), log_level=0)
        kw.update(lib_kw)
        lib = phonopy.load(infile, **kw)
        lib.run_qpoints(q)
        f_lib = lib.get_qpoints_dict()["frequencies"]
        f_cli, y = freqs()
        case = dict(yaml=infile + ": conventional NaCl (8 atoms), stored primitive_matrix %s, dataset%s" % (infile[-6], ", nac_params" if "nac" in infile else ""), argv=argv, conf=conf,
                    library_call="phonopy.load(%r, %s)" % (infile, ", ".join("%s=%r" % kv for kv in sorted(kw.items()) if kv[0] != "log_level")))
        fl.nchecks += 1
        run.count("workflow comparisons", section="oracle")
        run.count("yaml-contradicting settings: %s" % what, section="oracle")
        ok = f_cli.shape == f_lib.shape
        if ok:
            noise = (np.abs(f_cli) < 1e-4) & (np.abs(f_lib) < 1e-4)
            ok = bool(np.all((np.abs(f_cli - f_lib) <= 2e-10) | noise))
        if not ok:
            run.violation("phonopy_script.main", "setting-does-not-override-yaml-" + what,
                          "%s `%s`: qpoints.yaml has %d bands, the library call with the same override %d%s" % (
                              "phonopy-load" if variant == "load" else "phonopy", " ".join(argv), f_cli.shape[1], f_lib.shape[1],
                              "" if f_cli.shape != f_lib.shape else "; frequencies differ by %.3g" % float(np.abs(f_cli - f_lib).max())), case)
            return
        py = _yaml("phonopy.yaml")
        pm_rec = np.array(py.get("primitive_matrix", np.eye(3)), dtype=float)
        pm_lib = np.eye(3) if lib.primitive_matrix is None else np.asarray(lib.primitive_matrix, dtype=float)
        sm_rec = np.array(py.get("supercell_matrix"), dtype=float)
        fl.nchecks += 1
        if np.abs(pm_rec - pm_lib).max() > 1e-12 or np.abs(sm_rec - lib.supercell_matrix).max() > 0:
            run.violation("phonopy_script.main", "setting-does-not-override-yaml-" + what,
                          "`%s`: phonopy.yaml records primitive_matrix %s / supercell_matrix %s, the library call uses %s / %s" % (
                              " ".join(argv), pm_rec.tolist(), sm_rec.tolist(), pm_lib.tolist(), np.asarray(lib.supercell_matrix).tolist()), case)
        nac_rec = "nac" in py or "born_effective_charge" in py
        fl.nchecks += 1
        if nac_rec != (lib.nac_params is not None):
            run.violation("phonopy_script.main", "setting-does-not-override-yaml-" + what,
                          "`%s`: phonopy.yaml %s NAC parameters, the library call %s them" % (
                              " ".join(argv), "records" if nac_rec else "has no", "uses" if lib.nac_params is not None else "does not use"), case)
        if extra_check is not None:
            extra_check(lib, argv, case)

    for variant in ("load", "phonopy"):
        # ---- primitive axes: option contradicts the stored matrix (24 bands vs 6)
        run_case(variant, "params_F.yaml", ["--pa", "P"], dict(primitive_matrix="P"), "primitive-axes")
        run_case(variant, "params_P.yaml", ["--pa", rng.choice(["F", "auto", "0 1/2 1/2 1/2 0 1/2 1/2 1/2 0"])], dict(primitive_matrix="F"), "primitive-axes")
        run_case(variant, "params_F.yaml", [], dict(), "nothing-given")  # nothing given: the stored matrix is used
        # ---- NAC on/off against the stored nac_params
        if variant == "load":
            run_case(variant, "pa_nac_F.yaml", ["--nonac"], dict(is_nac=False), "nac")
            run_case(variant, "pa_nac_F.yaml", [], dict(), "nac")
            run_case(variant, "pa_nac_F.yaml", [], dict(primitive_matrix="P", is_nac=False), "primitive-axes", conf=["PRIMITIVE_AXES = P", "NAC = .FALSE."])
            run_case(variant, "params_F.yaml", ["--no-fc-symmetry"], dict(symmetrize_fc=False), "fc-symmetry")
            run_case(variant, "params_F.yaml", [], dict(symmetrize_fc=False), "fc-symmetry", conf=["FC_SYMMETRY = .FALSE."])
        else:
            run_case(variant, "pa_nac_F.yaml", ["--nac"], dict(is_nac=True), "nac")
            run_case(variant, "pa_nac_F.yaml", [], dict(is_nac=False), "nac")
            run_case(variant, "params_F.yaml", ["--fc-symmetry"], dict(symmetrize_fc=True), "fc-symmetry")
            # --dim against the stored supercell matrix: the file's matrix is kept (as in phonopy.load)
            run_case(variant, "params_F.yaml", ["--dim", "2", "2", "2"], dict(supercell_matrix=[2, 2, 2]), "supercell")
    # the overrides are not vacuous: P vs F, NAC, symmetrisation change the library result
    a = phonopy.load("pa_nac_F.yaml", fc_calculator="traditional", log_level=0)
    b = phonopy.load("params_F.yaml", fc_calculator="traditional", symmetrize_fc=False, is_nac=False, log_level=0)
    a.run_qpoints(q)
    b.run_qpoints(q)
    c = phonopy.load("params_F.yaml", fc_calculator="traditional", is_nac=False, log_level=0)
    c.run_qpoints(q)
    if np.abs(a.get_qpoints_dict()["frequencies"] - c.get_qpoints_dict()["frequencies"]).max() < 1e-3 or \
            np.abs(b.get_qpoints_dict()["frequencies"] - c.get_qpoints_dict()["frequencies"]).max() < 1e-7:
        run.broke("harness", "override workflow is vacuous: NAC or force-constant symmetrisation does not change the frequencies")
    # ---- MESH in the conf file against --mesh (phonopy-load --config)
    for opts, conf, mesh in ((["--mesh", "3", "3", "3"], ["MESH = 2 2 2"], [3, 3, 3]), ([], ["MESH = 2 2 2"], [2, 2, 2])):
        U.write_conf("mesh.conf", conf)
        argv = ["params_F.yaml", "--fc-calc", "traditional", "--config", "mesh.conf"] + opts
        if fl.cmd("load", argv, must=["mesh.yaml"]) is not None:
            lib = phonopy.load("params_F.yaml", fc_calculator="traditional", log_level=0)
            lib.run_mesh(mesh)
            y = _yaml("mesh.yaml")
            run.count("yaml-contradicting settings: mesh", section="oracle")
            fl.nchecks += 1
            d = lib.get_mesh_dict()
            f_cli = np.array([[b_["frequency"] for b_ in p["band"]] for p in y["phonon"]])
            if list(y["mesh"]) != mesh or f_cli.shape != d["frequencies"].shape or not np.all(
                    (np.abs(f_cli - d["frequencies"]) <= 2e-10) | ((np.abs(f_cli) < 1e-4) & (np.abs(d["frequencies"]) < 1e-4))):
                run.violation("phonopy_script.main", "setting-does-not-override-yaml-mesh",
                              "`phonopy-load %s` with conf %s: mesh.yaml has mesh %s, expected %s as in run_mesh(%s)" % (" ".join(argv), conf, y["mesh"], mesh, mesh),
                              dict(argv=argv, conf=conf))
    run.cov["oracle"]["workflow comparisons: " + fl.name] = fl.nchecks
    os.chdir(tmp)


# --------------------------------------------------------------------------
# boundary values: numeric settings at exactly 0 (and other edge values) through the workflows
# --------------------------------------------------------------------------

# numeric settings without a zero-valued workflow case, and why
NO_ZERO_CASE = {
    "fpitch": "0 is not a legal frequency pitch (empty / infinite frequency grid)",
    "gv_delta_q": "0 is not a legal finite-difference step",
    "symmetry_tolerance": "0 is not a legal tolerance (no symmetry operation is found)",
    "tstep": "0 is not a legal temperature step",
    "cutoff_radius": "radius 0 has no specified meaning (the library call zeroes every force constant)",
    "sscha_iterations": "pypolymlp is not installed",
    "displacement_distance_max": "only meaningful as the upper end of a random-distance range",
    "random_seed": "covered by the workflow `-d --rd 2 --random-seed 0` of every crystal",
    "random_displacements": "0 means no random displacements",
    "fmax": "covered together with fmin (0 as the lower end)",
    "band_points": "covered by the edge value 2 (0 and 1 points per segment are not legal)",
}


def boundary_flows(run, tmp, flow, tb, rng, thorough):
    """every numeric setting that reaches a workflow, at exactly 0 (or its smallest legal value), by option and by
    tag, in both commands, against the library call with the same value"""
    import phonopy
    from phonopy import Phonopy
    from phonopy.file_IO import parse_FORCE_SETS
    from phonopy.phonon.band_structure import get_band_qpoints

    src = flow.dir
    dimv = [str(x) for x in flow.dim]
    fl = Flow(run, "boundary-" + flow.name, flow.dim, tmp)
    fl.cell = flow.cell

    def lib_obj(variant, **kw):
        if variant == "load":
            return phonopy.load("phonopy_params.yaml", fc_calculator="traditional", symmetrize_fc=False, log_level=0, **kw)
        ph = Phonopy(flow.cell, supercell_matrix=np.diag(flow.dim), log_level=0, **kw)
        ph.dataset = parse_FORCE_SETS(natom=len(ph.supercell), filename="FORCE_SETS")
        ph.produce_force_constants(calculate_full_force_constants=False, fc_calculator="traditional")
        return ph

    def disp_yaml():
        from phonopy.interface.phonopy_yaml import PhonopyYaml

        py = PhonopyYaml()  # (phonopy.load would replace the dataset by the FORCE_SETS of the directory)
        py.read("phonopy_disp.yaml")
        ds = py.dataset
        if "displacements" in ds:
            return np.asarray(ds["displacements"])
        return np.array([[x["number"]] + list(x["displacement"]) for x in ds["first_atoms"]], dtype=float)

    def disp_lib(ph):
        ds = ph.dataset
        if "displacements" in ds:
            return np.asarray(ds["displacements"])
        return np.array([[x["number"]] + list(x["displacement"]) for x in ds["first_atoms"]], dtype=float)

    def tprop_file():
        return np.array([[x["temperature"], x["free_energy"], x["entropy"], x["heat_capacity"]] for x in _yaml("thermal_properties.yaml")["thermal_properties"]])

    def tprop_lib(ph, **kw):
        ph.run_mesh([2, 2, 2])
        ph.run_thermal_properties(**kw)
        d = ph.get_thermal_properties_dict()
        return np.c_[d["temperatures"], d["free_energy"], d["entropy"], d["heat_capacity"]]

    def qfreq_file(name="qpoints.yaml"):
        return np.array([[b["frequency"] for b in p["band"]] for p in _yaml(name)["phonon"]])

    def rd_lib(v, T):
        ph = lib_obj(v)
        ph.generate_displacements(number_of_snapshots=2, temperature=T, random_seed=7)
        return disp_lib(ph)

    def dos_lib(v, **kw):
        ph = lib_obj(v)
        ph.run_mesh([2, 2, 2])
        ph.run_total_dos(**kw)
        d = ph.get_total_dos_dict()
        return np.c_[d["frequency_points"], d["total_dos"]]

    def q_lib(v, **kw):
        ph = lib_obj(v, **kw)
        ph.run_qpoints([[0.1, 0.2, 0.3]])
        return ph.get_qpoints_dict()["frequencies"]

    def band_lib(v, n):
        ph = lib_obj(v)
        ph.run_band_structure(get_band_qpoints([np.array([[0, 0, 0], [0.5, 0, 0]])], npoints=n))
        return np.concatenate(ph.get_band_structure_dict()["frequencies"])

    def tdm_lib(v):
        ph = lib_obj(v)
        ph.init_mesh([2, 2, 2], with_eigenvectors=True, is_mesh_symmetry=False, use_iter_mesh=True)
        ph.run_thermal_displacement_matrices(temperatures=[0.0])
        m = np.asarray(ph.get_thermal_displacement_matrices_dict()["thermal_displacement_matrices"])
        # the yaml file lists xx yy zz yz xz xy
        return np.stack([m[..., 0, 0], m[..., 1, 1], m[..., 2, 2], m[..., 1, 2], m[..., 0, 2], m[..., 0, 1]], axis=-1).real

    def tdm_file():
        y = _yaml("thermal_displacement_matrices.yaml")
        return np.array([[a for a in t["displacement_matrices"]] for t in y["thermal_displacement_matrices"]], dtype=float)

    def mesh1_lib(v):
        ph = lib_obj(v)
        ph.run_mesh([1, 1, 1])
        return ph.get_mesh_dict()["frequencies"]

    def moment_lib(v):
        ph = lib_obj(v)
        ph.run_mesh([2, 2, 2], with_eigenvectors=True, is_mesh_symmetry=False)
        ph.run_moment(order=0, is_projection=False)
        tot = ph.get_moment()
        ph.run_moment(order=0, is_projection=True)
        return np.array([tot] + list(ph.get_moment()))

    def moment_out(out):
        row = [ln for ln in out.split("\n") if ln.strip().startswith("0 |")]
        return np.array([float(x) for x in row[0].replace("|", " ").split()[1:]]) if row else np.zeros(0)

    def disp_amp_lib(v):
        ph = Phonopy(flow.cell, supercell_matrix=np.diag(flow.dim), log_level=0)
        ph.generate_displacements(distance=0.0)
        return disp_lib(ph)

    def dim1_lib(v):
        ph = Phonopy(flow.cell, supercell_matrix=np.eye(3, dtype=int), log_level=0)
        ph.generate_displacements()
        return disp_lib(ph)

    mesh_t = (["--mesh", "2", "2", "2", "-t"], ["MESH = 2 2 2", "TPROP = .TRUE."])
    rd = (["--rd", "2", "--random-seed", "7"], ["RANDOM_DISPLACEMENTS = 2", "RANDOM_SEED = 7"])
    # tag -> (mode argv, mode conf, option, conf line, output -> array, library -> array, tolerance, variants, fresh dir without displacement file)
    CASES = {
        "random_displacement_temperature": (rd[0], rd[1], ["--rd-temperature", "0"], "RANDOM_DISPLACEMENT_TEMPERATURE = 0", lambda o: disp_yaml(), lambda v: rd_lib(v, 0), 1e-12, ("phonopy", "load")),
        "random_displacement_temperature 300": (rd[0], rd[1], ["--rd-temperature", "300"], "RANDOM_DISPLACEMENT_TEMPERATURE = 300", lambda o: disp_yaml(), lambda v: rd_lib(v, 300), 1e-12, ("phonopy", "load")),
        "tmax": (mesh_t[0], mesh_t[1], ["--tmax", "0"], "TMAX = 0", lambda o: tprop_file(), lambda v: tprop_lib(lib_obj(v), t_min=0, t_max=0, t_step=10), 2e-7, ("phonopy", "load")),
        "tmin": (mesh_t[0] + ["--tmax", "100", "--tstep", "50"], mesh_t[1] + ["TMAX = 100", "TSTEP = 50"], ["--tmin", "0"], "TMIN = 0", lambda o: tprop_file(),
                 lambda v: tprop_lib(lib_obj(v), t_min=0, t_max=100, t_step=50), 2e-7, ("phonopy", "load")),
        "cutoff_frequency": (mesh_t[0] + ["--tmax", "100", "--tstep", "50"], mesh_t[1] + ["TMAX = 100", "TSTEP = 50"], ["--cutoff-freq", "0"], "CUTOFF_FREQUENCY = 0",
                             lambda o: tprop_file(), lambda v: tprop_lib(lib_obj(v), t_min=0, t_max=100, t_step=50, cutoff_frequency=0.0), 2e-7, ("phonopy", "load")),
        "sigma": (["--mesh", "2", "2", "2", "--dos"], ["MESH = 2 2 2", "DOS = .TRUE."], ["--sigma", "0"], "SIGMA = 0", lambda o: _dat("total_dos.dat"), lambda v: dos_lib(v, sigma=0.0), 2e-9, ("phonopy", "load")),
        "fmin": (["--mesh", "2", "2", "2", "--dos"], ["MESH = 2 2 2", "DOS = .TRUE."], ["--fmin", "0"], "FMIN = 0", lambda o: _dat("total_dos.dat"), lambda v: dos_lib(v, freq_min=0.0), 2e-9, ("phonopy", "load")),
        "frequency_conversion_factor": (["--qpoints", "0.1", "0.2", "0.3"], ["QPOINTS = 0.1 0.2 0.3"], ["--factor", "0"], "FREQUENCY_CONVERSION_FACTOR = 0", lambda o: qfreq_file(),
                                        lambda v: q_lib(v, factor=0.0), 2e-10, ("phonopy", "load")),
        "fc_decimals": (["--qpoints", "0.1", "0.2", "0.3"], ["QPOINTS = 0.1 0.2 0.3"], ["--fc-decimals", "0"], "FC_DECIMALS = 0", lambda o: qfreq_file(),
                        lambda v: q_lib(v, force_constants_decimals=0), 2e-10, ("phonopy",)),
        "dm_decimals": (["--qpoints", "0.1", "0.2", "0.3"], ["QPOINTS = 0.1 0.2 0.3"], ["--dm-decimals", "0"], "DM_DECIMALS = 0", lambda o: qfreq_file(),
                        lambda v: q_lib(v, dynamical_matrix_decimals=0), 2e-10, ("phonopy",)),
        "band_points": (["--band", "0", "0", "0", "1/2", "0", "0"], ["BAND = 0 0 0 1/2 0 0"], ["--band-points", "2"], "BAND_POINTS = 2", lambda o: qfreq_file("band.yaml"), lambda v: band_lib(v, 2), 2e-10, ("phonopy", "load")),
        "tdispmat_cif": (["--mesh", "2", "2", "2"], ["MESH = 2 2 2"], ["--tdm-cif", "0"], "TDISPMAT_CIF = 0", lambda o: tdm_file(), tdm_lib, 6e-6, ("phonopy", "load")),
        "mesh_numbers": ([], [], ["--mesh", "1", "1", "1"], "MESH = 1 1 1", lambda o: qfreq_file("mesh.yaml"), mesh1_lib, 2e-10, ("phonopy", "load")),
        "moment_order": (["--mesh", "2", "2", "2", "--moment"], ["MESH = 2 2 2", "MOMENT = .TRUE."], ["--moment-order", "0"], "MOMENT_ORDER = 0", moment_out, moment_lib, 2e-5, ("phonopy", "load")),
        "displacement_distance": (["-d"], ["CREATE_DISPLACEMENTS = .TRUE."], ["--amplitude", "0"], "DISPLACEMENT_DISTANCE = 0", lambda o: disp_yaml(), disp_amp_lib, 1e-14, ("phonopy",)),
        "dim": (["-d"], ["CREATE_DISPLACEMENTS = .TRUE."], ["--dim", "1", "1", "1"], "DIM = 1 1 1", lambda o: disp_yaml(), dim1_lib, 1e-14, ("phonopy",)),
    }
    numeric = sorted({r["tag"] for r in tb["opt_rules"] if r["numeric"]} | {"sigma", "mesh_numbers", "dim", "random_displacements"}) if tb else sorted(k.split()[0] for k in CASES)
    report = {}
    for tag in numeric:
        if tag in CASES:
            report[tag] = "0-valued workflow case"
        elif tag in NO_ZERO_CASE:
            report[tag] = "no case: " + NO_ZERO_CASE[tag]
        else:
            report[tag] = "NOT COVERED"
            run.broke("coverage", "numeric setting %s has neither a zero-valued workflow case nor a recorded reason (harness/props/c18_flow.py CASES / NO_ZERO_CASE)" % tag)
    report["q_direction"] = "no case: the zero vector has no direction (the library normalises it)"
    report["fc_symmetry off / mesh / dim of the stored yaml"] = "covered by override_flows and the main workflows"
    run.cov["oracle"]["numeric settings at 0 through the workflows"] = report

    names = list(CASES)
    if not thorough and not os.environ.get("C18_ALL_BOUNDARY"):  # quick: the displacement temperature always, half of the others
        rest = [n for n in names if not n.startswith("random_displacement_temperature")]
        rng.shuffle(rest)
        names = ["random_displacement_temperature"] + rest[: len(rest) // 2 + 1]
    for name in names:
        mode_argv, mode_conf, opt, tagline, extract, lib, tol, variants = CASES[name]
        for variant in variants:
            want, lib_err = None, None
            # the library call runs in a directory that holds the same inputs as the command's (and nothing else:
            # phonopy.load picks up FORCE_CONSTANTS / BORN of the current directory)
            dl = os.path.join(fl.dir, "lib")
            shutil.rmtree(dl, ignore_errors=True)
            os.makedirs(dl)
            for f in ("POSCAR", "FORCE_SETS", "phonopy_params.yaml"):
                shutil.copy(os.path.join(src, f), os.path.join(dl, f))
            os.chdir(dl)
            try:
                with contextlib.redirect_stdout(io.StringIO()):
                    want = np.asarray(lib(variant), dtype=float)
            except Exception as e:  # the library rejects the value: the command must not silently do something else
                lib_err = "%s: %s" % (type(e).__name__, e)
            routes = ("opt", "tag") if thorough or os.environ.get("C18_ALL_BOUNDARY") or name.startswith("random_displacement_temperature") else (rng.choice(["opt", "tag"]),)
            for route in routes:
                d = os.path.join(fl.dir, "case")
                shutil.rmtree(d, ignore_errors=True)
                os.makedirs(d)
                for f in ("POSCAR", "FORCE_SETS", "phonopy_params.yaml"):
                    shutil.copy(os.path.join(src, f), os.path.join(d, f))
                os.chdir(d)
                uses_dim_opt = "--dim" in opt
                if variant == "phonopy":
                    if route == "opt":
                        argv = ([] if uses_dim_opt else ["--dim"] + dimv) + ["-c", "POSCAR"] + mode_argv + opt
                        conf = None
                    else:
                        conf = ([] if tagline.startswith("DIM") else ["DIM = " + " ".join(dimv)]) + mode_conf + [tagline]
                        argv = ["z.conf", "-c", "POSCAR"]
                else:
                    head = ["phonopy_params.yaml", "--fc-calc", "traditional", "--no-fc-symmetry"]
                    if route == "opt":
                        argv, conf = head + mode_argv + opt, None
                    else:
                        conf = mode_conf + [tagline]
                        argv = head + ["--config", "z.conf"]
                if conf is not None:
                    U.write_conf("z.conf", conf)
                code, out, exc = run_main(variant, argv)
                run.case(("boundary", name, variant, route), nontrivial=True)
                run.count("boundary-value workflows", section="oracle")
                run.count("command: %s %s" % (variant, " ".join(a for a in argv if a.startswith("-"))))
                case = dict(crystal=flow.name, setting=name, variant=variant, argv=argv, conf=conf)
                cmdtxt = "%s %s%s" % ("phonopy-load" if variant == "load" else "phonopy", " ".join(argv), "" if conf is None else " with conf %s" % conf)
                if lib_err is not None:
                    if exc is None and code == 0:
                        run.count("boundary value rejected by the library, accepted by the command", section="oracle")
                    continue
                if exc is not None or code != 0:
                    run.violation("phonopy_script.main", "boundary-value-command-fails",
                                  "`%s` %s although the library call with the same value succeeds" % (
                                      cmdtxt, "raises %s: %s" % (type(exc).__name__, exc) if exc is not None else "exits with %r: %s" % (code, out[-200:])), case)
                    continue
                try:
                    got = np.asarray(extract(out), dtype=float)
                except Exception as e:
                    run.violation("phonopy_script.main", "output-missing", "`%s`: expected output cannot be read (%s: %s)" % (cmdtxt, type(e).__name__, e), case)
                    continue
                ok = got.shape == want.shape
                if ok and got.size:
                    noise = (np.abs(got) < 1e-4) & (np.abs(want) < 1e-4) if "freq" in name or name in ("mesh_numbers", "band_points", "fc_decimals", "dm_decimals") else np.zeros(got.shape, bool)
                    both_nan = np.isnan(got) & np.isnan(want)
                    ok = bool(np.all((np.abs(got - want) <= tol) | noise | both_nan))
                if not ok:
                    run.violation("phonopy_script.main", "boundary-value-differs-from-library",
                                  "`%s`: the output differs from the library call with %s (%s)" % (
                                      cmdtxt, tagline, "shape %s vs %s" % (got.shape, want.shape) if got.shape != want.shape else "max difference %.3g" % float(np.nanmax(np.abs(got - want)))), case)
    os.chdir(tmp)


# --------------------------------------------------------------------------
# mixed runs: a conf-file tag that the option must supersede, observed through the files written
# --------------------------------------------------------------------------

MIXED = [
    # (superseded file lines, option argv, name)
    (["TDISP = .TRUE."], ["--mesh", "2", "2", "2", "-t", "--tmax", "100", "--tstep", "50"], "TDISP + -t"),
    (["QPOINTS = 0 0 0"], ["--mesh", "2", "2", "2"], "QPOINTS + --mesh"),
    (["BAND = 0 0 0 1/2 0 0", "BAND_POINTS = 3"], ["--mesh", "2", "2", "2"], "BAND + --mesh"),
    (["MESH = 2 2 2"], ["--band", "0", "0", "0", "1/2", "0", "0", "--band-points", "3"], "MESH + --band"),
    (["DOS_RANGE = 0 8 0.1"], ["--mesh", "2", "2", "2", "--dos", "--fpitch", "0.05"], "DOS_RANGE + --fpitch"),
]


def precedence_flows(run, tmp, flow):
    """`phonopy <conf> -c POSCAR <options>` and `phonopy-load <yaml> --config <conf> <options>`: the set of output files
    (and the frequency pitch of total_dos.dat) must be that of the same command with the superseded tag deleted from
    the conf file — the documented rule that a command-line option supersedes the configuration-file tag"""
    src = flow.dir
    dimv = [str(x) for x in flow.dim]
    fl = Flow(run, "mixed-" + flow.name, flow.dim, tmp)
    fl.cell = flow.cell

    def one(variant, lines, argv):
        d = os.path.join(fl.dir, "case")
        shutil.rmtree(d, ignore_errors=True)
        os.makedirs(d)
        for f in ("POSCAR", "FORCE_SETS", "phonopy_params.yaml"):
            shutil.copy(os.path.join(src, f), os.path.join(d, f))
        os.chdir(d)
        before = set(os.listdir("."))
        if variant == "phonopy":
            U.write_conf("m.conf", ["DIM = " + " ".join(dimv)] + lines)
            full = ["m.conf", "-c", "POSCAR"] + argv
        else:
            U.write_conf("m.conf", lines or ["# empty"])
            full = ["phonopy_params.yaml", "--fc-calc", "traditional", "--config", "m.conf"] + argv
        code, out, exc = run_main(variant, full)
        files = sorted(f for f in set(os.listdir(".")) - before if f in OUTPUTS)
        pitch = None
        if "total_dos.dat" in files:
            t = _dat("total_dos.dat")
            pitch = round(float(t[1, 0] - t[0, 0]), 6) if len(t) > 1 else None
        return code, exc, files, pitch, full

    for lines, argv, name in MIXED:
        for variant in ("phonopy", "load"):
            m = one(variant, lines, argv)
            r = one(variant, [], argv)
            run.case(("mixed-flow", variant, name), nontrivial=True)
            run.count("mixed conf + option workflows", section="oracle")
            run.count("command: %s mixed %s" % (variant, name))
            if m[1] is not None or r[1] is not None or m[0] != r[0]:
                if (m[1] is None) != (r[1] is None) or m[0] != r[0]:
                    run.violation("phonopy_script.main", "option-does-not-supersede-file-tag",
                                  "%s: `%s` with %s in the conf file ends with %r / %r, without the tag %r / %r" % (name, " ".join(m[4]), lines, m[0], m[1], r[0], r[1]),
                                  dict(variant=variant, conf=lines, argv=m[4]))
                continue
            if m[2] != r[2] or m[3] != r[3]:
                run.violation("phonopy_script.main", "option-does-not-supersede-file-tag",
                              "%s: `%s %s` with %s in the conf file writes %s%s; with the superseded tag deleted from the file it writes %s%s" % (
                                  name, "phonopy-load" if variant == "load" else "phonopy", " ".join(m[4]), lines, m[2], "" if m[3] is None else " (DOS pitch %g)" % m[3],
                                  r[2], "" if r[3] is None else " (DOS pitch %g)" % r[3]),
                              dict(variant=variant, conf=lines, argv=m[4], files_mixed=m[2], files_option_only=r[2]))
    os.chdir(tmp)


# --------------------------------------------------------------------------
# description invariance: the input cell given with relabelled (left-handed) lattice vectors
# --------------------------------------------------------------------------

def lefthanded_flows(run, tmp, rng, thorough):
    """Conventional NaCl given once as it is and once with relabelled lattice vectors (always a det -1 relabelling:
    a left-handed cell), as POSCAR for `phonopy` and as phonopy_params.yaml for `phonopy-load`, with --pa auto / F,
    NAC from a BORN file, q-points, an odd mesh with thermal properties, a band path.
    (1) every output file equals the library call on the same (left-handed) cell [C18: a failing input];
    (2) the spectra / thermal properties of the two descriptions agree at the same Cartesian q
        [a library matter when (1) holds: recorded as broken description invariance, not as a C18 violation]."""
    from phonopy import Phonopy
    from phonopy.file_IO import parse_BORN, parse_FORCE_SETS
    from phonopy.interface.phonopy_yaml import PhonopyYaml
    from phonopy.phonon.band_structure import get_band_qpoints

    cell0, _ = gen.make_cell("nacl")
    # always one det -1 relabelling (left-handed cell) and one det +1 relabelling (non-reduced / permuted right-handed basis)
    pick = [rng.choice(["swap12", "negate3", "invert"]), rng.choice(["shear", "cyclic"])] if not thorough else ["swap12", "negate3", "invert", "shear", "cyclic"]
    pa = rng.choice(["auto", "F"])
    qc = np.array([[0.013, 0.0, 0.0], [0.031, 0.047, 0.011], [0.09, 0.02, 0.05]])  # Cartesian q (1/Angstrom, without 2 pi)
    band_c = np.array([[0.0, 0.0, 0.0], [0.08, 0.03, 0.0]])
    z, eps = 1.1, 2.4

    def fmt(v):
        return ["%.15g" % x for x in np.ravel(v)]

    def describe(cell, label, smat, pa):
        """-> dict(freq=…, tprop=…) of the library on this description, after comparing every command output with it"""
        fl = Flow(run, "lh-" + label, [1, 1, 1], tmp)
        fl.cell = cell
        os.chdir(fl.dir)
        dimv = [str(x) for x in (np.diag(smat) if (smat == np.diag(np.diag(smat))).all() else smat.ravel())]
        base = ["--dim"] + dimv + ["-c", "POSCAR", "--pa", pa]
        write_poscar("POSCAR", cell)
        try:
            lib = Phonopy(cell, supercell_matrix=smat, primitive_matrix=pa, log_level=0)
        except Exception as e:
            return dict(lib_error="%s: %s" % (type(e).__name__, e), flow=fl)
        lib.generate_displacements()
        argv = ["-d"] + base
        code, out, exc = run_main("phonopy", argv)
        run.count("commands run", section="oracle")
        run.count("relabelled input workflows: %s" % label.split("-")[0], section="oracle")
        if cell.volume < 0 and exc is None and code == 1 and "right-hand rule" in out and not os.path.exists("phonopy_disp.yaml"):
            # collect_cell_info refuses left-handed lattice vectors with a message (by design): the rejecting branch.
            # The same must happen for a yaml input of the same cell, in both commands, and nothing may be written.
            lib.save("lh_params.yaml", settings={"displacements": True})
            for variant, av in (("load", ["lh_params.yaml", "--fc-calc", "traditional", "--qpoints", "0", "0", "0"]), ("phonopy", ["lh_params.yaml", "-d"])):
                before = set(os.listdir("."))
                c2, o2, e2 = run_main(variant, av)
                run.count("commands run", section="oracle")
                run.count("left-handed cell rejected with a message", section="oracle")
                new_files = sorted(f for f in set(os.listdir(".")) - before if f in OUTPUTS)
                if e2 is not None or c2 != 1 or "right-hand rule" not in o2 or new_files:
                    run.violation("phonopy_script.main", "left-handed-input-not-rejected-consistently",
                                  "`phonopy -d -c POSCAR` refuses the left-handed cell (%s) with a message, but `%s %s` on the yaml of the same cell %s" % (
                                      label, variant, " ".join(av), "raises %s: %s" % (type(e2).__name__, e2) if e2 is not None else "exits with %r and writes %s" % (c2, new_files)),
                                  dict(description=label, lattice=cell.cell.tolist(), argv=av))
            return dict(rejected=True, flow=fl)
        if exc is not None or code != 0:
            run.violation("phonopy_script.main", "left-handed-input-command-fails",
                          "%s (lattice vectors relabelled by %s, volume %.3f): `phonopy %s` %s, the library call Phonopy(cell, primitive_matrix=%r) succeeds" % (
                              "NaCl conventional cell", label, cell.volume, " ".join(argv), "raises %s: %s" % (type(exc).__name__, exc) if exc is not None else "exits with %r: %s" % (code, out[-300:]), pa),
                          dict(description=label, lattice=cell.cell.tolist(), argv=argv))
            return dict(flow=fl)
        py = PhonopyYaml()
        py.read("phonopy_disp.yaml")
        d_cli = np.array([[x["number"]] + list(x["displacement"]) for x in py.dataset["first_atoms"]], dtype=float)
        d_lib = np.array([[x["number"]] + list(x["displacement"]) for x in lib.dataset["first_atoms"]], dtype=float)
        fl.close("phonopy_disp.yaml displacements (%s)" % label, d_cli, d_lib, 1e-14, argv, klass="left-handed-input-differs-from-library")
        sc = lib.supercell
        fc = gen.pair_fc(sc, cutoff=4.5)
        vs = []
        for i, scd in enumerate(lib.supercells_with_displacements):
            write_vasprun("vasprun.xml-%03d" % (i + 1), scd, -np.einsum("ijab,jb->ia", fc, scd.positions - sc.positions))
            vs.append("vasprun.xml-%03d" % (i + 1))
        if fl.cmd("phonopy", ["-f"] + vs, must=["FORCE_SETS"]) is None or fl.cmd("phonopy", ["-f"] + vs + ["--sp"], must=["phonopy_params.yaml"]) is None:
            return dict(flow=fl)
        prim = lib.primitive
        q_red = (np.asarray(prim.cell) @ qc.T).T
        b_red = (np.asarray(prim.cell) @ band_c.T).T
        with open("BORN", "w") as w:
            w.write("default\n" + " ".join("%.10f" % x for x in (np.eye(3) * eps).ravel()) + "\n")
            for i in lib.primitive_symmetry.get_independent_atoms():
                zz = z if prim.symbols[i] == "Na" else -z
                w.write(" ".join("%.10f" % x for x in (np.eye(3) * zz).ravel()) + "\n")
        lib.dataset = parse_FORCE_SETS(natom=len(sc), filename="FORCE_SETS")
        lib.produce_force_constants(calculate_full_force_constants=False, fc_calculator="traditional")
        nac = parse_BORN(lib.primitive, filename="BORN")
        if "factor" not in nac:
            from phonopy.interface.calculator import get_default_physical_units

            nac["factor"] = get_default_physical_units(None)["nac_factor"]
        lib.nac_params = nac

        def results(ph):
            ph.run_qpoints(q_red)
            f = ph.get_qpoints_dict()["frequencies"].copy()
            ph.run_mesh([3, 3, 3])
            ph.run_thermal_properties(t_min=0, t_max=300, t_step=100, cutoff_frequency=0.05)
            t = ph.get_thermal_properties_dict()
            ph.run_band_structure(get_band_qpoints([b_red], npoints=5))
            return f, np.c_[t["temperatures"], t["free_energy"], t["entropy"], t["heat_capacity"]], np.concatenate(ph.get_band_structure_dict()["frequencies"])

        import phonopy

        f_lib, tp_lib, bd_lib = results(lib)
        # phonopy-load reads the dataset as printed in phonopy_params.yaml: its library counterpart is phonopy.load on that file
        lib_load = results(phonopy.load("phonopy_params.yaml", primitive_matrix=pa, fc_calculator="traditional", symmetrize_fc=False, born_filename="BORN", log_level=0))
        kl = "left-handed-input-differs-from-library"
        results_of = {"phonopy": (f_lib, tp_lib, bd_lib), "load": lib_load}
        for variant, head in (("phonopy", base + ["--nac"]), ("load", ["phonopy_params.yaml", "--fc-calc", "traditional", "--no-fc-symmetry", "--pa", pa])):
            f_lib, tp_lib, bd_lib = results_of[variant]
            argv = head + ["--qpoints"] + fmt(q_red)
            if fl.cmd(variant, argv, must=["qpoints.yaml"]) is not None:
                y = _yaml("qpoints.yaml")
                fl.close_freq("qpoints.yaml frequencies with NAC (%s, %s)" % (label, variant), [[b["frequency"] for b in p["band"]] for p in y["phonon"]], f_lib, 2e-10, argv, klass=kl)
            argv = head + ["--mesh", "3", "3", "3", "-t", "--tmax", "300", "--tstep", "100", "--cutoff-freq", "0.05"]
            if fl.cmd(variant, argv, must=["thermal_properties.yaml"]) is not None:
                tpf = np.array([[x["temperature"], x["free_energy"], x["entropy"], x["heat_capacity"]] for x in _yaml("thermal_properties.yaml")["thermal_properties"]])
                fl.close("thermal_properties.yaml (%s, %s)" % (label, variant), tpf, tp_lib, 2e-7, argv, klass=kl)
            argv = head + ["--band"] + fmt(b_red) + ["--band-points", "5"]
            if fl.cmd(variant, argv, must=["band.yaml"]) is not None:
                y = _yaml("band.yaml")
                fl.close_freq("band.yaml frequencies with NAC (%s, %s)" % (label, variant), [[b["frequency"] for b in p["band"]] for p in y["phonon"]], bd_lib, 2e-10, argv, klass=kl)
        run.cov["oracle"]["workflow comparisons: " + fl.name] = fl.nchecks
        f_lib, tp_lib, bd_lib = results_of["phonopy"]
        return dict(freq=np.sort(f_lib, axis=1), tprop=tp_lib, band=np.sort(bd_lib, axis=1), flow=fl, natom_prim=len(prim))

    nviol = len(run.violations)
    refs = {}
    for name in pick:
        M = gen.UNIMODULAR[name]
        pa_n = "auto" if name == "shear" else pa  # the centring letters presuppose the conventional axes
        if pa_n not in refs:
            refs[pa_n] = describe(cell0, "identity-" + pa_n, np.eye(3, dtype=int), pa_n)
        ref = refs[pa_n]
        cellL, qmap, smap = gen.relabelled_cell(cell0, M)
        res = describe(cellL, "%s-det%+d" % (name, int(round(np.linalg.det(np.array(M))))), smap(np.eye(3, dtype=int)), pa_n)
        run.case(("left-handed", name, pa), nontrivial=True)
        if res.get("rejected"):
            continue
        if "lib_error" in res:
            run.broke("description-invariance", "the library rejects NaCl with lattice vectors relabelled by %s (primitive_matrix=%r): %s — the command cannot be compared (C04/C08 matter)" % (
                name, pa, res["lib_error"]))
            continue
        if "freq" not in res or "freq" not in ref:
            continue
        # (2) the two descriptions of the same crystal: the same physical quantities
        for key, tol, what in (("freq", 1e-6, "frequencies with NAC at the same Cartesian q"), ("band", 1e-6, "band frequencies"), ("tprop", 1e-5, "thermal properties")):
            a, b = ref[key], res[key]
            if key == "band" and a.shape == b.shape and len(a) > 1:
                # the Gamma end of the path with NAC depends on how the limiting direction is taken in each basis
                # (a library matter, C08): recorded, not compared
                run.cov["oracle"]["description invariance: |difference| at the Gamma end of the band path with NAC (%s)" % name] = float(np.abs(a[0] - b[0]).max())
                a, b = a[1:], b[1:]
            run.count("description invariance comparisons", section="oracle")
            ok = a.shape == b.shape and bool(np.all((np.abs(a - b) <= tol * max(1.0, np.abs(a).max())) | ((np.abs(a) < 1e-4) & (np.abs(b) < 1e-4))))
            if not ok:
                msg = "NaCl with lattice vectors relabelled by %s (--pa %s): %s differ from the original description by %s" % (
                    name, pa, what, "shape %s vs %s" % (a.shape, b.shape) if a.shape != b.shape else "%.3g" % float(np.abs(a - b).max()))
                # command and library agree on each description (checked above), so this is the library's description
                # dependence (C04 / C08), not a front-end defect
                run.broke("description-invariance", msg + (" [commands equal the library on both descriptions]" if len(run.violations) == nviol else ""))
    os.chdir(tmp)


# --------------------------------------------------------------------------
# the LAMMPS route: forces come in the LAMMPS frame (lower-triangular box with positive diagonal)
# --------------------------------------------------------------------------

def lammps_flows(run, tmp, rng, thorough):
    """`phonopy --lammps`: -d (unit cell from a LAMMPS structure file, supercells written for LAMMPS), -f / --fz with
    synthetic LAMMPS dump files whose forces are in the LAMMPS frame (rotation obtained independently: Cholesky of
    the metric), for supercell bases that are already LAMMPS-oriented, lower triangular with NEGATIVE diagonal
    entries (negative DIM entries / a unit cell given that way in a yaml), and generically oriented.
    Oracle: FORCE_SETS holds the model forces in the phonopy frame (what the library is given), and the
    frequencies computed from it equal the library's."""
    import phonopy
    from phonopy import Phonopy
    from phonopy.file_IO import parse_FORCE_SETS
    from phonopy.interface.lammps import read_lammps, write_lammps
    from phonopy.interface.phonopy_yaml import PhonopyYaml
    from phonopy.structure.atoms import PhonopyAtoms

    from .c17_forces import _lammps_rotation, write_output

    L0 = np.array([[3.0, 0.0, 0.0], [-1.5, 2.6, 0.0], [0.3, 0.2, 4.6]])
    pos = [[0, 0, 0], [1 / 3, 2 / 3, 0.5]]
    th = 0.3 + 0.1 * rng.randint(0, 9)
    ax = np.array([1.0, 2.0, 0.5]) / np.linalg.norm([1.0, 2.0, 0.5])
    K = np.array([[0, -ax[2], ax[1]], [ax[2], 0, -ax[0]], [-ax[1], ax[0], 0]])
    R = np.eye(3) + np.sin(th) * K + (1 - np.cos(th)) * K @ K
    flip = np.diag([-1.0, -1.0, 1.0])  # a proper rotation by 180 degrees about z: lower triangular with negative a_x, b_y
    # (name, unit-cell lattice, DIM as given, unit cell through a LAMMPS structure file?)
    cases = [
        ("lammps-oriented", L0, ["2", "2", "1"], True),
        ("negative-dim", L0, ["-2", "0", "0", "0", "-2", "0", "0", "0", "1"], True),
        ("negative-diagonal-unit-cell", L0 @ flip, ["2", "2", "1"], False),
        ("generic-orientation", L0 @ R.T, ["2", "2", "1"], False),
    ]
    q = [[0.1, 0.2, 0.3], [0.5, 0.0, 0.0]]
    for name, lat, dimv, by_file in cases:
        fl = Flow(run, "lammps-" + name, [2, 2, 1], tmp)
        os.chdir(fl.dir)
        unit = PhonopyAtoms(cell=lat, symbols=["Na", "Cl"], scaled_positions=pos)
        fl.cell = unit
        smat = np.diag([int(x) for x in dimv]) if len(dimv) == 3 else np.array([int(x) for x in dimv]).reshape(3, 3)
        lib = Phonopy(unit, supercell_matrix=smat, calculator="lammps", log_level=0)
        lib.generate_displacements()
        sc = lib.supercell
        d_lib = np.array([[x["number"]] + list(x["displacement"]) for x in lib.dataset["first_atoms"]], dtype=float)
        run.case(("lammps", name), nontrivial=True)
        run.count("lammps workflows: %s" % name, section="oracle")
        case = dict(case=name, unit_cell_lattice=np.asarray(lat).tolist(), dim=dimv, supercell_lattice=np.asarray(sc.cell).tolist())
        if by_file:
            write_lammps("unitcell", unit)
            argv = ["--lammps", "-d", "--dim"] + dimv + ["-c", "unitcell"]
            if rng.random() < 0.5:  # the DIM tag instead of --dim
                U.write_conf("d.conf", ["DIM = " + " ".join(dimv), "CREATE_DISPLACEMENTS = .TRUE."])
                argv = ["d.conf", "--lammps", "-c", "unitcell"]
            if fl.cmd("phonopy", argv, must=["phonopy_disp.yaml", "supercell-001"]) is None:
                continue
            py = PhonopyYaml()
            py.read("phonopy_disp.yaml")
            d_cli = np.array([[x["number"]] + list(x["displacement"]) for x in py.dataset["first_atoms"]], dtype=float)
            fl.close("phonopy_disp.yaml displacements (--lammps, %s)" % name, d_cli, d_lib, 1e-13, argv)
            fl.close("supercell lattice in phonopy_disp.yaml (--lammps, %s)" % name, py.supercell.cell, sc.cell, 1e-12, argv)
            # the supercell files are written in the LAMMPS frame
            scd = lib.supercells_with_displacements[0]
            qrot = _lammps_rotation(np.asarray(scd.cell))
            w = read_lammps("supercell-001")
            fl.close("supercell-001 box (LAMMPS frame, %s)" % name, w.cell, np.asarray(scd.cell) @ qrot, 1e-10, argv, klass="lammps-supercell-file-wrong")
            dp = w.scaled_positions - scd.scaled_positions
            fl.close("supercell-001 reduced positions (%s)" % name, dp - np.rint(dp), np.zeros_like(dp), 1e-10, argv, klass="lammps-supercell-file-wrong")
        else:
            lib.save("phonopy_disp.yaml", settings={"displacements": True})
        # model forces in the phonopy frame; dump files in the LAMMPS frame
        fc = gen.pair_fc(sc, cutoff=4.0)
        forces, dumps = [], []
        resid = np.array([[((3 * i + a) % 5 - 2) * 1e-3 for a in range(3)] for i in range(len(sc))])
        resid -= resid.mean(axis=0)
        write_output("lammps", "dump.000", resid, sc)
        for i, scd in enumerate(lib.supercells_with_displacements):
            f = -np.einsum("ijab,jb->ia", fc, scd.positions - sc.positions)
            forces.append(f)
            write_output("lammps", "dump.%03d" % (i + 1), f, scd)
            write_output("lammps", "dumpz.%03d" % (i + 1), f + resid, scd)
            dumps.append("dump.%03d" % (i + 1))
        forces = np.array(forces)
        for argv, what in ((["--lammps", "-f"] + dumps, "-f"), (["--lammps", "--fz", "dump.000"] + [d.replace("dump.", "dumpz.") for d in dumps], "--fz")):
            if os.path.exists("FORCE_SETS"):
                os.remove("FORCE_SETS")
            if fl.cmd("phonopy", argv, must=["FORCE_SETS"]) is None:
                continue
            ds = parse_FORCE_SETS(natom=len(sc), filename="FORCE_SETS")
            got = np.array([x["forces"] for x in ds["first_atoms"]])
            fl.nchecks += 1
            run.count("workflow comparisons", section="oracle")
            if got.shape != forces.shape or np.abs(got - forces).max() > 2e-9:
                run.violation("phonopy_script.main", "lammps-forces-frame-wrong",
                              "%s: `phonopy %s …`: FORCE_SETS forces differ from the model forces in the phonopy frame by %.3g (supercell basis %s); "
                              "the dump files hold the forces in the LAMMPS frame" % (
                                  name, " ".join(argv[:3]), float(np.abs(got - forces).max()) if got.shape == forces.shape else float("nan"),
                                  np.round(np.asarray(sc.cell), 3).tolist()), dict(case, argv=argv[:4] + ["…"]))
        # frequencies from the FORCE_SETS of the command against the library given the model forces
        if os.path.exists("FORCE_SETS"):
            lib.forces = forces
            lib.produce_force_constants(calculate_full_force_constants=False, fc_calculator="traditional")
            lib.run_qpoints(q)
            argv = ["phonopy_disp.yaml", "--fc-calc", "traditional", "--no-fc-symmetry", "--qpoints"] + [str(x) for x in np.ravel(q)]
            if fl.cmd("load", argv, must=["qpoints.yaml"]) is not None:
                y = _yaml("qpoints.yaml")
                fl.close_freq("qpoints.yaml frequencies after --lammps -f (%s)" % name, [[b["frequency"] for b in p["band"]] for p in y["phonon"]],
                              lib.get_qpoints_dict()["frequencies"], 1e-6, argv, klass="lammps-forces-frame-wrong")  # FORCE_SETS prints 10 decimals
        run.cov["oracle"]["workflow comparisons: " + fl.name] = fl.nchecks
    os.chdir(tmp)
