"""C17 reader-state sequences: "foreign" native inputs that use the formats' optional features.

The files are the repository's own inputs (test/interface, example/*) and variants of them with one optional
feature added (elk `scale`/`scale1..3`, POSCAR scaling factor / selective dynamics / Cartesian, QE alat,
angstrom, bohr, ibrav != 0, abinit scalecart / xcart, CASTEP bohr units, ...).  They are read through
`read_crystal_structure` BEFORE the usual write -> read round trips of the same process, twice in a row,
and once more at the end: a reader that keeps state between calls shows up as a differing result.
"""

import os
import re
import shutil

import numpy as np


def _copy(repo, rel, dst):
    shutil.copy(os.path.join(repo, rel), dst)
    return dst


def foreign_inputs(repo, interface, work):
    """[(label, filename to read, cwd or None)]"""
    d = os.path.join(work, "foreign_" + interface)
    os.makedirs(d, exist_ok=True)
    out = []

    def add(label, path, cwd=None):
        out.append((label, path, cwd))

    def repo_file(rel, name=None):
        p = os.path.join(d, name or os.path.basename(rel))
        if os.path.isfile(os.path.join(repo, rel)):
            _copy(repo, rel, p)
            add(rel, p)
            return p
        return None

    def variant(label, src, name, fn):
        if src is None:
            return
        txt = fn(open(src).read())
        if txt is None:
            return
        p = os.path.join(d, name)
        open(p, "w").write(txt)
        add(label, p)

    if interface == "vasp":
        src = repo_file("example/NaCl/POSCAR-unitcell")

        def scaled(t, s):
            ls = t.split("\n")
            ls[1] = "   %s" % s
            return "\n".join(ls)

        variant("POSCAR-unitcell with scaling factor 2.5", src, "POSCAR-scale", lambda t: scaled(t, "2.5"))

        def seldyn_cart(t):
            ls = t.split("\n")
            k = next(i for i, x in enumerate(ls) if x.strip().lower().startswith("d"))
            lat = np.array([[float(v) for v in ls[i].split()[:3]] for i in (2, 3, 4)]) * float(ls[1])
            pos = [np.array([float(v) for v in x.split()[:3]]) for x in ls[k + 1:] if len(x.split()) >= 3]
            body = ["  %.16f %.16f %.16f T T F" % tuple(p @ lat / float(ls[1])) for p in pos]
            return "\n".join(ls[:k] + ["Selective dynamics", "Cartesian"] + body) + "\n"

        variant("POSCAR-unitcell with selective dynamics, Cartesian", src, "POSCAR-sd-cart", seldyn_cart)
    elif interface == "qe":
        for f in ("NaCl-pwscf.in", "NaCl-pwscf-angstrom.in", "NaCl-pwscf-bohr.in", "NaCl-pwscf-Xn.in"):
            src = repo_file("test/interface/" + f)
        variant("NaCl-pwscf.in with ibrav = 2 (unsupported: reader raises)", os.path.join(d, "NaCl-pwscf.in"), "ibrav2.in",
                lambda t: re.sub(r"ibrav\s*=\s*0", "ibrav = 2", t))
    elif interface == "abinit":
        src = repo_file("test/interface/NaCl-abinit.in")
        repo_file("example/Si-abinit/Si.in")
        variant("NaCl-abinit.in with scalecart", src, "scalecart.in", lambda t: t + "\nscalecart 1.0 1.25 1.5\n")

        def xcart(t):
            if "xred" not in t:
                return None
            return t + "\n"

        variant("NaCl-abinit.in again", src, "again.in", xcart)
    elif interface == "elk":
        src = repo_file("example/Si-elk/elk-unitcell.in")
        variant("elk-unitcell.in with scale 1.25", src, "scale.in", lambda t: "scale\n 1.25\n\n" + t)
        variant("elk-unitcell.in with scale1 2.5, scale3 0.5", src, "scale13.in", lambda t: "scale1\n 2.5\n\nscale3\n 0.5\n\n" + t)
        repo_file("example/Si-elk/elk.in")
    elif interface == "castep":
        src = repo_file("test/interface/NaCl-castep.cell")
        variant("NaCl-castep.cell in bohr", src, "bohr.cell", lambda t: t.replace("   ANG\n", "   BOHR\n"))
        repo_file("example/NaCl-castep/unitcell.cell")
    elif interface == "siesta":
        repo_file("example/Si-siesta/Si.fdf")
        repo_file("example/Graphene-siesta/Gr.fdf")
    elif interface == "crystal":
        repo_file("test/interface/Si-CRYSTAL.o")
        repo_file("example/NaCl-CRYSTAL/crystal.o", "NaCl-crystal.o")
        repo_file("example/Si-CRYSTAL/crystal.o", "Si-crystal.o")
    elif interface == "turbomole":
        for sub, name in (("example/Si-TURBOMOLE", "Si"),):
            dd = os.path.join(d, name)
            os.makedirs(dd, exist_ok=True)
            ok = True
            for f in ("control", "coord"):
                if os.path.isfile(os.path.join(repo, sub, f)):
                    _copy(repo, os.path.join(sub, f), os.path.join(dd, f))
                else:
                    ok = False
            if ok:
                add(sub + "/control", "control", dd)
    elif interface == "wien2k":
        repo_file("test/interface/BaGa2.struct")
        repo_file("example/NaCl-wien2k/NaCl.struct")
    elif interface == "abacus":
        for f in ("NaCl-abacus.stru", "NaCl-abacus-mag.stru", "NaCl-abacus-mag-noncolin.stru"):
            repo_file("test/interface/" + f)
    elif interface == "aims":
        repo_file("example/diamond-FHI-aims/geometry.in")
    elif interface == "dftbp":
        repo_file("example/diamond-dftb/geo.gen")
    elif interface == "lammps":
        for f in ("lammps_structure_H", "lammps_structure_Ti", "lammps_structure_Ti_id"):
            repo_file("test/interface/" + f)
    elif interface == "pwmat":
        repo_file("test/interface/Si-pwmat.config")
        repo_file("example/Si-PWmat/atom.config")
    elif interface == "fleur":
        repo_file("example/Al-Fleur/fleur_inpgen")
    return out


def snapshot(cell):
    if cell is None:
        return ("none",)
    m = cell.magnetic_moments
    return ("cell", tuple(int(z) for z in cell.numbers), cell.cell.tobytes(), cell.scaled_positions.tobytes(),
            None if m is None else np.asarray(m).tobytes())


def describe(snap):
    if snap[0] != "cell":
        return repr(snap)
    lat = np.frombuffer(snap[2]).reshape(3, 3)
    return "natom=%d lattice=%s" % (len(snap[1]), np.round(lat, 6).tolist())
