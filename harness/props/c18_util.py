"""Helpers for the C18 check: running the real settings parser by both routes, canonical values,
tokens for the Lean model, hand-written example values per conf key."""

from __future__ import annotations

import contextlib
import io
import os
import sys

import numpy as np

CTRL = {
    "phonopy": {"fc_symmetry": False, "is_nac": False, "load_phonopy_yaml": False},
    "load": {"fc_symmetry": True, "is_nac": True, "load_phonopy_yaml": True},
}
VBIT = {"phonopy": 1, "load": 2}

# --------------------------------------------------------------------------
# example values (the text after `TAG =`; the option route gets the same text on the command line)
# --------------------------------------------------------------------------

VALUES = {
    "band_indices": ["1 2 3", "1 2, 3 4", "4"],
    "band": ["0 0 0 1/2 0 0", "0 0 0 1/2 0 0 1/2 1/2 0", "0 0 0 0.5 0 0, 0.5 0.5 0 0 0 0 0 0 0.5", "auto"],
    "band_points": ["2", "11", "101", "0"],
    "cell_filename": ["POSCAR-unitcell", "cell.in"],
    "cutoff_frequency": ["0", "0.0", "0.05", "1", "-1"],
    "displacement_distance": ["0.01", "0.03", "0"],
    "displacement_distance_max": ["0.1", "0"],
    "dm_decimals": ["0", "3", "8"],
    "fc_decimals": ["0", "4", "10"],
    "calculator": ["qe", "abinit"],
    "fc_calculator": ["traditional", "symfc", "alm", "ALM", "unknown"],
    "fc_calculator_options": ["cutoff = 5.0", "solver = dense , cutoff = 5"],
    "fpitch": ["0.1", "0.01", "0"],
    "frequency_conversion_factor": ["15.633302", "1", "0"],
    "frequency_scale_factor": ["1.02", "0"],
    "gv_delta_q": ["0.001", "0"],
    "hdf5_compression": ["gzip", "lzf", "none", "None", "4", "0"],
    "mass": ["22.98 35.45", "1 2 3 4"],
    "magmom": ["1 -1", "0 0 1 0 0 -1", "0 0"],
    "mesh_numbers": ["4 4 4", "2 3 5", "20", "0", "2 0 0 0 2 0 0 0 2", "1 1 1"],
    "mp": ["4 4 4", "33.5"],
    "mesh": ["6 6 6", "8"],
    "mlp_params": ["cutoff = 6.0", "gtinv_maxl = 4 4"],
    "num_frequency_points": ["201", "0"],
    "primitive_axes": ["auto", "AUTO", "F", "i", "0 1/2 1/2 1/2 0 1/2 1/2 1/2 0", "1 0 0 0 1 0 0 0 1", "0.5 0.5 0 0 0.5 0.5 0.5 0 0.5"],
    "primitive_axis": ["P", "0 1/2 1/2 1/2 0 1/2 1/2 1/2 0"],
    "qpoints": ["0 0 0", "0 0 0 1/2 1/2 0", "0.1 0.2 0.3 0 0 1/3", ".TRUE.", ".false."],
    "q_direction": ["1 0 0", "1/2 1/2 0", "0 0 0"],
    "nac_method": ["gonze", "Wang", "WANG"],
    "random_displacements": ["4", "auto", "AUTO", "0", "100"],
    "random_seed": ["0", "1", "12345", "4294967295"],
    "dim": ["2 2 2", "1 1 1", "3 2 1", "1 0 0 0 1 0 0 0 2", "0 1 1 1 0 1 1 1 0"],
    "sigma": ["0.1", "0.05 0.1", "0"],
    "symmetry_tolerance": ["1e-3", "0.00001", "0"],
    "tmax": ["0", "300", "2000.5"],
    "tmin": ["0", "100", "0.5"],
    "tstep": ["0", "5", "50"],
    "band_format": ["hdf5", "yaml", "HDF5"],
    "band_labels": ["G X M", "$\\Gamma$ X", "A"],
    "create_force_sets": ["vasprun.xml-001", "disp-001/vasprun.xml disp-002/vasprun.xml"],
    "create_force_sets_zero": ["vasprun.xml-000 vasprun.xml-001"],
    "create_force_constants": ["vasprun.xml"],
    "pdos": ["1, 2", "1 2, 3 4 5", "auto", "AUTO", "3"],
    "fmax": ["0", "10", "-1.5"],
    "fmin": ["0", "-2", "3.5"],
    "tdispmat_cif": ["0", "300", "1000.5"],
    "projection_direction": ["1 0 0", "1 1 1", "0 0 0"],
    "readfc_format": ["hdf5", "text", "HDF5"],
    "writefc_format": ["hdf5", "text"],
    "fc_format": ["hdf5", "text", "Hdf5"],
    "mesh_format": ["hdf5", "yaml"],
    "qpoints_format": ["hdf5", "yaml", "HDF5"],
    "irreps": ["0 0 0", "1/2 0 0 1e-3", "0 0 1/2"],
    "cutoff_radius": ["0", "4.5", "10"],
    "modulation": ["2 2 2, 1/2 1/2 0 1 2", "3 3 1, 1/3 1/3 0 1 2, 1/3 1/3 0 2 3.5 90", "1 1 1 0.1 0 0, 0 0 0 4 1 0"],
    "anime": ["0 0 0", "0 0 0 5", "1/2 0 0 10 0.1 0.2 0.3", "4 5 20", "1 3 10 0.25 0.25 0.25"],
    "moment_order": ["0", "1", "2"],
    "random_displacement_temperature": ["0", "300", "1000.5"],
    "sscha_iterations": ["0", "1", "10"],
    # file-only conf keys (used in the combination cases)
    "atom_name": ["Na Cl", "si o"],
    "mp_shift": ["1/2 1/2 1/2", "0 0 0", "0.5 0 0"],
    "dos_range": ["0 10 0.1", "-1 40 0.05"],
    "force_constants": ["write", "read", "WRITE", "other"],
    "anime_type": ["v_sim", "arc", "xyz", "JMOL", "poscar"],
    "tdistance": ["1 2", "1 2, 1 3"],
}

# values that make the real parser stop with `setting_error` (malformed stream: both routes must reject)
MALFORMED = {
    "dim": ["2 2", "2 2 2 2", "0 0 0", "-1 1 1"],
    "mesh_numbers": ["4 4"],
    "band": ["0 0 0 1/2", "0 0 0"],
    "qpoints": ["0 0"],
    "q_direction": ["1 0"],
    "primitive_axes": ["1 0 0 0 1 0", "Q"],
    "irreps": ["0 0"],
    "anime": ["0 0"],
    "projection_direction": ["1 0"],
    "modulation": ["2 2 2"],
    "random_displacements": ["many"],
}

# option <-> tag equivalences that doc/command-options.md does not list (hand-written from the option help texts
# and doc/setting-tags.md; independent of the generated table): (flag, conf key, value for flag options or None)
EXTRA_EQUIV = [
    ("--mass", "mass", None), ("--pm", "pm", ".TRUE."), ("--nodiag", "diag", ".FALSE."), ("--random-seed", "random_seed", None),
    ("--fc-format", "fc_format", None), ("--amax", "displacement_distance_max", None), ("--bi", "band_indices", None),
    ("--classical", "classical", ".TRUE."), ("--dm-decimals", "dm_decimals", None), ("--fc-decimals", "fc_decimals", None),
    ("--hdf5-compression", "hdf5_compression", None), ("--band-const-interval", "band_const_interval", ".TRUE."),
    ("--trigonal", "trigonal", ".TRUE."), ("--mlp-params", "mlp_params", None), ("--sp", "save_params", ".TRUE."),
    ("--pypolymlp", "use_pypolymlp", ".TRUE."), ("-f", "create_force_sets", None), ("--fz", "create_force_sets_zero", None),
    ("--fc", "create_force_constants", None), ("--fc-spg-symmetry", "fc_spg_symmetry", ".TRUE."), ("--pt", "ptprop", ".TRUE."),
    ("--legacy-plot", "legacy_plot", ".TRUE."), ("--cutoff-radius", "cutoff_radius", None),
    ("--temperature", "random_displacement_temperature", None), ("--exclude-born", "include_nac_params", ".FALSE."),
    ("--sscha", "sscha_iterations", None), ("--no-fc-symmetry", "fc_symmetry", ".FALSE."), ("--nonac", "nac", ".FALSE."),
]

BOOL_TEXTS = [".TRUE.", ".FALSE.", ".true.", ".false.", ".True.", "TRUE", "yes"]


# --------------------------------------------------------------------------
# canonical values
# --------------------------------------------------------------------------

def canon(v):
    """A hashable, type-normalised form of a settings / parameter value."""
    if v is None:
        return ("none",)
    if isinstance(v, (bool, np.bool_)):
        return ("bool", bool(v))
    if isinstance(v, (int, np.integer)):
        return ("num", float(v))
    if isinstance(v, (float, np.floating)):
        return ("num", float(v))
    if isinstance(v, str):
        return ("str", v)
    if isinstance(v, np.ndarray):
        return ("seq", tuple(canon(x) for x in v.tolist()))
    if isinstance(v, (list, tuple)):
        return ("seq", tuple(canon(x) for x in v))
    if isinstance(v, dict):
        return ("dict", tuple(sorted((str(k), canon(x)) for k, x in v.items())))
    return ("obj", repr(v))


def plain(v):
    """JSON-able rendering for replay files."""
    if isinstance(v, np.ndarray):
        return v.tolist()
    if isinstance(v, (list, tuple)):
        return [plain(x) for x in v]
    if isinstance(v, dict):
        return {str(k): plain(x) for k, x in v.items()}
    if isinstance(v, (np.integer,)):
        return int(v)
    if isinstance(v, (np.floating,)):
        return float(v)
    if isinstance(v, (np.bool_,)):
        return bool(v)
    return v


def truthy(v):
    try:
        return bool(v)
    except ValueError:  # numpy array with more than one element
        return True


def length(v):
    try:
        return len(v)
    except TypeError:
        return 0


def fracval(x):
    if isinstance(x, str) and "/" in x:
        a, b = x.split("/")
        return float(a) / float(b)
    return float(x)


def apply_fn(name, v):
    """Python meaning of the opaque functions of the generated program."""
    if name == "int":
        return int(v)
    if name == "float":
        return float(v)
    if name.startswith("map_"):
        f = {"fracval": fracval, "float": float, "int": int}[name[4:]]
        return [f(x) for x in v]
    if name.startswith("index_"):
        return v[int(name[6:])]
    if name.startswith("slice_"):
        lo, hi = name[6:].split("_")
        return v[(int(lo) if lo else None):(int(hi) if hi else None)]
    raise KeyError(name)


# --------------------------------------------------------------------------
# the real parser
# --------------------------------------------------------------------------

class Outcome:
    """Result of one construction of PhonopyConfParser."""

    def __init__(self, kind, settings=None, confs=None, detail=None, args=None):
        self.kind = kind  # "ok" | "exit" | "exc"
        self.settings = settings  # dict attr -> value
        self.confs = confs  # list of conf keys of the final _confs
        self.detail = detail
        self.args = args
        self.where = None
        self.obj = None

    def canon(self):
        if self.kind != "ok":
            return (self.kind,)
        return tuple(sorted((k, canon(v)) for k, v in self.settings.items()))

    def diff(self, other):
        if self.kind != "ok" or other.kind != "ok":
            return None if self.kind == other.kind else {"kind": [self.kind + ":" + str(self.detail)[:80], other.kind + ":" + str(other.detail)[:80]]}
        out = {}
        for k in sorted(set(self.settings) | set(other.settings)):
            a, b = self.settings.get(k, "<missing>"), other.settings.get(k, "<missing>")
            if canon(a) != canon(b):
                out[k] = [plain(a), plain(b)]
        return out or None


@contextlib.contextmanager
def _argv(argv):
    saved = sys.argv
    sys.argv = ["phonopy"] + list(argv)
    try:
        yield
    finally:
        sys.argv = saved


def parse_args(variant, argv):
    """The argument namespace exactly as `_start_phonopy` obtains it (sys.argv, deprecated-name fix)."""
    from phonopy.cui.phonopy_argparse import get_parser

    err = io.StringIO()
    with _argv(argv), contextlib.redirect_stderr(err), contextlib.redirect_stdout(io.StringIO()):
        parser, _ = get_parser(**CTRL[variant])
        try:
            return parser.parse_args(), None
        except SystemExit as e:
            return None, "argparse exit %s: %s" % (e.code, err.getvalue().strip()[-200:])


def parser_actions(variant):
    """option string -> argparse action of the real parser of this command"""
    from phonopy.cui.phonopy_argparse import get_parser

    with _argv([]), contextlib.redirect_stdout(io.StringIO()):
        parser, _ = get_parser(**CTRL[variant])
    out = {}
    for a in getattr(parser, "_actions", []):  # (argparse's own list of actions)
        for o in a.option_strings:
            out[o] = a
    if not out:
        raise HookUnavailable("argparse.ArgumentParser._actions")
    return out


def real_parse(variant, conf_path=None, argv=None):
    """Construct the real parser: conf file and/or options (argv=None: no args object at all)."""
    from phonopy.cui.settings import PhonopyConfParser

    args = None
    if argv is not None:
        args, err = parse_args(variant, argv)
        if args is None:
            return Outcome("exit", detail=err)
    out = io.StringIO()
    try:
        with contextlib.redirect_stdout(out):
            kw = {}
            if variant == "load":
                kw["default_settings"] = dict(CTRL[variant])
            p = PhonopyConfParser(filename=conf_path, args=args, **kw)
    except SystemExit as e:
        return Outcome("exit", detail="exit %s: %s" % (e.code, out.getvalue().strip()[:200]), args=args)
    except Exception as e:  # an uncaught exception of the parser on the given input
        import traceback

        tb = traceback.extract_tb(e.__traceback__)
        where = "%s:%d" % (os.path.basename(tb[-1].filename), tb[-1].lineno) if tb else "?"
        o = Outcome("exc", detail="%s: %s at %s" % (type(e).__name__, e, where), args=args)
        o.where = tb[-1].name if tb else None
        return o
    # public view of the settings object: its `default` dict names the attributes, values through attribute access
    s = {k: getattr(p.settings, k) for k in p.settings.default}
    s.pop("load_phonopy_yaml", None)  # not a settings attribute: `default_settings` carries the key of argparse_control
    o = Outcome("ok", settings=s, confs=list(p.confs.keys()), args=args)
    o.obj = p.settings
    return o


class HookUnavailable(Exception):
    """a private attribute / method of /repo that the harness uses as model input is not there (renamed, restructured)"""


def branch_outcome(tag, value, names=None):
    """What the branch of the subclass parse method for conf key `tag` does with `value`: ordered list of
    (parameter key, value), or None when it stops with `setting_error`.  The private names (confs / parameters
    attributes, the parse method) are those the translator found through the public call graph."""
    from phonopy.cui.settings import PhonopyConfParser

    names = names or {}
    confs_attr = names.get("_confs", "_confs")
    params_attr = names.get("_parameters", "_parameters")
    parse_name = names.get("method_parse_conf", "_parse_conf")
    p = PhonopyConfParser()
    if not callable(getattr(p, parse_name, None)):
        raise HookUnavailable("PhonopyConfParser.%s / .%s / .%s()" % (confs_attr, params_attr, parse_name))
    setattr(p, confs_attr, {tag: value})
    setattr(p, params_attr, {})
    try:
        with contextlib.redirect_stdout(io.StringIO()):
            getattr(p, parse_name)()
    except SystemExit:
        return None
    except (AttributeError, TypeError, KeyError) as e:
        import traceback

        if not any("phonopy" in f.filename and f.name not in ("__init__",) and f.lineno for f in traceback.extract_tb(e.__traceback__)[1:]):
            raise HookUnavailable("PhonopyConfParser.%s(): %s: %s" % (parse_name, type(e).__name__, e))
        raise
    return list(getattr(p, params_attr).items())


def write_conf(path, lines):
    with open(path, "w") as f:
        f.write("\n".join(lines) + "\n")


# --------------------------------------------------------------------------
# table access
# --------------------------------------------------------------------------

class Tab:
    def __init__(self, tb):
        self.tb = tb
        self.tag_id = {n: i for i, n in enumerate(tb["tags"])}
        self.key_id = {n: i for i, n in enumerate(tb["keys"])}
        self.attr_id = {n: i for i, n in enumerate(tb["attrs"])}
        self.dest_id = {n: i for i, n in enumerate(tb["dests"])}
        self.str_id = {n: i for i, n in enumerate(tb["strs"])}
        self.rule_of_tag = {}
        for r in tb["parse_rules"]:
            for k in r["keys"]:
                self.rule_of_tag.setdefault(k, r)
        self.opt_of_dest = {}
        for r in tb["opt_rules"]:
            if r["dest"] in self.opt_of_dest:
                raise RuntimeError("two blocks of read_options for dest %s" % r["dest"])
            self.opt_of_dest[r["dest"]] = r
        self.args_of_dest = {}
        for r in tb["argparse"]:
            self.args_of_dest.setdefault(r["dest"], []).append(r)

    def flags(self, dest, variant):
        out = []
        for r in self.args_of_dest.get(dest, []):
            if r["variants"] & VBIT[variant] and r["flags"]:
                out.append(r)
        return out

    def targets(self, tag):
        out = []
        for r in self.tb["parse_rules"]:
            if tag in r["keys"]:
                out += [k for k in r["targets"] if k not in out]
        return out

    def is_bool_text(self, tag, text):
        r = self.rule_of_tag.get(tag)
        return r is not None and r["has_bool"] and isinstance(text, str) and text.lower() in (".true.", ".false.")


class Tokens:
    """Per-case token table: canonical value -> token id, and back to the Python object."""

    def __init__(self, tab):
        self.tab = tab
        self.ids = {}
        self.objs = []

    def val(self, v):
        if v is None:
            return "N"
        if isinstance(v, (bool, np.bool_)):
            return "T" if v else "F"
        if isinstance(v, str) and v in self.tab.str_id:
            return "S%d" % self.tab.str_id[v]
        if isinstance(v, list) and len(v) == 0:
            return "L"
        c = canon(v)
        if c not in self.ids:
            self.ids[c] = len(self.objs)
            self.objs.append(v)
        return "K%d,%d,%d" % (self.ids[c], 1 if truthy(v) else 0, length(v))

    def raw(self, tag, text):
        """wire form of a conf value; None when the real branch rejects the value"""
        if self.tab.is_bool_text(tag, text):
            return "t" if text.lower() == ".true." else "f"
        if tag not in self.tab.rule_of_tag:
            return "o 0"
        o = branch_outcome(tag, text, self.tab.tb.get("private_names"))
        if o is None:
            return None
        return "o %d%s" % (len(o), "".join(" %d %s" % (self.tab.key_id[k], self.val(v)) for k, v in o))

    def decode(self, s):
        """wire value -> Python object"""
        if s == "N":
            return None
        if s == "T":
            return True
        if s == "F":
            return False
        if s == "L":
            return []
        if s[0] == "I":
            return int(s[1:])
        if s[0] == "S":
            return self.tab.tb["strs"][int(s[1:])]
        if s[0] == "K":
            return self.objs[int(s[1:].split(",")[0])]
        if s[0] == "A":
            i = s.index("(")
            return apply_fn(self.tab.tb["fns"][int(s[1:i])], self.decode(s[i + 1:-1]))
        raise ValueError("cannot decode %r" % s)


def conf_value_of_arg(rule, v):
    """the object `read_options` stores in `_confs` for a given option value"""
    if rule["val"][0] != "arg":
        return None
    if rule["join"] == "always":
        return " ".join(v)
    if rule["join"] == "iflist" and isinstance(v, list):
        return " ".join(v)
    return v


def encode_case(tab, variant, file_entries, args, toks=None):
    """-> (request line, Tokens) or (None, reason) when some value is rejected by the real branch.
    file_entries: list of (tag, text) or None; args: argparse namespace or None."""
    from phonopy.interface.calculator import get_interface_mode

    toks = toks or Tokens(tab)
    tb = tab.tb
    d = []
    if variant == "load":
        d = [(tab.attr_id["fc_symmetry"], "T"), (tab.attr_id["is_nac"], "T")]
    ks = []
    for r in tb["opt_rules"]:
        if r["val"][0] == "str":
            raw = toks.raw(r["tag"], r["val"][1])
            if raw is None:
                return None, "constant %r rejected" % (r["val"][1],)
            ks.append((tab.str_id[r["val"][1]], raw))
    parts = ["run", "D", str(len(d))] + ["%d %s" % x for x in d] + ["K", str(len(ks))] + ["%d %s" % x for x in ks]
    if file_entries is None:
        parts += ["F", "0", "0"]
    else:
        ent = []
        for tag, text in file_entries:
            raw = toks.raw(tag, text)
            if raw is None:
                return None, "file value rejected: %s = %s" % (tag, text)
            tid = tab.tag_id.get(tag)
            if tid is None:  # a conf key the code does not know: it stays in the dict and is ignored
                tid = len(tb["tags"]) + (sum(map(ord, tag)) % 1000)
            ent.append("%d %s" % (tid, raw))
        parts += ["F", "1", str(len(ent))] + ent
    if args is None:
        parts += ["A", "0", "0"]
    else:
        av = []
        ns = dict(vars(args))
        ns["@interface_mode"] = get_interface_mode(vars(args))
        for dest, v in ns.items():
            rule = tab.opt_of_dest.get(dest)
            if rule is None:
                continue
            did = tab.dest_id[dest]
            if v is None:
                av.append("%d n" % did)
            elif isinstance(v, bool):
                av.append("%d %s" % (did, "bT" if v else "bF"))
            else:
                cv = conf_value_of_arg(rule, v)
                raw = "o 0" if cv is None else toks.raw(rule["tag"], cv)
                if raw is None:
                    return None, "option value rejected: %s = %r" % (dest, v)
                in_range = 1
                if rule["range_check"]:
                    in_range = 1 if (isinstance(v, (int, np.integer)) and 0 <= v < 2 ** 32) else 0
                av.append("%d v%d%d %s" % (did, 1 if truthy(v) else 0, in_range, raw))
        parts += ["A", "1", str(len(av))] + av
    return " ".join(parts), toks


def compare_model(tab, toks, line, real):
    """model answer vs real Outcome -> None or a description of the disagreement"""
    if line == "bad-op":
        return "model rejected the request"
    if line == "keyerror":
        return "model raises KeyError, implementation returned %s" % real.kind
    if not line.startswith("ok "):
        return "unexpected model answer %r" % line[:80]
    body, _, confs = line[3:].partition(" | ")
    vals = body.split()
    names = tab.tb["attrs"]
    if len(vals) != len(names):
        return "model printed %d attributes for %d" % (len(vals), len(names))
    conv_err = None
    for s in vals:
        try:
            toks.decode(s)
        except Exception as e:  # a conversion (int(), float(), fracval) applied by _set_settings fails on the real value
            conv_err = "%s: %s" % (type(e).__name__, e)
    if real.kind == "exc" and conv_err is not None:
        return None  # both sides: the value cannot be converted (e.g. a v_sim style ANIME value with ANIME_TYPE = arc)
    if real.kind != "ok":
        return "implementation %s (%s), model returns settings" % (real.kind, real.detail)
    bad = {}
    for n, s in zip(names, vals):
        try:
            mv = toks.decode(s)
        except Exception as e:
            mv = "<%s: %s>" % (type(e).__name__, e)
        rv = real.settings.get(n, "<missing>")
        if canon(mv) != canon(rv):
            bad[n] = {"model": plain(mv), "impl": plain(rv)}
    extra = set(real.settings) - set(names)
    if extra:
        bad["<attributes unknown to the table>"] = sorted(extra)
    mconfs = [int(x) for x in confs.split()]
    rconfs = [tab.tag_id.get(k, len(tab.tb["tags"]) + (sum(map(ord, k)) % 1000)) for k in real.confs]
    if mconfs != rconfs:
        bad["<conf keys>"] = {"model": mconfs, "impl": rconfs}
    return bad or None
