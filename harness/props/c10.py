"""C10 — thermal properties equal the harmonic closed forms and obey thermodynamic identities."""

import math
import os
import struct
import subprocess
import sys
import warnings

import numpy as np

from .. import common, gen

TOL = 1e-9


# ----------------------------------------------------------------------------- wire helpers

def fb(x):
    """binary64 -> decimal UInt64 bit pattern (exact)"""
    return str(struct.unpack("<Q", struct.pack("<d", float(x)))[0])


def bf(s):
    return struct.unpack("<d", struct.pack("<Q", int(s)))[0]


def fbs(a):
    return " ".join(fb(x) for x in np.asarray(a, dtype="double").ravel())


EPS = 2.220446049250313e-16


def cond(x):
    """relative conditioning allowance of the pinned formulas at small x = h nu/kT: they form 1 - exp(-x) and
    exp(x) - 1 by subtraction, which loses log10(1/x) digits; libm differences of 1 ulp are amplified by 1/x."""
    return 16 * EPS / x if x > 0 else 0.0


def same(a, b, floor, extra=0.0):
    """float comparison: NaN == NaN, inf == inf, otherwise |a-b| <= TOL*max(|b|, floor) + extra*max(|b|, floor)"""
    if math.isnan(a) or math.isnan(b):
        return math.isnan(a) and math.isnan(b)
    if math.isinf(a) or math.isinf(b):
        return a == b
    return abs(a - b) <= (TOL + extra) * max(abs(b), floor)


def regenerate(run):
    """T-cexpr: Gen/ThermalC.lean from the working tree; failure = proof step broken."""
    r = subprocess.run([sys.executable, os.path.join(common.VERIF, "tools", "cexpr2lean.py"), "--repo", common.REPO],
                       capture_output=True, text=True, timeout=120)
    if r.returncode != 0:
        run.broke("proof", "translator tools/cexpr2lean.py failed: c/phonopy.c or units.py left the translatable subset",
                  (r.stdout + r.stderr)[-1500:])
        return False
    return True


# ----------------------------------------------------------------------------- synthetic mesh

class _Prim:
    Z = 1


class _DM:
    primitive = _Prim()


class FakeMesh:
    """The attributes ThermalProperties reads from a Mesh object."""

    def __init__(self, freqs, weights, eigvecs=None):
        self.frequencies = np.array(freqs, dtype="double")
        self.weights = np.array(weights, dtype="int64")
        self.eigenvectors = eigvecs
        self.dynamical_matrix = _DM()


def run_tp(mesh, temps, lang, **kw):
    from phonopy.phonon.thermal_properties import ThermalProperties

    with warnings.catch_warnings():
        warnings.simplefilter("ignore")
        with np.errstate(all="ignore"):
            tp = ThermalProperties(mesh, **kw)
            tp.temperatures = temps
            tp.run(lang=lang)
    t, fe, s, cv = tp.thermal_properties
    return tp, np.array(t), np.array(fe), np.array(s), np.array(cv)


def c_mode(temp, f_ev, classical):
    """per-mode values of the compiled kernels: one q-point, one band, weight 1, cutoff below f"""
    import phonopy._phonopy as phonoc

    if not hasattr(phonoc, "thermal_properties"):
        return None

    props = np.zeros((1, 3), dtype="double", order="C")
    phonoc.thermal_properties(props, np.array([temp], dtype="double"), np.array([[f_ev]], dtype="double"),
                              np.array([1], dtype="int64"), -1.0, int(classical))
    return props[0]


def py_mode(temp, f_ev, classical):
    from phonopy.phonon import thermal_properties as TP

    if not all(hasattr(TP, n_) for n_ in ("mode_F", "mode_S", "mode_cv", "mode_ZPE")):
        return None

    with warnings.catch_warnings():
        warnings.simplefilter("ignore")
        with np.errstate(all="ignore"):
            a = np.array([f_ev], dtype="double")
            return (float(TP.mode_F(temp, a, classical=classical)[0]), float(TP.mode_S(temp, a, classical=classical)[0]),
                    float(TP.mode_cv(temp, a, classical=classical)[0]), float(TP.mode_ZPE(temp, a, classical=classical)[0]))


def ref_thermal(units, fr_thz, w, temps, cut=None, pretend=False, bi=None, classical=False):
    """Documented closed forms (doc/formulation: F = sum[h nu/2 + kT ln(1 - e^-x)], S = k sum[x/(e^x - 1) - ln(1 - e^-x)],
    C_V = k sum[x^2 e^x/(e^x - 1)^2]; classical: F = kT ln x, S = k(1 - ln x), C_V = k) summed over the modes above the cutoff with the
    q-point weights, divided by the weight sum, in kJ/mol and J/K/mol — written independently of phonopy (expm1 / log1p forms).
    Returns (temperatures kept, F, S, Cv, conditioning allowance per temperature, scale of F, scale of S)."""
    fr = np.array(fr_thz, dtype="double")
    if bi is not None:
        fr = fr[:, list(np.hstack(bi).astype(int))]
    if pretend:
        fr = np.abs(fr)
    f = fr * units.THzToEv
    cut_ev = 0.0 if (cut is None or cut < 0) else cut * units.THzToEv
    sel = f > cut_ev
    wq = np.array(w, dtype="double")[:, None] * np.ones_like(f)
    fs, ws = f[sel], wq[sel]
    wsum = float(np.sum(w))
    kept = [float(t) for t in temps if not (t < 0)]
    k = units.Kb
    F, S, C, ex = [], [], [], []
    with np.errstate(all="ignore"):
        for t in kept:
            if not t > 0:
                F.append(0.0 if classical else float(np.sum(ws * fs / 2)))
                S.append(0.0)
                C.append(0.0)
                ex.append(0.0)
                continue
            x = fs / (k * t)
            if classical:
                F.append(float(np.sum(ws * k * t * np.log(x))))
                S.append(float(np.sum(ws * k * (1 - np.log(x)))))
                C.append(float(np.sum(ws * k)))
            else:
                l1 = np.log(-np.expm1(-x))
                F.append(float(np.sum(ws * (k * t * l1 + fs / 2))))
                S.append(float(np.sum(ws * k * (x * np.exp(-x) / (-np.expm1(-x)) - l1))))
                C.append(float(np.sum(ws * k * (x * np.exp(-x) / (-np.expm1(-x))) * (x / (-np.expm1(-x))))))
            ex.append(cond(float(x.min())) if x.size else 0.0)
    conv = units.EvTokJmol
    nint = float(ws.sum())
    scF = [conv / wsum * max(float(np.sum(ws * np.abs(fs))) if fs.size else 0.0, k * t * nint, 1e-30) for t in kept]
    scS = conv * 1000 * k * max(1.0, nint) / wsum
    return (kept, np.array(F) / wsum * conv, np.array(S) / wsum * conv * 1000, np.array(C) / wsum * conv * 1000, ex, scF, scS)


def against_closed_form(run, units, site, klass, got, fr_thz, w, temps, info, **opts):
    """got = (temperatures, F, S, Cv) of the implementation; returns True if it equals the closed forms for these options"""
    kept, F, S, C, ex, scF, scS = ref_thermal(units, fr_thz, w, temps, **opts)
    t_, f_, s_, c_ = [np.asarray(a, dtype="double") for a in got]
    if len(t_) != len(kept) or any(fb(a) != fb(b) for a, b in zip(t_, kept)):
        run.violation(site, klass, "temperatures %r, expected %r" % (t_.tolist()[:6], kept[:6]), info)
        return False
    for i, t in enumerate(kept):
        for nm, a, b, fl in (("free energy", f_[i], F[i], scF[i]), ("entropy", s_[i], S[i], scS), ("heat capacity", c_[i], C[i], scS)):
            if not same(float(a), float(b), fl, ex[i]):
                run.violation(site, klass, "%s at T=%r: %r, documented closed form for the options of this call: %r" % (nm, t, float(a), float(b)), dict(T=t, **info))
                return False
    return True


def gen_mesh_case(rng, thorough):
    nq = rng.randint(1, 6)
    nb = rng.choice([1, 2, 3, 6, 6, 9, 12])
    style = rng.choice(["thz", "thz", "wide", "imag", "edge"])
    fr = np.zeros((nq, nb))
    for q in range(nq):
        for j in range(nb):
            if style == "wide":
                v = 10 ** rng.uniform(-4, 2.5)
            else:
                v = rng.uniform(0.05, 25.0)
            if style == "imag" and rng.random() < 0.3:
                v = -rng.uniform(0.01, 5.0)
            if rng.random() < 0.05:
                v = 0.0
            fr[q, j] = v
    w = [rng.randint(1, 8) for _ in range(nq)]
    cutsel = rng.choice(["none", "none", "neg", "pos", "pos", "zero"])
    if cutsel == "none":
        cut = None
    elif cutsel == "neg":
        cut = -rng.uniform(0.1, 3)
    elif cutsel == "zero":
        cut = 0.0
    else:
        cut = rng.uniform(0.05, 6.0)
        if style == "edge":
            # a frequency exactly at the cutoff (strict comparison excludes it) and one just above
            fr[0, 0] = cut
            if nb > 1:
                fr[0, 1] = np.nextafter(cut, 10.0)
    pretend = rng.random() < 0.3
    classical = rng.random() < 0.25
    bi = None
    if rng.random() < 0.3 and nb > 1:
        k = rng.randint(1, nb)
        sel = sorted(rng.sample(range(nb), k))
        cutp = rng.randint(0, len(sel))
        bi = [sel[:cutp], sel[cutp:]] if 0 < cutp < len(sel) else [sel]
    # temperatures: T = 0, negative (dropped), very low (h nu / kT beyond exp range), ordinary, very high
    temps = [0.0]
    if rng.random() < 0.4:
        temps.append(-rng.uniform(1, 10))
    for _ in range(rng.randint(3, 6) if not thorough else rng.randint(5, 10)):
        r = rng.random()
        if r < 0.25:
            temps.append(10 ** rng.uniform(-3, 0))
        elif r < 0.8:
            temps.append(rng.uniform(1, 1500))
        else:
            temps.append(10 ** rng.uniform(3.2, 7))
    temps = sorted(temps, key=lambda t: (t < 0, t))
    return dict(nq=nq, nb=nb, fr=fr, w=w, cut=cut, pretend=pretend, classical=classical, bi=bi, temps=temps, style=style)


def mesh_request(c):
    nb = c["nb"]
    bi = list(np.hstack(c["bi"]).astype(int)) if c["bi"] is not None else list(range(nb))
    hascut = c["cut"] is not None
    kept = [t for t in c["temps"] if not (t < 0)]
    return "mesh %d %d %d %s %d %d %d %s %s %s %d %s" % (
        int(c["classical"]), int(c["pretend"]), int(hascut), fb(c["cut"] if hascut else 0.0), c["nq"], nb, len(bi),
        " ".join(map(str, bi)), fbs(c["w"]), fbs(c["fr"]), len(kept), fbs(kept))


def proj_request(classical, pretend, cut, w, fr, e2, bi, temps):
    """e2 = |eigvecs[:, :, bi]|^2 of shape (nq, nr, ns)"""
    nq, nb = np.asarray(fr).shape
    nr, ns = e2.shape[1], e2.shape[2]
    bil = list(range(nb)) if bi is None else list(np.hstack(bi).astype(int))
    hascut = cut is not None
    return "proj %d %d %d %s %d %d %d %d %s %s %s %s %d %s" % (
        int(classical), int(pretend), int(hascut), fb(cut if hascut else 0.0), nq, nr, nb, ns, " ".join(map(str, bil)),
        fbs(w), fbs(fr), fbs(e2), len(temps), fbs(temps))


def rand_unitary(rng, n):
    a = np.array([[complex(rng.gauss(0, 1), rng.gauss(0, 1)) for _ in range(n)] for _ in range(n)])
    qm, _ = np.linalg.qr(a)
    return qm


def projected(run, tp, info=None):
    """projected thermal properties have no public getter (only the 7-decimal yaml text): the private tuple is the only tie of the
    projection model to the code — if it is gone the correspondence of that part is reported as not checked"""
    v = getattr(tp, "_projected_thermal_properties", None)
    if v is None:
        run.broke("correspondence", "model input unavailable: ThermalProperties._projected_thermal_properties", info)
    return v


class FormTracker:
    """The Python S / C_V formulas and the zero-point sum each exist in a pinned and a repaired form
    (proved equal over the reals where both are defined).  The implementation must agree with ONE of
    them on every case."""

    def __init__(self, name):
        self.name = name
        self.ok = {0: True, 1: True}
        self.n = 0
        self.first_bad = {0: None, 1: None}

    def see(self, impl, models, floor, info, extra=0.0):
        self.n += 1
        for k in (0, 1):
            if not same(impl, models[k], floor, extra):
                if self.ok[k]:
                    self.first_bad[k] = dict(info=info, implementation=impl, model=models[k])
                self.ok[k] = False

    def verdict(self):
        if self.ok[0]:
            return 0
        if self.ok[1]:
            return 1
        return None


def main(run):
    rng = run.rng
    common.setup_phonopy("omp")
    from phonopy import units
    from phonopy.phonon import thermal_properties as TP

    thorough = run.tier == "thorough"
    regenerate(run)
    run.proof_step(leancheck=thorough)
    run.cov["rule"] = (
        "per-mode: x = h nu/kT log-uniform in [1e-12, 1e6] (plus the exp/sinh overflow edges), T log-uniform in [1e-2, 1e5] K, "
        "f = x k T, quantum and classical, compiled kernel (1 q-point, 1 band) and mode_F/S/cv/ZPE vs the Lean definitions run at "
        "binary64 (bit patterns on the wire), tolerance 1e-9*max(|value|, k). mesh: synthetic Mesh objects (1-6 q-points, 1-12 "
        "bands, THz / wide / imaginary / cutoff-edge frequencies, integer weights, cutoff None/<0/0/>0, pretend_real, band_indices, "
        "classical, temperatures incl. 0, negative, 1e-3..1e7 K) through ThermalProperties.run(lang='C'|'Py'), plus Phonopy."
        "run_thermal_properties on pair-potential crystals incl. projection. Non-trivial = at least one mode above the cutoff "
        "and one temperature > 0.")
    run.cov["trusted_base"] = [
        "Lean 4.33 kernel; Mathlib v4.33 (Real.exp/log/sinh/cosh, derivative and limit library); axioms per theorem in coverage.theorems",
        "translator tools/cexpr2lean.py (C expression subset -> Lean term); every generated definition is evaluated against the compiled kernel in this run",
        "hand-written Model/Thermal.lean tied to thermal_properties.py and the mesh loop of c/phonopy.c by this correspondence run",
        "libm exp/log/sinh/cosh/expm1 (implementation) vs Lean Float.exp … (model): same formulas, few-ulp differences, tolerance 1e-9",
        "special-values model Model/IEEE.lean: rounding not modelled; thresholds checked against numpy/libm in this run",
        "nanobind replaced by harness/nbstub (c/_phonopy.cpp compiled unchanged)",
    ]
    run.assumptions += [
        "theorems are over the reals; IEEE rounding of the implementation is outside them (finiteness clause: special-values model only)",
        "Mesh/eigensolver are not part of this property: frequencies and weights are inputs",
    ]

    kB = units.Kb
    conv = units.EvTokJmol
    lines, meta = [], []

    # ---------------------------------------------------------------- constants / units
    csrc = open(os.path.join(common.REPO, "c", "phonopy.c")).read()
    import re

    m = re.search(r"^#define\s+KB\s+(\S+)", csrc, re.M)
    kb_c = float(m.group(1)) if m else float("nan")
    lines.append("consts")
    meta.append(("consts", None))
    # oracle on the implementation: the C literal is the Python constant; derived units as documented
    # (audit) bit-identity of the C literal and of the derived constants is a statement about the model of the code (the generated
    # constants are compared bit by bit in the correspondence step); the PROPERTY needs the two paths to use the same Boltzmann
    # constant and the documented unit products only up to rounding, so only that is a violation here.
    run.cov["oracle"]["KB literal bit-identical to units.Kb"] = bool(kb_c == units.Kb)
    if not abs(kb_c / units.Kb - 1) <= 1e-12:
        run.violation("c/phonopy.c #define KB", "unit-value", "KB literal %r differs from phonopy.units.Kb %r by more than rounding: compiled and Python paths use different Boltzmann constants" % (kb_c, units.Kb),
                      dict(KB=kb_c, Kb=units.Kb))
    for name, val, ref in (("Kb", units.Kb, 8.617338e-5), ("THzToEv", units.THzToEv, 4.135667e-3), ("EvTokJmol", units.EvTokJmol, 96.48534)):
        if abs(val / ref - 1) > 2e-6:
            run.violation("phonopy.units." + name, "unit-value", "%s = %r, expected %r" % (name, val, ref), dict(name=name, value=val))
    for name, val, ref in (("THzToEv", units.THzToEv, units.PlanckConstant * 1e12), ("EvTokJmol", units.EvTokJmol, units.EV * units.Avogadro / 1000), ("Kb", units.Kb, units.kb_J / units.EV)):
        if not abs(val / ref - 1) <= 1e-12:
            run.violation("phonopy.units." + name, "unit-value", "%s = %r is not the documented product %r" % (name, val, ref), dict(name=name, value=val))
    run.count("oracle-units", section="oracle")

    # ---------------------------------------------------------------- per-mode grid
    nmode = 4000 if thorough else 260
    xs = [10 ** rng.uniform(-12, 6) for _ in range(nmode)]
    xs += [1e-12, 1e6, 1.0, 700.0, 709.0, 709.7, 709.9, 710.4, 711.0, 745.0, 746.0, 800.0, 1420.9, 1421.1, 1500.0, 1e4]
    mode_cases = []
    for x in xs:
        T = 10 ** rng.uniform(-2, 5)
        f = x * kB * T
        cl = rng.random() < 0.2
        mode_cases.append((x, T, f, cl))
    tr_S, tr_Cv = FormTracker("mode_S"), FormTracker("mode_cv")
    for (x, T, f, cl) in mode_cases:
        lines.append("mode %d %s %s" % (int(cl), fb(T), fb(f)))
        meta.append(("mode", (x, T, f, cl)))
        run.case(("mode", x, T, cl), nontrivial=True)
        run.count("mode x~1e%+03d" % int(math.floor(math.log10(x) / 3) * 3))
        run.count("classical" if cl else "quantum")

    # ---------------------------------------------------------------- synthetic meshes
    nmesh = 1000 if thorough else 80
    mesh_cases = []
    for _ in range(nmesh):
        c = gen_mesh_case(rng, thorough)
        mesh_cases.append(c)
        lines.append(mesh_request(c))
        meta.append(("mesh", c))
    # q-point counts around typical block sizes, non-uniform integer weights (dense symmetry-reduced meshes): blocking / boundary bugs
    for nq_big in [1, 2, 255, 256, 257, 511, 513, 1000, rng.randint(300, 600), rng.randint(300, 600)] + ([2047, 2049, 4097] if thorough else []):
        nb_ = rng.choice([1, 2, 3])
        frb = np.array([[rng.uniform(0.3, 20.0) * (-1 if rng.random() < 0.03 else 1) for _ in range(nb_)] for _ in range(nq_big)])
        cb = dict(nq=nq_big, nb=nb_, fr=frb, w=[rng.randint(1, 48) for _ in range(nq_big)], cut=rng.choice([None, 0.5]), pretend=False,
                  classical=rng.random() < 0.2, bi=None, temps=[0.0, rng.uniform(20, 200), rng.uniform(300, 1500)], style="many-qpoints")
        mesh_cases.append(cb)
        lines.append(mesh_request(cb))
        meta.append(("mesh", cb))
        run.count("nq=%d" % nq_big if nq_big in (1, 2, 255, 256, 257, 511, 513, 1000, 2047, 2049, 4097) else "nq in 300..600")

    # sizes over orders of magnitude, C kernel and Python path against the documented closed forms (no Lean model: cheap numpy reference)
    big = [(rng.randint(1500, 5000), rng.choice([1, 2, 3]), 3), (1, 1, 1), (1, rng.choice([211, 600]), 2), (rng.choice([7, 13]), 7, rng.choice([97, 500])),
           (rng.choice([1031, 1499]), 1, 2)] + ([(rng.randint(5000, 20000), 3, 4), (3, 3000, 3), (2, 2, 5000)] if thorough else [])
    for (nq_, nb_, nt_) in big:
        frb = np.array([[rng.uniform(0.3, 20.0) * (-1 if rng.random() < 0.02 else 1) for _ in range(nb_)] for _ in range(nq_)])
        wb = [rng.randint(1, 48) for _ in range(nq_)]
        tb = sorted([0.0] + [rng.uniform(5, 1500) for _ in range(nt_ - 1)]) if nt_ > 1 else [rng.uniform(50, 500)]
        optb = dict(cut=rng.choice([None, 0.5]), pretend=rng.random() < 0.2, classical=rng.random() < 0.2)
        infob = dict(style="size-sweep", nq=nq_, nb=nb_, nt=nt_, weights="random integers 1..48 (seeded)", first_weights=wb[:8], cutoff=optb["cut"], pretend_real=optb["pretend"],
                     classical=optb["classical"], temperatures=tb[:8], first_frequencies_THz=frb[:2].tolist() if nb_ < 10 else frb[0, :8].tolist())
        for lang in ("C", "Py"):
            tp_, t__, f__, s__, c__ = run_tp(FakeMesh(frb, wb), tb, lang, cutoff_frequency=optb["cut"], pretend_real=optb["pretend"], classical=optb["classical"])
            against_closed_form(run, units, "ThermalProperties.run(lang='%s')" % lang, "closed-form", (t__, f__, s__, c__), frb, wb, tb, dict(lang=lang, **infob), **optb)
        run.case(("size-sweep", nq_, nb_, nt_, frb.tobytes(), tuple(wb[:50])), nontrivial=True)
        run.count("size-sweep nq~1e%d nb~1e%d nt~1e%d" % (int(math.log10(nq_)), int(math.log10(nb_)), int(math.log10(nt_))))
        run.count("oracle-closed-form", section="oracle")

    # the generated loop nest of phpy_get_thermal_properties vs the compiled kernel itself (eV units, no Python layer)
    import phonopy._phonopy as phonoc

    for c in mesh_cases:
        if not hasattr(phonoc, "thermal_properties"):
            run.count("intermediate hook unavailable: phonopy._phonopy.thermal_properties", section="oracle")
            break
        kept = np.array([t for t in c["temps"] if not (t < 0)], dtype="double")
        if c["nq"] * c["nb"] * len(kept) > 400 or sum(1 for m_ in meta if m_[0] == "cloop") >= (300 if thorough else 40):
            continue
        fe = np.array((np.abs(c["fr"]) if c["pretend"] else c["fr"]) * units.THzToEv, dtype="double", order="C")
        cut = 0.0 if (c["cut"] is None or c["cut"] < 0) else c["cut"] * units.THzToEv
        props = np.zeros((len(kept), 3), dtype="double", order="C")
        phonoc.thermal_properties(props, kept, fe, np.array(c["w"], dtype="int64"), cut, int(c["classical"]))
        lines.append("cloop %d %s %d %d %d %s %s %s" % (int(c["classical"]), fb(cut), len(kept), c["nq"], c["nb"], fbs(kept), fbs(fe), fbs(c["w"])))
        meta.append(("cloop", (c, kept, fe, cut, props.copy())))

    # hand-made: a mode between 0 and the cutoff (zero-point energy of an ignored mode)
    c = dict(nq=2, nb=3, fr=np.array([[0.5, 1.0, 5.0], [-0.3, 2.0, 7.0]]), w=[1, 2], cut=0.7, pretend=False, classical=False, bi=None,
             temps=[0.0, 0.1, 0.3, 1.0, 10.0, 300.0, 1e5], style="zpe-below-cutoff")
    mesh_cases.append(c)
    lines.append(mesh_request(c))
    meta.append(("mesh", c))

    # ---------------------------------------------------------------- projection on synthetic eigenvectors, all option combinations
    from phonopy.phonon.thermal_properties import ThermalProperties as _TP

    nproj = 150 if thorough else 12
    for _ in range(nproj):
        nq, nb = rng.randint(1, 3), rng.choice([3, 6])
        fr = np.array([[rng.uniform(0.2, 20.0) * (-1 if rng.random() < 0.15 else 1) for _ in range(nb)] for _ in range(nq)])
        ev = np.array([rand_unitary(rng, nb) for _ in range(nq)])
        w = [rng.randint(1, 5) for _ in range(nq)]
        cut = rng.choice([None, None, 0.0, rng.uniform(0.3, 5.0)])
        pretend, cl = rng.random() < 0.4, rng.random() < 0.25
        bsel = rng.choice(["none", "none", "subset", "permutation"])
        bi = None if bsel == "none" else [sorted(rng.sample(range(nb), rng.randint(1, nb - 1)))] if bsel == "subset" else [rng.sample(range(nb), nb)]
        temps = [0.0, 10 ** rng.uniform(-2, 0), rng.uniform(5, 900), 10 ** rng.uniform(3.5, 5)]
        pinfo = dict(kind="synthetic-projection", nq=nq, nb=nb, weights=w, cutoff=cut, pretend_real=pretend, classical=cl, band_indices=bi,
                     frequencies_THz=fr.tolist(), temperatures=temps)
        run.case(("proj", fr.tobytes(), ev.tobytes(), tuple(w), cut, pretend, cl, repr(bi)), nontrivial=True)
        run.count("projection band_indices=" + bsel)
        site_kf = "ThermalProperties(is_projection=True, band_indices=...)"
        try:
            with warnings.catch_warnings():
                warnings.simplefilter("ignore")
                with np.errstate(all="ignore"):
                    tp = _TP(FakeMesh(fr, w, ev), cutoff_frequency=cut, pretend_real=pretend, band_indices=bi, is_projection=True, classical=cl)
                    tp.temperatures = temps
                    tp.run()
        except ValueError as e:
            if bi is None:
                raise
            run.violation(site_kf, "projection-band-indices", "is_projection with band_indices raises %s: %s" % (type(e).__name__, e), pinfo)
            continue
        ptp = projected(run, tp, pinfo)
        if ptp is None:
            continue
        tt, tF, tS, tC = tp.thermal_properties
        bad = False
        for nm, comp, ref, fl in (("free energy", ptp[1], tF, conv * 0.1), ("entropy", ptp[2], tS, kB * conv * 1000 * nb), ("heat capacity", ptp[3], tC, kB * conv * 1000 * nb)):
            ssum = np.asarray(comp).sum(axis=1)
            okm = np.isfinite(ssum) & np.isfinite(ref)
            if np.any(np.abs(ssum[okm] - np.asarray(ref)[okm]) > 1e-9 * np.maximum(np.abs(np.asarray(ref)[okm]), fl)):
                bad = True
                run.violation(site_kf if bi is not None else "ThermalProperties.run (is_projection)", "projection-band-indices" if bi is not None else "projection-sum",
                              "projected %s components do not add up to the total (unitary eigenvectors)" % nm, pinfo)
                break
        run.count("oracle-projection-sum", section="oracle")
        if bad:
            continue
        bil = list(range(nb)) if bi is None else list(np.hstack(bi).astype(int))
        e2 = np.abs(ev[:, :, bil]) ** 2
        lines.append(proj_request(cl, pretend, cut, w, fr, e2, bi, temps))
        meta.append(("proj", (ptp, pinfo)))

    # ---------------------------------------------------------------- temperatures setter
    tl = [rng.uniform(-5, 5) for _ in range(8)] + [0.0, -0.0]
    lines.append("keeptemps %d %s" % (len(tl), fbs(tl)))
    meta.append(("keeptemps", tl))

    # ---------------------------------------------------------------- temperature grid (set_temperature_range / run keywords)
    ngrid = 300 if thorough else 20
    grid_cases = [(None, None, None), (0, 1000, 10), (0.0, 100.0, 0.1), (5, 5, 1), (10, 0, 2), (-5, 20, 5), (0, 1, 0.3), (1.5, 9.0, -1), (0, 10, 0)]
    for _ in range(ngrid):
        r = rng.random()
        tmin = None if r < 0.15 else rng.choice([0, 0.0, rng.uniform(-20, 300), float(rng.randint(0, 50))])
        tmax = None if rng.random() < 0.15 else rng.choice([rng.uniform(-10, 1500), float(rng.randint(1, 200) * 10), 1000])
        tstep = None if rng.random() < 0.15 else rng.choice([10, 1, 0.1, 0.3, 2.5, rng.uniform(0.05, 40), -rng.uniform(0, 5), 0, 1 / 3, 7])
        if tmin is not None and tmax is not None and tstep and tstep > 0 and (tmax - (tmin or 0)) / tstep > 20000:
            tstep = 10
        grid_cases.append((tmin, tmax, tstep))
    for g in grid_cases:
        lines.append("temprange %d %s %d %s %d %s" % (int(g[0] is not None), fb(g[0] or 0.0), int(g[1] is not None), fb(g[1] or 0.0), int(g[2] is not None), fb(g[2] or 0.0)))
        meta.append(("temprange", g))
        run.case(("temprange",) + tuple(g), nontrivial=True)
        run.count("temperature-grid")

    # ---------------------------------------------------------------- real crystals through the API
    api_cases = []
    napi = 30 if thorough else 3
    for _ in range(napi):
        name = rng.choice(["nacl_prim", "cscl", "zincblende_prim", "bcc", "hcp"])
        cell, cen = gen.make_cell(name)
        ph = gen.make_phonopy(cell, np.diag([2, 2, 2]), pmat="P")
        ph.force_constants = gen.pair_fc(ph.supercell, cutoff=0.9 * gen.min_lattice_vector(ph.supercell.cell) / 2 * 1.2)
        msh = rng.choice([[2, 2, 2], [3, 3, 3], [2, 3, 4]])
        proj = rng.random() < 0.5
        ph.run_mesh(msh, with_eigenvectors=proj, is_mesh_symmetry=not proj)
        nb = ph.mesh.frequencies.shape[1]
        kw = dict(cutoff_frequency=rng.choice([None, 0.5, 1.5]), pretend_real=rng.random() < 0.5, classical=rng.random() < 0.3)
        if not proj and rng.random() < 0.4:
            kw["band_indices"] = [sorted(rng.sample(range(nb), rng.randint(1, nb)))]
        temps = [0.0, 0.2, 5.0, 77.0, 300.0, 2000.0]
        grid = None
        if rng.random() < 0.5:
            grid = (rng.choice([0, 0.0, 50]), rng.choice([300, 450.0, 1000]), rng.choice([50, 75.0, 100]))
        with warnings.catch_warnings():
            warnings.simplefilter("ignore")
            with np.errstate(all="ignore"):
                if grid is None:
                    ph.run_thermal_properties(temperatures=temps, is_projection=proj, **kw)
                else:
                    ph.run_thermal_properties(t_min=grid[0], t_max=grid[1], t_step=grid[2], is_projection=proj, **kw)
        d = ph.get_thermal_properties_dict()
        tpo = ph.thermal_properties
        if grid is not None:
            temps = [float(t) for t in tpo.temperatures]
            lines.append("temprange 1 %s 1 %s 1 %s" % (fb(grid[0]), fb(grid[1]), fb(grid[2])))
            meta.append(("temprange-api", (grid, temps)))
            run.count("api temperature grid")
        c = dict(nq=len(ph.mesh.weights), nb=nb, fr=np.array(ph.mesh.frequencies), w=list(map(int, ph.mesh.weights)), cut=kw["cutoff_frequency"],
                 pretend=kw["pretend_real"], classical=kw["classical"], bi=kw.get("band_indices"), temps=temps, style="api:" + name)
        lines.append(mesh_request(c))
        meta.append(("api", (c, d, tpo.zero_point_energy, dict(cell=name, mesh=msh, proj=proj, kw={k: (v if not isinstance(v, list) else v) for k, v in kw.items()}))))
        if proj:
            e2 = np.abs(ph.mesh.eigenvectors) ** 2
            lines.append(proj_request(kw["classical"], kw["pretend_real"], kw["cutoff_frequency"], c["w"], ph.mesh.frequencies, e2, None, temps))
            ptp_ = projected(run, tpo, dict(cell=name, mesh=msh))
            if ptp_ is not None:
                meta.append(("proj", (ptp_, dict(cell=name, mesh=msh, kw=kw, totals={k_: np.array(v_) for k_, v_ in d.items()}))))
            else:
                lines.pop()
        # ---- call SEQUENCE on this one object and one mesh: one option changes per call, every call against the closed forms
        #      for the options of THAT call (a result cached from an earlier call with other options shows at once)
        frm, wm = np.array(ph.mesh.frequencies), list(map(int, ph.mesh.weights))
        cur = dict(cutoff_frequency=None, pretend_real=False, band_indices=None, is_projection=False, classical=False)
        tcur = dict(temperatures=[0.0, 3.0, 90.0, 700.0])
        steps = [("start", {}), ("classical", dict(classical=True)), ("classical", dict(classical=False)), ("cutoff_frequency", dict(cutoff_frequency=rng.choice([0.8, 2.0]))),
                 ("classical", dict(classical=True)), ("pretend_real", dict(pretend_real=True)), ("band_indices", dict(band_indices=[sorted(rng.sample(range(nb), rng.randint(1, nb)))])),
                 ("classical", dict(classical=False)), ("temperatures", None), ("grid", None), ("classical", dict(classical=True)), ("band_indices", dict(band_indices=None)),
                 ("cutoff_frequency", dict(cutoff_frequency=None)), ("classical", dict(classical=False))]
        if proj:
            steps += [("is_projection", dict(is_projection=True)), ("classical", dict(classical=True)), ("is_projection", dict(is_projection=False))]
        hist = []
        for (what, chg) in steps:
            if what == "temperatures":
                tcur = dict(temperatures=sorted(rng.uniform(1, 1200) for _ in range(4)))
            elif what == "grid":
                tcur = dict(t_min=rng.choice([0, 100]), t_max=rng.choice([400, 650.0]), t_step=rng.choice([50, 110]))
            else:
                cur.update(chg)
            hist.append((what, None if chg is None else dict(chg)))
            with warnings.catch_warnings():
                warnings.simplefilter("ignore")
                with np.errstate(all="ignore"):
                    ph.run_thermal_properties(**tcur, **cur)
            dd = ph.get_thermal_properties_dict()
            if "temperatures" in tcur:
                texp = tcur["temperatures"]
            else:
                texp = list(np.arange(tcur["t_min"], tcur["t_max"] + tcur["t_step"] / 2.0, tcur["t_step"], dtype="double"))
            ok_ = against_closed_form(run, units, "Phonopy.run_thermal_properties (call sequence on one object)", "call-sequence",
                                      (dd["temperatures"], dd["free_energy"], dd["entropy"], dd["heat_capacity"]), frm, wm, texp,
                                      dict(cell=name, mesh=msh, changed_in_this_call=what, options=dict(cur), temperature_arguments={k_: (list(v_) if isinstance(v_, list) else v_) for k_, v_ in tcur.items()},
                                           history=[h_[0] for h_ in hist]),
                                      cut=cur["cutoff_frequency"], pretend=cur["pretend_real"], bi=cur["band_indices"], classical=cur["classical"])
            run.count("sequence step: " + what)
            run.count("oracle-call-sequence", section="oracle")
            if not ok_:
                break
        api_cases.append(c)
        run.case(("api", name, msh, proj, repr(kw)), nontrivial=True)
        run.count("api " + name)
        run.count("projection" if proj else "no-projection")

    # ---------------------------------------------------------------- argument TYPES of the public entry points (child process, see c10_util.py)
    import json as _json

    tkinds = ["float32", "float16", "longdouble", "int32", "int64", "uint16", "float64", "list", "tuple", "list-of-numpy-scalars", "strided", "fortran-column", "reversed-view", "range"]
    bkinds = ["list", "tuple", "int32", "int64", "intc", "uint8", "list-of-numpy-ints"]
    skinds = ["python", "float32", "float64", "int64", "int32", "float16"]
    nqt, nbt = 3, 4
    frt = [[rng.uniform(1.0, 15.0) for _ in range(nbt)] for _ in range(nqt)]
    wt = [rng.randint(1, 6) for _ in range(nqt)]
    tcases = []
    order = list(tkinds)
    rng.shuffle(order)
    for n_, tk in enumerate(["float32", "float16", "longdouble"] + [k_ for k_ in order if k_ not in ("float32", "float16", "longdouble")]):
        temps_v = [0.0, 8.0, 64.0, 256.0, 1024.0] if tk != "range" else [0.0, 100.0, 200.0, 300.0]   # exactly representable in every type
        bi_v = rng.choice([None, [[0, 2], [3]], [[1, 2, 3]]])
        for lang in ("C", "Py"):
            tcases.append(dict(id=len(tcases), route="class", lang=lang, temps=temps_v, temps_kind=tk, grid=None, grid_kind="python", frequencies=frt, weights=wt,
                               cutoff=rng.choice([None, 0.5, 2]), cutoff_kind=rng.choice(skinds) , band_indices=bi_v, band_indices_kind=rng.choice(bkinds), classical=rng.random() < 0.2))
    for gk in skinds[1:]:
        tcases.append(dict(id=len(tcases), route="class", lang=rng.choice(["C", "Py"]), temps=None, temps_kind=None, grid=[0, 512, 64], grid_kind=gk, frequencies=frt, weights=wt,
                           cutoff=None, cutoff_kind="python", band_indices=None, band_indices_kind="list", classical=False))
    for tk in ["float32", rng.choice(["float16", "longdouble", "int32", "tuple"])]:
        tcases.append(dict(id=len(tcases), route="api", lang="C", temps=[0.0, 16.0, 128.0, 512.0], temps_kind=tk, grid=None, grid_kind="python", frequencies=None, weights=None,
                           cutoff=0.5, cutoff_kind=rng.choice(skinds), band_indices=rng.choice([None, [[0, 1, 2], [4, 5]]]), band_indices_kind=rng.choice(bkinds), classical=False))
    tcases.append(dict(id=len(tcases), route="api", lang="C", temps=None, temps_kind=None, grid=[0, 256, 32], grid_kind=rng.choice(skinds[1:]), frequencies=None, weights=None,
                       cutoff=0.5, cutoff_kind="python", band_indices=None, band_indices_kind="list", classical=False))
    for tc in tcases:
        if tc["cutoff_kind"] in ("int64", "int32") and tc["cutoff"] is not None:
            tc["cutoff"] = int(tc["cutoff"]) if float(tc["cutoff"]).is_integer() else None
        if tc["cutoff"] is None:
            tc["cutoff_kind"] = "python"
    env_ = dict(os.environ, VERIF_REPO=common.REPO, PYTHONDONTWRITEBYTECODE="1")
    pr = subprocess.run([sys.executable, "-m", "harness.props.c10_util"], input=_json.dumps(dict(verif=common.VERIF, cases=tcases)), capture_output=True, text=True,
                        cwd=common.VERIF, env=env_, timeout=600)
    got = {}
    for ln_ in pr.stdout.split("\n"):
        if ln_.startswith("{"):
            r_ = _json.loads(ln_)
            got[r_["id"]] = r_
    for tc in tcases:
        desc = dict(route=tc["route"], lang=tc["lang"], temperatures=tc["temps"], temperatures_type=tc["temps_kind"], t_min_max_step=tc["grid"], t_min_max_step_type=tc["grid_kind"],
                    cutoff_frequency=tc["cutoff"], cutoff_type=tc["cutoff_kind"], band_indices=tc["band_indices"], band_indices_type=tc["band_indices_kind"], classical=tc["classical"],
                    weights=tc["weights"], frequencies_THz=tc["frequencies"])
        site = "Phonopy.run_thermal_properties (argument types)" if tc["route"] == "api" else "ThermalProperties.run(lang='%s') (argument types)" % tc["lang"]
        run.case(("argtype", tc["route"], tc["lang"], tc["temps_kind"], tc["grid_kind"], tc["cutoff_kind"], tc["band_indices_kind"], repr(tc["band_indices"]), tc["classical"]), nontrivial=True)
        run.count("temperatures as %s" % (tc["temps_kind"] or "t_min/t_max/t_step " + tc["grid_kind"]))
        r_ = got.get(tc["id"])
        if r_ is None:
            run.violation(site, "argument-type", "the process running this call died (exit code %s) before answering: %s" % (pr.returncode, pr.stderr[-300:]), desc)
            break
        if "exception" in r_:
            run.violation(site, "argument-type", "a legal argument type is rejected: " + r_["exception"], desc)
            continue
        texp = tc["temps"] if tc["grid"] is None else list(np.arange(tc["grid"][0], tc["grid"][1] + tc["grid"][2] / 2.0, tc["grid"][2], dtype="double"))
        fr_ = np.array(tc["frequencies"] if tc["route"] == "class" else r_["frequencies"])
        w_ = tc["weights"] if tc["route"] == "class" else r_["weights"]
        against_closed_form(run, units, site, "argument-type", (r_["t"], r_["F"], r_["S"], r_["Cv"]), fr_, w_, texp, desc,
                            cut=tc["cutoff"], bi=tc["band_indices"], classical=tc["classical"])
        run.count("oracle-argument-types", section="oracle")

    # ---------------------------------------------------------------- description invariance: the same crystal on relabelled (left-handed) lattice vectors
    nrel = 4 if thorough else 2
    for n_ in range(nrel):
        name = rng.choice(["nacl_prim", "cscl", "zincblende_prim"])
        mname = rng.choice(["swap12", "negate3", "invert"]) if n_ == 0 else rng.choice(sorted(gen.UNIMODULAR))
        with_nac = (n_ % 2 == 0) if rng.random() < 0.8 else rng.random() < 0.5
        cell0, _cen = gen.make_cell(name)
        cell1, qmap_, smap_ = gen.relabelled_cell(cell0, gen.UNIMODULAR[mname])
        nm_ = rng.choice([3, 5]) if rng.random() < 0.6 else rng.choice([2, 4])
        kwm = dict(is_gamma_center=True)
        cutf = rng.choice([0.3, 0.8])
        temps = [0.0, 2.0, 60.0, 300.0, 1500.0]
        res = []
        failed = False
        for cell_, smat_ in ((cell0, np.diag([2, 2, 2])), (cell1, smap_(np.diag([2, 2, 2])))):
            try:
                ph = gen.make_phonopy(cell_, smat_, pmat="P")
                ph.force_constants = gen.pair_fc(ph.supercell, cutoff=0.9 * gen.min_lattice_vector(ph.supercell.cell) / 2 * 1.2)
                if with_nac:
                    npa = len(ph.primitive)
                    zs = [1.1 * (-1) ** a_ for a_ in range(npa)]
                    zs[-1] -= sum(zs)  # neutral
                    ph.nac_params = dict(born=np.array([z_ * np.eye(3) for z_ in zs]), dielectric=2.4 * np.eye(3), factor=14.399652)
                ph.run_mesh([nm_, nm_, nm_], **kwm)
                with warnings.catch_warnings():
                    warnings.simplefilter("ignore")
                    with np.errstate(all="ignore"):
                        ph.run_thermal_properties(temperatures=temps, cutoff_frequency=cutf)
            except Exception as e_:
                if cell_ is cell0:
                    raise
                # the original description of the same crystal went through: a failing input of the public call sequence
                run.violation("Phonopy.run_thermal_properties (relabelled lattice vectors)", "description-dependence",
                              "%s: %s on the relabelled (%s) description; the original description of the same crystal works" % (type(e_).__name__, e_, mname),
                              dict(cell=name, relabelling=mname, lattice=np.array(cell_.cell).tolist(), volume=float(cell_.volume), supercell_matrix=np.array(smat_).tolist(),
                                   mesh=[nm_] * 3, nac=with_nac, cutoff_frequency=cutf))
                failed = True
                break
            dd = ph.get_thermal_properties_dict()
            info_r = dict(cell=name, relabelling=mname if cell_ is cell1 else "original", lattice=np.array(cell_.cell).tolist(), volume=float(cell_.volume), supercell_matrix=np.array(smat_).tolist(),
                          mesh=[nm_] * 3, gamma_centred=True, nac=with_nac, cutoff_frequency=cutf, temperatures=temps)
            against_closed_form(run, units, "Phonopy.run_thermal_properties (relabelled lattice vectors)", "closed-form",
                                (dd["temperatures"], dd["free_energy"], dd["entropy"], dd["heat_capacity"]), np.array(ph.mesh.frequencies), list(map(int, ph.mesh.weights)), temps, info_r, cut=cutf)
            res.append((dd, info_r, np.array(ph.mesh.frequencies), np.array(ph.mesh.weights)))
        if failed:
            continue
        (d0, i0, f0_, w0_), (d1, i1, f1_, w1_) = res
        kJ_ = units.EvTokJmol * units.Kb * 1000 * f0_.shape[1]
        # frequencies within 1e-6 THz of the cutoff may fall on either side of it in the two descriptions (rounding): then the comparison says nothing
        edge = bool(np.any(np.abs(f0_ - cutf) < 1e-6) or np.any(np.abs(f1_ - cutf) < 1e-6))
        if not edge:
            for key, fl in (("free_energy", units.EvTokJmol * float(np.abs(f0_).max()) * units.THzToEv * f0_.shape[1]), ("entropy", kJ_), ("heat_capacity", kJ_)):
                if not all(same(float(a_), float(b_), fl, 1e-8) for a_, b_ in zip(d1[key], d0[key])):
                    run.violation("Phonopy.run_thermal_properties (relabelled lattice vectors)", "description-dependence",
                                  "%s differs between the original and the relabelled (%s, det %+d) description of the same crystal: %r vs %r" % (
                                      key, mname, int(round(np.linalg.det(np.array(gen.UNIMODULAR[mname])))), np.array(d1[key]).tolist(), np.array(d0[key]).tolist()), i1)
                    break
        run.case(("relabel", name, mname, nm_, with_nac, cutf), nontrivial=True)
        run.count("relabelled description %s (det %+d)%s" % (mname, int(round(np.linalg.det(np.array(gen.UNIMODULAR[mname])))), " with NAC" if with_nac else ""))
        run.count("oracle-description-invariance", section="oracle")

    # ================================================================== model run
    out = common.lean_run_driver("C10", lines)
    if len(out) != len(lines):
        run.broke("correspondence", "driver answered %d lines for %d requests" % (len(out), len(lines)))
        return
    tr_pyS, tr_pyCv, tr_zpe = FormTracker("run_entropy"), FormTracker("run_heat_capacity"), FormTracker("zero_point_energy")
    ncmp = 0
    nan_seen = {"C": None, "Py": None}
    kJ = conv * kB * 1000  # k_B in J/K/mol: the scale of S and C_V per mode

    for (kind, info), line in zip(meta, out):
        if line == "bad-op":
            run.broke("correspondence", "model rejected a well-formed request (%s)" % kind, str(info)[:300])
            continue
        vals = [bf(t) for t in line.split() if t != "n"]
        if kind == "consts":
            names = ["KB(c/phonopy.c)", "Kb", "THzToEv", "EvTokJmol", "EVAngstromToGPa", "kb_J", "EV", "Avogadro", "PlanckConstant"]
            refs = [kb_c, units.Kb, units.THzToEv, units.EvTokJmol, units.EVAngstromToGPa, units.kb_J, units.EV, units.Avogadro, units.PlanckConstant]
            for n_, v, r in zip(names, vals, refs):
                ncmp += 1
                if fb(v) != fb(r):
                    run.broke("correspondence", "constant %s: generated Lean value %r is not bit-identical to the source's %r" % (n_, v, r))
            run.count("constants", len(names), section="correspondence")
            continue
        if kind == "mode":
            x, T, f, cl = info
            cF_, cS_, cCv_, pF_, pS_, pCv_, pZ_, pS2_, pCv2_ = vals
            ci = c_mode(T, f, cl)
            pi = py_mode(T, f, cl)
            if ci is None or pi is None:
                # optional refinement (the mesh-level correspondence through ThermalProperties.run ties the same model definitions)
                run.count("intermediate hook unavailable: " + ("phonopy._phonopy.thermal_properties" if ci is None else "thermal_properties.mode_F/mode_S/mode_cv/mode_ZPE"), section="oracle")
                continue
            ncmp += 7
            kT = kB * T
            ex = cond(x)
            for nm, a, b, fl in (("get_free_energy", ci[0], cF_, max(kT, f)), ("get_entropy", ci[1], cS_, kB), ("get_heat_capacity", ci[2], cCv_, kB),
                                 ("mode_F", pi[0], pF_, max(kT, f)), ("mode_ZPE", pi[3], pZ_, f)):
                if not same(a, b, fl, ex):
                    run.broke("correspondence", "%s(T=%r, f=%r, classical=%r): implementation %r, model %r" % (nm, T, f, cl, a, b),
                              dict(x=x, T=T, f=f, classical=cl))
            tr_S.see(pi[1], (pS_, pS2_), kB, dict(x=x, T=T, f=f, classical=cl), ex)
            tr_Cv.see(pi[2], (pCv_, pCv2_), kB, dict(x=x, T=T, f=f, classical=cl), ex)
            run.count("mode", section="correspondence")
            # ---- oracle on the implementation, per mode
            for lang, v in (("C", (ci[0] + (0 if cl else f / 2), ci[1], ci[2])), ("Py", pi[:3])):
                if not all(math.isfinite(u) for u in v):
                    if nan_seen[lang] is None or x < nan_seen[lang]["x"]:
                        nan_seen[lang] = dict(x=x, T=T, f_eV=f, classical=cl, F=v[0], S=v[1], Cv=v[2])
                else:
                    if not cl:
                        if v[1] < -1e-9 * kB or v[2] < -1e-9 * kB or v[2] > kB * (1 + 1e-9 + ex):
                            run.violation("mode_S/mode_cv" if lang == "Py" else "phpy_get_thermal_properties", "sign-or-bound",
                                          "S=%r, Cv=%r violate 0<=S, 0<=Cv<=k (lang %s)" % (v[1], v[2], lang), dict(x=x, T=T, f=f))
            if all(math.isfinite(u) for u in list(ci) + list(pi)):
                for nm, a, b, fl in (("F", ci[0] + pi[3], pi[0], max(kT, f)), ("S", ci[1], pi[1], kB), ("Cv", ci[2], pi[2], kB)):
                    if not same(a, b, fl, ex):
                        run.violation("ThermalProperties.run(lang='C') vs mode_" + nm, "c-ne-py-mode", "%s: C %r, Py %r" % (nm, a, b), dict(x=x, T=T, f=f, classical=cl))
            run.count("oracle-mode", section="oracle")
            continue
        if kind == "cloop":
            c, kept, fe, cut, props = info
            model = np.array(vals).reshape(len(kept), 3)
            incl = fe[fe > cut]
            fmin = float(incl.min()) if incl.size else 1.0
            nint = float(np.sum(np.array(c["w"])[:, None] * (fe > cut)))
            for i, t in enumerate(kept):
                ex = cond(fmin / (kB * t)) if t > 0 else 0.0
                floors = (max(kB * t, float(np.abs(fe).max())) * max(nint, 1.0), kB * max(nint, 1.0), kB * max(nint, 1.0))
                for cidx, nm in enumerate(("free energy", "entropy", "heat capacity")):
                    ncmp += 1
                    if not same(float(props[i, cidx]), float(model[i, cidx]), floors[cidx], ex):
                        run.broke("correspondence", "compiled loop nest vs generated Lean loop, %s at T=%r: kernel %r, model %r" % (nm, t, props[i, cidx], model[i, cidx]),
                                  dict(style=c["style"], nq=c["nq"], nb=c["nb"], cutoff_eV=cut, classical=c["classical"], weights=c["w"], frequencies_eV=fe.tolist(), temperatures=kept.tolist()))
            run.count("generated-loop", section="correspondence")
            continue
        if kind == "temprange-api":
            grid, g1 = info
            ncmp += 1
            if [fb(t) for t in g1] != [fb(t) for t in vals]:
                run.broke("correspondence", "Phonopy.run_thermal_properties(t_min=%r, t_max=%r, t_step=%r): temperatures %r, model %r" % (grid + (g1, vals)))
            continue
        if kind == "temprange":
            from phonopy.phonon.thermal_properties import ThermalProperties

            tmin, tmax, tstep = info
            tp1 = ThermalProperties(FakeMesh([[1.0]], [1]))
            tp1.set_temperature_range(t_min=tmin, t_max=tmax, t_step=tstep)
            g1 = list(tp1.temperatures)
            ncmp += 1
            mg = vals_grid = [bf(t) for t in line.split()[1:]]
            if [fb(t) for t in g1] != [fb(t) for t in mg]:
                run.broke("correspondence", "set_temperature_range(t_min=%r, t_max=%r, t_step=%r): implementation %d values %r…%r, model %d values %r…%r" % (
                    tmin, tmax, tstep, len(g1), g1[:2], g1[-2:], len(mg), mg[:2], mg[-2:]), dict(t_min=tmin, t_max=tmax, t_step=tstep))
            # deprecated keywords of run() take the same path
            tp2 = ThermalProperties(FakeMesh([[1.0]], [1]))
            tp2.temperatures = [1.0]
            with warnings.catch_warnings():
                warnings.simplefilter("ignore")
                with np.errstate(all="ignore"):
                    if tmin is not None or tmax is not None or tstep is not None:
                        tp2.run(t_step=tstep, t_max=tmax, t_min=tmin)
                        if [fb(t) for t in tp2.temperatures] != [fb(t) for t in g1]:
                            run.violation("ThermalProperties.run(t_step, t_max, t_min)", "grid-differs", "run keywords give a different grid than set_temperature_range", dict(t_min=tmin, t_max=tmax, t_step=tstep))
            # oracle: documented meaning — starts at max(t_min, 0), constant positive step, last point within half a step of t_max, never beyond t_max + step/2
            lo = 10 if tmin is None else max(tmin, 0)
            hi = 1000 if tmax is None else max(tmax, lo)
            st = 10 if (tstep is None or not tstep > 0) else tstep
            if len(g1) == 0 or abs(g1[0] - lo) > 0 or abs(g1[-1] - hi) > st / 2 * (1 + 1e-9) + 1e-9 * max(1.0, abs(hi)) or any(abs((b - a) - st) > 1e-9 * max(1.0, abs(hi)) for a, b in zip(g1, g1[1:])):
                run.violation("ThermalProperties.set_temperature_range", "grid-meaning", "grid %r…%r (%d points) for t_min=%r t_max=%r t_step=%r" % (g1[:2], g1[-2:], len(g1), tmin, tmax, tstep),
                              dict(t_min=tmin, t_max=tmax, t_step=tstep))
            run.count("temperature-grid", section="correspondence")
            continue
        if kind == "keeptemps":
            from phonopy.phonon.thermal_properties import ThermalProperties

            tp = ThermalProperties(FakeMesh([[1.0]], [1]))
            tp.temperatures = info
            ncmp += 1
            if [fb(t) for t in tp.temperatures] != [fb(v) for v in vals]:
                run.broke("correspondence", "temperatures setter keeps %r, model keeps %r" % (list(tp.temperatures), vals))
            if any(t < 0 for t in tp.temperatures):
                run.violation("ThermalProperties.temperatures", "negative-temperature-kept", "negative temperature kept", dict(temps=info))
            run.count("keeptemps", section="correspondence")
            continue
        if kind == "proj":
            ptp, pinfo = info
            t_, pfe, ps, pcv = ptp
            nt, nbp = pfe.shape
            arr = np.array(vals).reshape(nt, nbp, 5)
            sc = max(1.0, np.nanmax(np.abs(pfe)))
            ncmp += 3 * nt * nbp
            okS = [True, True]
            okC = [True, True]
            for i in range(nt):
                for j in range(nbp):
                    if not same(pfe[i, j], arr[i, j, 0], sc):
                        run.broke("correspondence", "projected free energy differs: impl %r model %r" % (pfe[i, j], arr[i, j, 0]), pinfo)
                    for k_ in (0, 1):
                        okS[k_] &= same(ps[i, j], arr[i, j, 1 + k_], kJ)
                        okC[k_] &= same(pcv[i, j], arr[i, j, 3 + k_], kJ)
            if not any(okS) or not any(okC):
                run.broke("correspondence", "projected entropy / heat capacity match neither modelled form", pinfo)
            # oracle: components add up to the unprojected totals (columns of |e|^2 sum to 1)
            tot = pinfo.get("totals")
            if tot is not None:
                for nm, comp, ref, fl in (("free energy", pfe, tot["free_energy"], sc), ("entropy", ps, tot["entropy"], kJ * nbp), ("heat capacity", pcv, tot["heat_capacity"], kJ * nbp)):
                    ssum = comp.sum(axis=1)
                    okm = np.isfinite(ssum) & np.isfinite(ref)
                    if np.any(np.abs(ssum[okm] - np.asarray(ref)[okm]) > 1e-9 * np.maximum(np.abs(np.asarray(ref)[okm]), fl)):
                        run.violation("ThermalProperties.run (is_projection)", "projection-sum", "projected %s components do not add up to the total" % nm, pinfo)
                run.count("oracle-projection-sum", section="oracle")
            run.count("projection", section="correspondence")
            continue
        # ---------------- mesh / api
        if kind == "api":
            c, d, zpe_impl, ainfo = info
        else:
            c = info
        kept = [t for t in c["temps"] if not (t < 0)]
        nt = len(kept)
        z0, zc, m_nmodes, m_nint = vals[0], vals[1], vals[2], vals[3]
        arr = np.array(vals[4:]).reshape(nt, 9)
        kw = dict(cutoff_frequency=c["cut"], pretend_real=c["pretend"], band_indices=c["bi"], classical=c["classical"])
        bi = list(np.hstack(c["bi"]).astype(int)) if c["bi"] is not None else list(range(c["nb"]))
        fsel = c["fr"][:, bi]
        if c["pretend"]:
            fsel = np.abs(fsel)
        fe_ev = fsel * units.THzToEv
        cut_ev = 0.0 if (c["cut"] is None or c["cut"] < 0) else c["cut"] * units.THzToEv
        wsum = float(np.sum(c["w"]))
        nint = float(np.sum(np.array(c["w"]) * (fe_ev > cut_ev).sum(axis=1)))
        nontriv = nint > 0 and any(t > 0 for t in kept)
        scaleF = conv * max(1e-30, float(np.abs(fe_ev).max())) * fe_ev.shape[1]
        floorS = kJ * max(1.0, nint / wsum)
        info_s = dict(style=c["style"], nq=c["nq"], nb=c["nb"], cutoff=c["cut"], pretend_real=c["pretend"], classical=c["classical"],
                      band_indices=c["bi"], weights=c["w"], frequencies_THz=c["fr"].tolist(), temperatures=c["temps"])
        if kind == "mesh":
            mesh = FakeMesh(c["fr"], c["w"])
            tpC, tC, fC, sC, cvC = run_tp(mesh, c["temps"], "C", **kw)
            tpP, tP, fP, sP, cvP = run_tp(mesh, c["temps"], "Py", **kw)
            zpe_impl = tpC.zero_point_energy
            for lang_, got_ in (("C", (tC, fC, sC, cvC)), ("Py", (tP, fP, sP, cvP))):
                if all(np.all(np.isfinite(np.asarray(a_, dtype="double"))) for a_ in got_):
                    against_closed_form(run, units, "ThermalProperties.run(lang='%s')" % lang_, "closed-form", got_, c["fr"], c["w"], c["temps"], dict(lang=lang_, **info_s),
                                        cut=c["cut"], pretend=c["pretend"], bi=c["bi"], classical=c["classical"])
            run.count("oracle-closed-form", section="oracle")
            ncmp += 2
            if float(tpC.number_of_modes) != m_nmodes or float(tpC.number_of_integrated_modes) != m_nint:
                run.broke("correspondence", "number_of_modes / number_of_integrated_modes: implementation %r / %r, model %r / %r" % (
                    tpC.number_of_modes, tpC.number_of_integrated_modes, m_nmodes, m_nint), info_s)
            # ---- oracle: the options mean what the documentation says (independent of the model)
            if c["bi"] is not None or c["pretend"]:
                eq_mesh = FakeMesh(np.abs(fsel) if c["pretend"] else fsel, c["w"])
                _, _, fE, sE, cvE = run_tp(eq_mesh, c["temps"], "Py", cutoff_frequency=c["cut"], classical=c["classical"])
                for nm, a, b, fl in (("F", fP, fE, scaleF), ("S", sP, sE, floorS), ("Cv", cvP, cvE, floorS)):
                    if not all(same(float(x), float(y), fl, 1e-12) for x, y in zip(a, b)):
                        run.violation("ThermalProperties(band_indices, pretend_real)", "option-semantics",
                                      "%s with band_indices=%r, pretend_real=%r differs from the run on the selected |nu| columns" % (nm, c["bi"], c["pretend"]), info_s)
                run.count("oracle-options", section="oracle")
            if float(tpC.number_of_integrated_modes) != nint or float(tpC.number_of_modes) != fe_ev.shape[1] * wsum:
                run.violation("ThermalProperties.number_of_integrated_modes", "mode-count", "num_modes %r, num_integrated_modes %r, expected %r, %r" % (
                    tpC.number_of_modes, tpC.number_of_integrated_modes, fe_ev.shape[1] * wsum, nint), info_s)
            run.case(("mesh", c["style"], c["nq"], c["nb"], c["cut"], c["pretend"], c["classical"], repr(c["bi"]), c["fr"].tobytes(), tuple(c["temps"])), nontrivial=nontriv)
            run.count("mesh " + c["style"])
            run.count("cutoff " + ("None" if c["cut"] is None else "<0" if c["cut"] < 0 else "0" if c["cut"] == 0 else ">0"))
            if c["bi"] is not None:
                run.count("band_indices")
            if c["pretend"]:
                run.count("pretend_real")
            run.sample(dict(kind="mesh", **{k: v for k, v in info_s.items() if k != "frequencies_THz"}))
        else:
            tC, fC, sC, cvC = d["temperatures"], d["free_energy"], d["entropy"], d["heat_capacity"]
            tP = fP = sP = cvP = None
        if len(tC) != nt:
            run.broke("correspondence", "implementation kept %d temperatures, model %d" % (len(tC), nt), info_s)
            continue
        # ---- correspondence
        ncmp += 4 * nt * (2 if tP is not None else 1) + 1
        tr_zpe.see(float(zpe_impl), (z0, zc), scaleF, info_s)
        incl = fe_ev[fe_ev > cut_ev]
        fmin = float(incl.min()) if incl.size else 1.0

        def exT(t):
            return cond(fmin / (kB * t)) if t > 0 else 0.0

        def scF(t):
            return max(scaleF, conv * kB * t * nint / wsum)

        for i, t in enumerate(kept):
            mi = arr[i]
            ex = exT(t)
            # compiled path: F uses the zero-point sum in one of two forms; S, Cv are the generated functions
            okF = [same(fC[i], mi[5], scF(t), ex), same(fC[i], mi[6], scF(t), ex)]
            if not any(okF):
                run.broke("correspondence", "lang=C free energy at T=%r: implementation %r, model %r / %r" % (t, fC[i], mi[5], mi[6]), info_s)
            if not same(sC[i], mi[7], floorS, ex):
                run.broke("correspondence", "lang=C entropy at T=%r: implementation %r, model %r" % (t, sC[i], mi[7]), info_s)
            if not same(cvC[i], mi[8], floorS, ex):
                run.broke("correspondence", "lang=C heat capacity at T=%r: implementation %r, model %r" % (t, cvC[i], mi[8]), info_s)
            if tP is not None:
                if not same(fP[i], mi[0], scF(t), ex):
                    run.broke("correspondence", "lang=Py free energy at T=%r: implementation %r, model %r" % (t, fP[i], mi[0]), info_s)
                tr_pyS.see(float(sP[i]), (mi[1], mi[2]), floorS, dict(T=t, **info_s), ex)
                tr_pyCv.see(float(cvP[i]), (mi[3], mi[4]), floorS, dict(T=t, **info_s), ex)
        run.count(kind, section="correspondence")

        # ---- oracle on the implementation (statement of the property, independent of the model)
        zpe_doc = float(np.sum(np.array(c["w"])[:, None] * np.where(fe_ev > cut_ev, fe_ev, 0.0)) / 2 / wsum * conv) if not c["classical"] else 0.0
        paths = [("C", fC, sC, cvC)] + ([("Py", fP, sP, cvP)] if tP is not None else [])
        for lang, F_, S_, Cv_ in paths:
            site = "ThermalProperties.run(lang='%s')" % lang
            for i, t in enumerate(kept):
                if not (math.isfinite(F_[i]) and math.isfinite(S_[i]) and math.isfinite(Cv_[i])):
                    xmax = float(fe_ev.max() / (kB * t)) if t > 0 else float("inf")
                    run.violation("ThermalProperties.run", "non-finite-large-hv-over-kT" if xmax > 700 else "non-finite",
                                  "lang=%s T=%r: F=%r S=%r Cv=%r (max h nu/kT = %.4g)" % (lang, t, F_[i], S_[i], Cv_[i], xmax),
                                  dict(lang=lang, T=t, **info_s))
                    continue
                if t == 0:
                    if not same(F_[i], zpe_doc, scaleF) or S_[i] != 0 or Cv_[i] != 0:
                        run.violation(site, "zpe-below-cutoff" if (same(S_[i], 0, 1) and Cv_[i] == 0 and np.any((fe_ev > 0) & (fe_ev <= cut_ev))) else "zero-temperature",
                                      "T=0: F=%r (zero-point energy of the modes above the cutoff: %r), S=%r, Cv=%r" % (F_[i], zpe_doc, S_[i], Cv_[i]),
                                      dict(lang=lang, **info_s))
                else:
                    if not c["classical"]:
                        if S_[i] < -TOL * floorS or Cv_[i] < -TOL * floorS or Cv_[i] > kJ * nint / wsum * (1 + 1e-9 + exT(t)) + TOL * floorS:
                            run.violation(site, "sign-or-bound", "T=%r: S=%r Cv=%r, bound k*n=%r" % (t, S_[i], Cv_[i], kJ * nint / wsum), dict(lang=lang, T=t, **info_s))
                    else:
                        if not same(Cv_[i], kJ * nint / wsum, floorS, exT(t)):
                            run.violation(site, "classical-cv", "classical Cv=%r, expected k*n=%r" % (Cv_[i], kJ * nint / wsum), dict(lang=lang, T=t, **info_s))
            # monotone in T (quantum)
            if not c["classical"]:
                fin = [(t, S_[i], Cv_[i]) for i, t in enumerate(kept) if math.isfinite(S_[i]) and math.isfinite(Cv_[i])]
                for (t1, s1, c1), (t2, s2, c2) in zip(fin, fin[1:]):
                    if s2 < s1 - (1e-7 + exT(t2)) * floorS or c2 < c1 - (1e-7 + exT(t2)) * floorS:
                        run.violation(site, "not-monotone", "S or Cv decreases from T=%r to T=%r: S %r -> %r, Cv %r -> %r" % (t1, t2, s1, s2, c1, c2), dict(lang=lang, **info_s))
        if tP is not None:
            for i, t in enumerate(kept):
                vals_ok = all(math.isfinite(v) for v in (fC[i], sC[i], cvC[i], fP[i], sP[i], cvP[i]))
                if not vals_ok:
                    continue
                if not same(fC[i], fP[i], scF(t), exT(t)):
                    zdiff = float(np.sum(np.array(c["w"])[:, None] * np.where((fe_ev > 0) & (fe_ev <= cut_ev), fe_ev, 0.0)) / 2 / wsum * conv)
                    below = bool(np.any((fe_ev > 0) & (fe_ev <= cut_ev))) and (c["classical"] or same(float(fC[i] - fP[i]), zdiff, scF(t), exT(t)))
                    run.violation("ThermalProperties.run(lang='C')", "zpe-below-cutoff" if below else "c-ne-py",
                                  "T=%r: free energy C %r, Py %r (modes in (0, cutoff]: %s)" % (t, fC[i], fP[i], below), dict(T=t, **info_s))
                if not same(sC[i], sP[i], floorS, exT(t)) or not same(cvC[i], cvP[i], floorS, exT(t)):
                    run.violation("ThermalProperties.run(lang='C')", "c-ne-py", "T=%r: S C %r Py %r; Cv C %r Py %r" % (t, sC[i], sP[i], cvC[i], cvP[i]), dict(T=t, **info_s))
        run.count("oracle-mesh", section="oracle")
        if kind == "api":
            if not same(float(zpe_impl), zpe_doc, scaleF) and not c["classical"]:
                below = bool(np.any((fe_ev > 0) & (fe_ev <= cut_ev)))
                run.violation("ThermalProperties.zero_point_energy", "zpe-below-cutoff" if below else "zpe", "zero_point_energy %r, modes above cutoff give %r" % (zpe_impl, zpe_doc), info_s)

    # ---------------------------------------------------------------- which forms does the implementation use?
    forms = {}
    for tr in (tr_S, tr_Cv, tr_pyS, tr_pyCv, tr_zpe):
        v = tr.verdict()
        forms[tr.name] = {0: "pinned", 1: "overflow-free / cutoff-consistent", None: "NEITHER"}[v] + " (%d comparisons)" % tr.n
        if v is None:
            b = tr.first_bad[0]
            run.broke("correspondence", "%s agrees with neither modelled form: implementation %r, pinned-form model %r" % (tr.name, b["implementation"], b["model"]), b["info"])
    run.cov["correspondence"]["forms"] = forms
    run.cov["correspondence"]["compared"] = ncmp

    # ---------------------------------------------------------------- finite-difference identities on the implementation
    nfd = 400 if thorough else 30
    for _ in range(nfd):
        nq, nb = rng.randint(1, 4), rng.randint(1, 6)
        fr = np.array([[rng.uniform(0.3, 20.0) for _ in range(nb)] for _ in range(nq)])
        w = [rng.randint(1, 6) for _ in range(nq)]
        cl = rng.random() < 0.25
        T = 10 ** rng.uniform(1.0, 3.3)
        h = T * 1e-4
        mesh = FakeMesh(fr, w)
        for lang in ("C", "Py"):
            _, t_, F_, S_, Cv_ = run_tp(mesh, [T - h, T, T + h], lang, classical=cl)
            if not np.all(np.isfinite(F_)) or not np.all(np.isfinite(S_)) or not np.all(np.isfinite(Cv_)):
                continue
            dF = (F_[2] - F_[0]) / (2 * h) * 1000  # J/K/mol
            dS = (S_[2] - S_[0]) / (2 * h)
            sc = max(abs(S_[1]), kJ * nb)
            if abs(dF + S_[1]) > 1e-5 * sc + 1e-11 * abs(F_[1]) * 1000 / h:
                run.violation("ThermalProperties.run(lang='%s')" % lang, "S-ne-minus-dFdT", "T=%r: -dF/dT=%r, S=%r" % (T, -dF, S_[1]),
                              dict(lang=lang, T=T, classical=cl, weights=w, frequencies_THz=fr.tolist()))
            if abs(T * dS - Cv_[1]) > 1e-5 * max(abs(Cv_[1]), kJ * nb) + 1e-11 * abs(S_[1]) * T / h:
                run.violation("ThermalProperties.run(lang='%s')" % lang, "Cv-ne-TdSdT", "T=%r: T dS/dT=%r, Cv=%r" % (T, T * dS, Cv_[1]),
                              dict(lang=lang, T=T, classical=cl, weights=w, frequencies_THz=fr.tolist()))
        run.case(("fd", nq, nb, cl, T, fr.tobytes()), nontrivial=True)
        run.count("oracle-finite-difference", section="oracle")

    # high-temperature limit: C_V -> k per mode
    mesh = FakeMesh([[1.0, 3.0, 10.0]], [1])
    for lang in ("C", "Py"):
        _, t_, F_, S_, Cv_ = run_tp(mesh, [1e7], lang)
        if not (abs(Cv_[0] / (3 * kJ) - 1) < 1e-6):
            run.violation("ThermalProperties.run(lang='%s')" % lang, "dulong-petit", "Cv(1e7 K)=%r, 3k=%r" % (Cv_[0], 3 * kJ), dict(lang=lang))
    run.count("oracle-limit", section="oracle")

    # ---------------------------------------------------------------- F5 report: the first non-finite per-mode value
    for lang, site in (("C", "phpy_get_thermal_properties"), ("Py", "mode_S/mode_cv")):
        w_ = nan_seen[lang]
        if w_ is not None:
            run.violation("ThermalProperties.run", "non-finite-large-hv-over-kT" if w_["x"] > 700 else "non-finite",
                          "%s per-mode value not finite at h nu/kT = %.6g (T=%r K, f=%r eV): F=%r S=%r Cv=%r" % (site, w_["x"], w_["T"], w_["f_eV"], w_["F"], w_["S"], w_["Cv"]),
                          dict(lang=lang, **w_))

    # ---------------------------------------------------------------- thresholds of the special-values model vs the libm in use
    with np.errstate(all="ignore"):
        thr_ok = (np.isfinite(np.exp(709.782712893383)) and np.isinf(np.exp(709.782712893385)) and np.exp(-745.1332191019413) == 0.0
                  and np.exp(-745.1332191019411) > 0.0 and np.isfinite(np.sinh(710.4758600739438)) and np.isinf(np.sinh(710.475860073944))
                  and np.isinf(np.cosh(710.475860073944)) and np.expm1(-1e300) == -1.0)
    run.cov["oracle"]["ieee-thresholds-match-libm"] = bool(thr_ok)
    if not thr_ok:
        run.broke("correspondence", "exp/sinh overflow thresholds of Model/IEEE.lean (lim64) do not match numpy's libm")
