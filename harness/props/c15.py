"""C15 — a Phonopy object always answers from its current state, whatever its history.

Correspondence: the same histories are replayed on the real `Phonopy` object and on the Lean
state machine (`Model/ApiState.lean`, driver `Drivers/C15.lean`).  The model's value tokens are
free terms over the numerical routines; the harness evaluates them with the real routines
(`symmetrize_force_constants`, `cutoff_force_constants`, `set_tensor_symmetry_PJ`, `get_fc2`,
`symmetrize_borns_and_epsilon`) and compares, after every step, the implementation's effective
parameters with the model state.
Oracle (the property itself): at queries the phonons are compared with a freshly constructed
`Phonopy` given the object's current force constants, NAC parameters and masses; caller arrays
must not be modified; handed-out arrays must not alias internal state; `copy()` is independent.
"""

import copy as _copy
import itertools
import time

import numpy as np

from .. import common, gen

TOL = 1e-7
QS = np.array([[0.1, 0.2, 0.3], [0.5, 0.0, 0.0], [0.0, 0.0, 0.0], [0.25, 0.25, 0.0]])
QS_GV = np.array([[0.1, 0.2, 0.3], [0.31, 0.17, 0.05], [0.01, 0.005, 0.0]])


MESH = [2, 2, 2]
BAND_PATH = [[[0.05, 0.0, 0.0], [0.275, 0.0, 0.0], [0.5, 0.0, 0.0]], [[0.5, 0.0, 0.0], [0.5, 0.25, 0.1], [0.5, 0.5, 0.2]]]
DERIVED = ("mesh", "band", "tp", "dos")


MISSING = object()   # sentinel: a private attribute of /repo the harness would like to look at does not exist (renamed)


def priv(obj, name):
    """guarded read of a private attribute: optional refinements only (every tie also goes through public results)"""
    return getattr(obj, name, MISSING)


def gv_config(ph):
    """the hidden configuration that determines group velocities (observation only; "?" = hook unavailable)"""
    g = ph.group_velocity
    if g is None:
        return None

    def show(v, f=lambda x: x):
        return "?" if v is MISSING else f(v)
    return dict(delta_q=show(priv(ph, "_gv_delta_q")), q_length=show(priv(g, "_q_length")), analytic=show(priv(g, "_ddm"), lambda x: x is not None),
                symmetry=show(priv(g, "_symmetry"), lambda x: x is not None),
                perturbation=show(priv(g, "_perturbation"), lambda x: None if x is None else tuple(np.ravel(x))))


def read_derived(ph, kind):
    """the numbers a stored result object reports (None when the object does not exist)"""
    if kind == "mesh":
        return None if ph.mesh is None else np.array(ph.get_mesh_dict()["frequencies"], dtype=float)
    if kind == "band":
        return None if ph.band_structure is None else np.concatenate([np.ravel(f) for f in ph.get_band_structure_dict()["frequencies"]])
    if kind == "tp":
        if ph.thermal_properties is None:
            return None
        d = ph.get_thermal_properties_dict()
        return np.concatenate([np.ravel(d["free_energy"]), np.ravel(d["entropy"]), np.ravel(d["heat_capacity"])])
    if ph.total_dos is None:
        return None
    d = ph.get_total_dos_dict()
    return np.concatenate([np.ravel(d["frequency_points"]), np.ravel(d["total_dos"])])


TP_OPTS = [dict(), dict(classical=True), dict(cutoff_frequency=1.5), dict(band_indices=[[0, 1]]), dict(classical=True, cutoff_frequency=1.5),
           dict(pretend_real=True)]
DOS_OPTS = [dict(), dict(sigma=0.15), dict(use_tetrahedron_method=False), dict(freq_min=0.0, freq_max=12.0, freq_pitch=0.5),
            dict(sigma=0.3, freq_min=-1.0, freq_max=9.0, freq_pitch=0.25)]


def run_derived(ph, kind, opt=0):
    if kind == "mesh":
        ph.run_mesh(MESH)
    elif kind == "band":
        ph.run_band_structure(BAND_PATH)
    elif kind == "tp":
        ph.run_thermal_properties(t_min=0, t_max=300, t_step=100, **TP_OPTS[opt])
    else:
        ph.run_total_dos(**DOS_OPTS[opt])
    return read_derived(ph, kind)


# --------------------------------------------------------------------------
# small helpers
# --------------------------------------------------------------------------

def close(a, b, tol=1e-9):
    if a is None or b is None:
        return a is None and b is None
    a = np.asarray(a, dtype=float)
    b = np.asarray(b, dtype=float)
    if a.shape != b.shape:
        return False
    if a.size == 0:
        return True
    return float(np.abs(a - b).max()) <= tol * max(1.0, float(np.abs(b).max()))


def nac_close(a, b):
    if a is None or b is None:
        return a is None and b is None
    return (close(a["born"], b["born"]) and close(a["dielectric"], b["dielectric"])
            and abs(float(a["factor"]) - float(b["factor"])) <= 1e-10 * abs(float(b["factor"]))
            and a.get("method", "gonze") == b.get("method", "gonze"))


def ds_key(ds):
    """canonical content of a type-1 dataset"""
    if ds is None:
        return None
    out = [int(ds["natom"])]
    for d in ds["first_atoms"]:
        out.append((int(d["number"]), np.asarray(d["displacement"], dtype=float).tobytes(),
                    None if "forces" not in d else np.asarray(d["forces"], dtype=float).tobytes(),
                    None if "supercell_energy" not in d else float(d["supercell_energy"]),
                    tuple(sorted(d.keys()))))
    out.append(tuple(sorted(ds.keys())))
    return out


def containers(o, acc=None):
    """ids of all nested mutable containers / arrays of a caller object"""
    acc = {} if acc is None else acc
    if isinstance(o, (dict, list, np.ndarray)):
        if id(o) in acc:
            return acc
        acc[id(o)] = o
        if isinstance(o, dict):
            for v in o.values():
                containers(v, acc)
        elif isinstance(o, list):
            for v in o:
                containers(v, acc)
    return acc


def deep_shared(a, b):
    """do two objects share a nested mutable container or array memory?"""
    if a is None or b is None:
        return False
    ca, cb = containers(a), containers(b)
    if set(ca) & set(cb):
        return True
    arrs_a = [x for x in ca.values() if isinstance(x, np.ndarray)]
    arrs_b = [x for x in cb.values() if isinstance(x, np.ndarray)]
    return any(np.shares_memory(x, y) for x in arrs_a for y in arrs_b)


def ds_close(a, b):
    if a is None or b is None:
        return a is None and b is None
    if len(a["first_atoms"]) != len(b["first_atoms"]):
        return False
    for x, y in zip(a["first_atoms"], b["first_atoms"]):
        if int(x["number"]) != int(y["number"]) or not close(x["displacement"], y["displacement"]):
            return False
        if ("forces" in x) != ("forces" in y):
            return False
        if "forces" in x and not close(x["forces"], y["forces"]):
            return False
        if ("supercell_energy" in x) != ("supercell_energy" in y):
            return False
        if "supercell_energy" in x and abs(float(x["supercell_energy"]) - float(y["supercell_energy"])) > 1e-12:
            return False
    return True


# --------------------------------------------------------------------------
# the world: one crystal + pools of caller values (leaf tokens)
# --------------------------------------------------------------------------

class World:
    def __init__(self, name, smat, seed):
        self.name = name
        self.smat = list(smat)
        self.seed = seed
        rs = np.random.RandomState(seed)
        # "crystal~M": the same crystal described by the lattice vectors M a (gen.UNIMODULAR[M]; det -1: left-handed)
        base, _, mname = name.partition("~")
        self.cell, _ = gen.make_cell(base)
        self.smat_full = np.diag(self.smat)
        self.relabel = mname or None
        if mname:
            self.cell0 = self.cell
            self.M = np.array(gen.UNIMODULAR[mname], dtype=int)
            self.cell, _qmap, smap = gen.relabelled_cell(self.cell0, self.M)
            self.smat_full = np.array(smap(np.diag(self.smat)), dtype=int)
        self._orig = None
        self.ph0 = self.new_phonopy()
        sc = self.ph0.supercell
        self.np_ = len(self.ph0.primitive)
        self.ns = len(sc)
        base = gen.pair_fc(sc, 4.6)
        self.fc_pool = []
        for k in range(6):
            noise = rs.normal(scale=0.05, size=base.shape)   # every entry has an asymmetric part: the symmetrisers change it
            self.fc_pool.append(np.array(base * (1.0 + 0.15 * k) + noise, dtype="double", order="C"))
        self.nac_pool = []
        for k in range(6):
            born = rs.normal(scale=0.8, size=(self.np_, 3, 3))
            eps = np.eye(3) * (2.0 + 0.3 * k) + 0.05 * rs.normal(size=(3, 3))
            eps = (eps + eps.T) / 2
            self.nac_pool.append({"born": born, "dielectric": eps, "factor": 14.4 * (1 + 0.01 * k),
                                  "method": "wang" if k % 2 == 1 else "gonze"})
        m0 = self.ph0.masses
        if m0 is None:
            m0 = np.full(self.np_, 100.0)
        self.start_masses = self.ph0.masses
        self.mass_pool = [np.array(m0) * (1.0 + 0.25 * k) + k for k in range(4)]
        self.ds_pool = []
        for k in range(3):
            p = self.new_phonopy()
            p.generate_displacements(distance=0.01 * (k + 1))
            ds = _copy.deepcopy(p.dataset)
            fc = self.fc_pool[(k + 1) % len(self.fc_pool)]
            for d in ds["first_atoms"]:
                d["forces"] = np.array(-np.einsum("jab,b->ja", fc[d["number"]], d["displacement"]), dtype="double", order="C")
            self.ds_pool.append(ds)
        from phonopy.harmonic.force_constants import full_fc_to_compact_fc

        self.fc_cpool = [np.array(full_fc_to_compact_fc(self.ph0.primitive, self.fc_pool[k]), dtype="double", order="C") for k in range(3)]
        self.gen_pool = []
        for k in range(3):
            p = self.new_phonopy()
            p.generate_displacements(distance=0.01 * (k + 1))
            self.gen_pool.append(_copy.deepcopy(p.dataset))
        nd = len(self.ds_pool[0]["first_atoms"])
        self.force_pool = [np.array(rs.normal(scale=0.05, size=(nd, self.ns, 3)) + np.array(
            [-np.einsum("jab,b->ja", self.fc_pool[k % len(self.fc_pool)][d["number"]], d["displacement"]) for d in self.ds_pool[0]["first_atoms"]]),
            dtype="double", order="C") for k in range(4)]
        self.energy_pool = [rs.uniform(-10, 10, size=nd) for k in range(3)]
        lmin = gen.min_lattice_vector(sc.cell)
        self.radii = [0.4 * lmin, 0.6 * lmin, 0.85 * lmin, 10 * lmin]
        self._memo = {}
        self._fresh = {}

    def describe(self):
        d = dict(crystal=self.name, supercell=self.smat, pool_seed=self.seed)
        if self.relabel:
            d["description"] = ("unit cell of gen.make_cell(%r) relabelled with gen.relabelled_cell(cell, gen.UNIMODULAR[%r]) (det %+d), supercell matrix %s"
                                % (self.name.partition("~")[0], self.relabel, int(round(np.linalg.det(self.M))), self.smat_full.tolist()))
        return d

    FSF = 1.1
    GVQ = 1e-4

    def new_phonopy(self, fsf=False):
        import warnings

        if fsf == "gv":   # constructed with group_velocity_delta_q
            return gen.make_phonopy(self.cell, self.smat_full.copy(), pmat="P", group_velocity_delta_q=self.GVQ)
        if fsf is True:   # the deprecated constructor option
            with warnings.catch_warnings():
                warnings.simplefilter("ignore")
                return gen.make_phonopy(self.cell, self.smat_full.copy(), pmat="P", frequency_scale_factor=self.FSF)
        return gen.make_phonopy(self.cell, self.smat_full.copy(), pmat="P")

    # ---- evaluation of the model's value terms with the real routines
    def fc_term(self, t):
        key = ("fc", t)
        if key in self._memo:
            return self._memo[key]
        from phonopy.harmonic import force_constants as F

        tag, x = t % 7, t // 7
        ph0 = self.ph0
        if tag == 0:
            r = self.fc_pool[x] if x < 50 else self.fc_cpool[x - 50]
        elif tag == 1:
            r = self.fc_term(x // 4).copy()
            if r.shape[0] == r.shape[1]:
                F.symmetrize_force_constants(r, level=x % 4)
            else:
                F.symmetrize_compact_force_constants(r, ph0.primitive, level=x % 4)
        elif tag == 2:
            r = self.fc_term(x).copy()
            F.set_tensor_symmetry_PJ(r, ph0.supercell.cell.T, ph0.supercell.scaled_positions, ph0.symmetry)
        elif tag == 3:
            r = self.fc_term(x // 4).copy()
            F.cutoff_force_constants(r, ph0.supercell, ph0.primitive, self.radii[x % 4], symprec=1e-5)
        elif tag == 4:
            from phonopy.interface.fc_calculator import get_fc2

            r = get_fc2(ph0.supercell, self.ds_term(x // 2), primitive=ph0.primitive, is_compact_fc=bool(x % 2), symmetry=ph0.symmetry)
        elif tag == 6:
            r = self.fc_term(x) * self.FSF ** 2
        else:
            raise common.Broken("model-term", "force-constant term with tag %d" % tag)
        self._memo[key] = r
        return r

    def ds_term(self, t):
        key = ("ds", t)
        if key in self._memo:
            return self._memo[key]
        tag, x = t % 7, t // 7
        if tag == 0:
            r = self.ds_pool[x] if x < 100 else self.gen_pool[x - 100]
        elif tag == 1:    # ph.forces = force_pool[f]
            r = _copy.deepcopy(self.ds_term(x // 8))
            for d, f in zip(r["first_atoms"], self.force_pool[x % 8]):
                d["forces"] = np.array(f, dtype="double", order="C")
        elif tag == 2:    # ph.supercell_energies = energy_pool[e]
            r = _copy.deepcopy(self.ds_term(x // 8))
            for d, e in zip(r["first_atoms"], self.energy_pool[x % 8]):
                d["supercell_energy"] = float(e)
        else:
            raise common.Broken("model-term", "dataset term with tag %d" % tag)
        self._memo[key] = r
        return r

    def disp_term(self, t):
        """displaced-supercell positions of the dataset term under `dispOf`"""
        if t % 7 != 3:
            raise common.Broken("model-term", "displacement term with tag %d" % (t % 7))
        ds = self.ds_term(t // 7)
        base = self.ph0.supercell.positions
        out = []
        for d in ds["first_atoms"]:
            p_ = base.copy()
            p_[d["number"]] += d["displacement"]
            out.append(p_)
        return out

    def nac_term(self, t):
        key = ("nac", t)
        if key in self._memo:
            return self._memo[key]
        tag, x = t % 7, t // 7
        if tag == 0:
            r = self.nac_pool[x]
        elif tag == 5:
            from phonopy.structure.symmetry import symmetrize_borns_and_epsilon

            raw = self.nac_term(x)
            b, e = symmetrize_borns_and_epsilon(raw["born"], raw["dielectric"], self.ph0.primitive, symprec=1e-5)
            r = dict(raw)
            r.update({"born": b, "dielectric": e})
        else:
            raise common.Broken("model-term", "NAC term with tag %d" % tag)
        self._memo[key] = r
        return r

    # ---- the same crystal in its original description (worlds "crystal~M" only)
    def original_frequencies(self, fc, nac, masses):
        """frequencies at the same Cartesian q-points of a fresh object on the ORIGINAL lattice vectors, given the same
        Cartesian force constants between the same atom pairs, the same Born charges / dielectric tensor and masses.
        None for compact force constants (their rows are tied to each description's choice of primitive atoms)."""
        fc = np.asarray(fc)
        if fc.shape[0] != fc.shape[1]:
            return None
        if self._orig is None:
            p0 = gen.make_phonopy(self.cell0, np.diag(self.smat), pmat="P")
            s0, s1 = p0.supercell, self.ph0.supercell
            inv0 = np.linalg.inv(s0.cell)

            def locate(x, number):
                """index of the original supercell's atom at Cartesian position x (modulo the supercell lattice)"""
                d = (x @ inv0)[None, :] - s0.scaled_positions
                d -= np.rint(d)
                j = int(np.argmin(np.abs(d).sum(axis=1)))
                if np.abs(d[j]).max() > 1e-8 or s0.numbers[j] != number:
                    raise common.Broken("harness", "supercell atoms of the relabelled description do not map onto those of the original one")
                return j

            perm = [locate(x, z) for x, z in zip(s1.positions, s1.numbers)]
            if sorted(perm) != list(range(len(s0))) or list(p0.primitive.numbers) != list(self.ph0.primitive.numbers):
                raise common.Broken("harness", "atom correspondence between the two descriptions is not a bijection")
            if abs(abs(self.ph0.unitcell.volume) - abs(p0.unitcell.volume)) > 1e-9 or self.ph0.unitcell.volume * np.linalg.det(self.M) * p0.unitcell.volume <= 0:
                raise common.Broken("harness", "relabelled cell has the wrong volume / handedness")
            # the dynamical matrix reads the rows of the primitive cell's atoms only, and each description has its own choice of
            # these (they differ by lattice translations): row p2s0[k] of the original = row p2s1[k] of this one, translated
            rows = []
            for k, (i0, i1) in enumerate(zip(p0.primitive.p2s_map, self.ph0.primitive.p2s_map)):
                t = s0.positions[i0] - s1.positions[i1]
                rows.append((int(i0), int(i1), [locate(x + t, z) for x, z in zip(s1.positions, s1.numbers)]))
            self._rows = rows
            self._orig = (np.array(perm), QS @ np.linalg.inv(self.M.T))    # qmap(q0) = QS
        perm, q0 = self._orig
        key = ("orig", fc.tobytes(), None if nac is None else (np.asarray(nac["born"]).tobytes(), np.asarray(nac["dielectric"]).tobytes(),
               float(nac["factor"]), nac.get("method", "gonze")), np.asarray(masses).tobytes())
        if key in self._fresh:
            return self._fresh[key]
        p = gen.make_phonopy(self.cell0, np.diag(self.smat), pmat="P")
        fc0 = np.zeros(fc.shape, dtype="double", order="C")
        fc0[np.ix_(perm, perm)] = fc
        for i0, i1, cols in self._rows:
            fc0[i0, cols] = fc[i1]
        p.masses = np.array(masses)
        p.force_constants = fc0
        if nac is not None:
            p.nac_params = _copy.deepcopy(nac)
        p.run_qpoints(q0)
        r = p.qpoints.frequencies.copy()
        self._fresh[key] = r
        return r

    # ---- a freshly constructed object
    def fresh(self, fc, nac, masses, gv, fsf=False, kind=None, opt=0):
        """results of a freshly constructed object; kind None: run_qpoints (gv: with group velocities);
        kind in DERIVED: run_mesh (+ run_thermal_properties / run_total_dos) or run_band_structure"""
        key = (kind, opt, fsf, np.asarray(fc).tobytes(), None if nac is None else (np.asarray(nac["born"]).tobytes(), np.asarray(nac["dielectric"]).tobytes(),
               float(nac["factor"]), nac.get("method", "gonze")), np.asarray(masses).tobytes(), gv)
        if key in self._fresh:
            return self._fresh[key]
        p = self.new_phonopy(fsf)
        p.masses = np.array(masses)
        p.force_constants = np.array(fc, dtype="double", order="C")
        if nac is not None:
            p.nac_params = _copy.deepcopy(nac)
        if kind is not None:
            if kind in ("tp", "dos"):
                p.run_mesh(MESH)
            r = (run_derived(p, kind, opt), None)
        elif gv:
            p.run_qpoints(QS_GV, with_group_velocities=True)
            r = (p.qpoints.frequencies.copy(), p.qpoints.group_velocities.copy(), gv_config(p))
        else:
            p.run_qpoints(QS)
            r = (p.qpoints.frequencies.copy(), None)
        self._fresh[key] = r
        return r


# --------------------------------------------------------------------------
# histories
# --------------------------------------------------------------------------

def op_text(op):
    k = op[0]
    if k == "new":
        return "new %s %d %d" % (op[1], 7 * op[2], op[3])
    if k in ("setfc",):
        return "setfc $%d" % op[1]
    if k in ("setnac", "setds"):
        return "%s %s" % (k, "-" if op[1] is None else "$%d" % op[1])
    if k == "mut":
        if len(op) > 3 and op[3] == "fc":
            return "mutfc $%d %d" % (op[1], op[2])
        return "mut $%d %d" % (op[1], 7 * op[2])
    if k in ("sym", "cut", "setmasses", "setforces", "setenergies", "producewith", "generate"):
        return "%s %d" % (k, op[1])
    if k == "q":
        return "q %s" % op[1]     # (an option index op[2] of run_thermal_properties / run_total_dos is not part of the model)
    return k


def history_line(m0, ops, fsf=False):
    return "%s %s ; " % ("rungv" if fsf == "gv" else ("runfsf" if fsf is True else "run"), "-" if m0 is None else str(m0)) + " ; ".join(op_text(o) for o in ops)


def handles(op):
    if op[0] in ("setfc", "setnac", "setds", "mut") and op[1] is not None:
        return [op[1]]
    return []


def drop_steps(ops, removed):
    """remove the steps in `removed` (and every step that names a removed one); renumber handles"""
    removed = set(removed)
    changed = True
    while changed:
        changed = False
        for i, op in enumerate(ops):
            if i not in removed and any(h in removed for h in handles(op)):
                removed.add(i)
                changed = True
    newidx, out = {}, []
    for i, op in enumerate(ops):
        if i in removed:
            continue
        newidx[i] = len(out)
        if handles(op):
            op = (op[0], newidx[op[1]]) + tuple(op[2:])
        out.append(op)
    return out


# --------------------------------------------------------------------------
# running a history on the real object
# --------------------------------------------------------------------------

class Problem(Exception):
    pass


def run_impl(w, ops, viol, fsf=False):
    """Replay `ops` on a real Phonopy object.  Returns per-step observations.
    `viol(site, klass, what, step)` is called for every failure of the property itself."""
    from phonopy.harmonic.dynamical_matrix import DynamicalMatrixGL, DynamicalMatrixWang

    ph = w.new_phonopy(fsf)

    def structure():
        return (ph.unitcell.cell.tobytes(), ph.unitcell.scaled_positions.tobytes(), tuple(ph.unitcell.symbols),
                np.array(ph.supercell_matrix).tobytes(), np.array(ph.primitive_matrix).tobytes(),
                ph.supercell.cell.tobytes(), ph.supercell.scaled_positions.tobytes(), ph.primitive.scaled_positions.tobytes())
    structure0 = structure()
    last_freq = None   # frequencies of the last query, valid while only no-op setters were applied since
    objs = []          # python object created / handed out by each step
    kinds = []         # its kind
    snaps = {}         # step -> snapshot of caller-created content (no_alias_in)
    built = {}         # id(dm) -> (dm, gonze array, fc values at build time)
    tainted = False    # a caller mutation reached the object's state earlier in this history
    last_opt = {}      # options of the last successful run_thermal_properties / run_total_dos
    hooks_missing = set()
    steps = []

    def reachable(o):
        if o is None:
            return False
        cur = [ph.force_constants, ph.nac_params, ph.dataset]
        if ph.dynamical_matrix is not None:
            cur.append(ph.dynamical_matrix.force_constants)
        return any(deep_shared(c, o) for c in cur if c is not None)

    for si, op in enumerate(ops):
        k = op[0]
        out = ("ok",)
        obj, kind = None, None
        flag = "."
        api = True
        try:
            if k == "new":
                api = False
                kind = op[1]
                if kind == "fc":
                    src_fc = w.fc_pool[op[2]] if op[2] < 50 else w.fc_cpool[op[2] - 50]
                    if op[3]:
                        obj = src_fc.copy()
                    else:
                        obj = src_fc.copy()[:]       # a view: owndata False
                        assert not obj.flags.owndata
                    snaps[si] = obj.copy()
                elif kind == "nac":
                    obj = _copy.deepcopy(w.nac_pool[op[2]])
                    snaps[si] = _copy.deepcopy(obj)
                else:
                    obj = _copy.deepcopy(w.ds_pool[op[2]])
                    snaps[si] = _copy.deepcopy(obj)
                out = ("new",)
            elif k == "setfc":
                if objs[op[1]] is None:
                    out = ("err", "badRef")
                else:
                    ph.force_constants = objs[op[1]]
            elif k in ("produce", "producec"):
                ph.produce_force_constants(calculate_full_force_constants=(k == "produce"))
                check_produced(w, ph, k == "producec", viol, si, tainted)
            elif k == "generate":
                ph.generate_displacements(distance=0.01 * (op[1] + 1))
            elif k in ("setforces", "producewith"):
                handed = w.force_pool[op[1]].copy()
                if k == "setforces":
                    ph.forces = handed
                else:
                    ph.produce_force_constants(forces=handed)
                    check_produced(w, ph, False, viol, si, tainted)
                if not close(handed, w.force_pool[op[1]], 0.0):
                    viol("Phonopy.forces setter", "caller-forces-modified", "the force array handed in was modified", si)
            elif k == "setenergies":
                handed = w.energy_pool[op[1]].copy()
                ph.supercell_energies = handed
                if not close(handed, w.energy_pool[op[1]], 0.0):
                    viol("Phonopy.supercell_energies setter", "caller-energies-modified", "the energy array handed in was modified", si)
            elif k == "sym":
                ph.symmetrize_force_constants(level=op[1])
            elif k == "symsg":
                ph.symmetrize_force_constants_by_space_group()
            elif k == "cut":
                ph.set_force_constants_zero_with_radius(w.radii[op[1]])
            elif k == "setnac":
                if op[1] is None:
                    ph.nac_params = None
                elif objs[op[1]] is None:
                    out = ("err", "badRef")
                else:
                    ph.nac_params = objs[op[1]]
            elif k == "setmasses":
                newm = w.start_masses if op[1] == 1000 else w.mass_pool[op[1]]
                if not (ph.masses is not None and newm is not None and close(ph.masses, newm, 0.0)):
                    last_freq = None
                noop = last_freq is not None
                ph.masses = newm
                if noop:
                    k = "setmasses-noop"
            elif k == "setds":
                if op[1] is None:
                    ph.dataset = None
                elif objs[op[1]] is None:
                    out = ("err", "badRef")
                else:
                    ph.dataset = objs[op[1]]
            elif k == "copy":
                c = ph.copy()
                out = ("copied", c.masses)
                check_copy(w, ph, c, viol, si)
            elif k == "mut":
                api = False
                tgt = objs[op[1]]
                if tgt is None:
                    out = ("err", "badRef")
                else:
                    kd = kinds[op[1]]
                    if reachable(tgt):
                        flag = "D"
                        if kd == "ds" and op[1] in snaps:
                            # a dataset dict created by the caller: the setter deep-copies (no documented door),
                            # so the object must not be able to see this mutation
                            viol("Phonopy.dataset setter", "caller-container-shared",
                                 "the stored dataset shares nested containers with the dict handed to the setter", si)
                        else:
                            tainted = True
                    if kd == "fc":
                        # pool entry of the array's own layout (see `mutfc` in lean/Drivers/C15.lean)
                        tgt[...] = w.fc_pool[op[2]] if tgt.shape[0] == tgt.shape[1] else w.fc_cpool[op[2] % 3]
                    elif kd == "nac":
                        src = w.nac_pool[op[2]]
                        tgt["born"][...] = src["born"]
                        tgt["dielectric"][...] = src["dielectric"]
                        tgt["factor"] = src["factor"]
                        tgt["method"] = src["method"]
                    else:
                        # mutate the nested containers in place (entry dicts and arrays), as a caller who
                        # edits his dataset would
                        src = _copy.deepcopy(w.ds_pool[op[2]])
                        tgt["natom"] = src["natom"]
                        for e, se in zip(tgt["first_atoms"], src["first_atoms"]):
                            e["number"] = se["number"]
                            if isinstance(e["displacement"], np.ndarray):
                                e["displacement"][...] = se["displacement"]
                            else:
                                e["displacement"] = se["displacement"]
                            for key in list(e.keys()):
                                if key not in se:
                                    del e[key]
                            for key in se:
                                if key in ("number", "displacement"):
                                    continue
                                if key in e and isinstance(e[key], np.ndarray) and np.shape(e[key]) == np.shape(se[key]):
                                    e[key][...] = se[key]
                                else:
                                    e[key] = se[key]
            elif k == "q":
                what = op[1]
                if what in ("freq", "gv"):
                    if what == "gv":
                        ph.run_qpoints(QS_GV, with_group_velocities=True)
                        out = ("ph", ph.qpoints.frequencies.copy(), ph.qpoints.group_velocities.copy())
                    else:
                        ph.run_qpoints(QS)
                        out = ("ph", ph.qpoints.frequencies.copy(), None)
                        # ---- a setter given the value the object already has must be a no-op
                        if last_freq is not None and not close(out[1], last_freq, TOL) and tainted:
                            # the rebuild picked up a caller mutation made through one of the documented doors
                            viol("Phonopy.run_qpoints", "stale-after-aliased-mutation",
                                 "after the caller mutated an object the Phonopy object holds by reference, re-setting the masses changes the phonons", si)
                        elif last_freq is not None and not close(out[1], last_freq, TOL):
                            viol("Phonopy.masses setter", "noop-setter-changes-phonons",
                                 "ph.masses = ph.masses changed the frequencies by %.3g THz%s" % (
                                     float(np.abs(out[1] - last_freq).max()), " (frequency_scale_factor set: the force constants are scaled again at every rebuild of the dynamical matrix)" if fsf is True else ""), si)
                        last_freq = out[1]
                    # ---- the property itself: a freshly constructed object answers alike
                    fr = w.fresh(ph.force_constants, ph.nac_params, ph.masses, what == "gv", fsf)
                    bad = not close(out[1], fr[0], TOL) or (what == "gv" and not close(out[2], fr[1], 1e-6))
                    if w.relabel and what == "freq" and fsf is not True:
                        # the fresh object may also be constructed on other lattice vectors of the same structure
                        f0 = w.original_frequencies(ph.force_constants, ph.nac_params, ph.masses)
                        if f0 is None:
                            viol("Phonopy.run_qpoints", "hook-unavailable", "compact force constants: no comparison between descriptions", si)
                        elif not close(fr[0], f0, TOL):
                            viol("Phonopy.run_qpoints", "description-dependent",
                                 "a fresh object on the relabelled lattice vectors (%s, unit-cell volume %.4g) and a fresh object on the original lattice vectors, given the same "
                                 "Cartesian force constants, NAC parameters and masses, differ by %.3g THz at the same Cartesian q-points (dynamical matrix %s)" % (
                                     w.relabel, w.ph0.unitcell.volume, float(np.abs(fr[0] - f0).max()), type(ph.dynamical_matrix).__name__), si)
                        else:
                            viol("Phonopy.run_qpoints", "descriptions-agree", "", si)
                    if what == "gv" and gv_config(ph) != fr[2] and not tainted and fsf is not True:
                        viol("Phonopy.run_qpoints(with_group_velocities)", "gv-configuration-differs",
                             "hidden group-velocity configuration %r differs from that of a fresh object %r" % (gv_config(ph), fr[2]), si)
                    if bad:
                        d = float(np.abs(out[1] - fr[0]).max())
                        if what == "gv" and close(out[1], fr[0], TOL):
                            dgv = float(np.abs(out[2] - fr[1]).max() / max(1.0, np.abs(fr[1]).max()))
                            if not tainted and fsf is not True:
                                viol("Phonopy.run_qpoints(with_group_velocities)", "gv-differs-from-fresh",
                                     "frequencies agree but group velocities differ from a freshly constructed object by %.3g (relative)" % dgv, si)
                                bad = False
                        if not bad:
                            pass
                        elif fsf is True and not tainted:
                            viol("Phonopy.run_qpoints", "frequency-scale-factor-compounds",
                                 "constructed with frequency_scale_factor: phonons differ by %.3g THz from a fresh object constructed the same way and "
                                 "given ph.force_constants (the scaled array is stored back and scaled again)" % d, si)
                        elif tainted:
                            viol("Phonopy.run_qpoints", "stale-after-aliased-mutation",
                                 "after the caller mutated an array the object holds by reference, phonons differ from a fresh object by %.3g THz" % d, si)
                        else:
                            viol("Phonopy.run_qpoints", "stale-state",
                                 "phonons differ from a freshly constructed object with the same parameters by %.3g THz" % d, si)
                    out = out + (bad,)
                elif what in DERIVED or (what.startswith("get") and what[3:] in DERIVED):
                    dk = what if what in DERIVED else what[3:]
                    opt = op[2] if len(op) > 2 else 0
                    arr = run_derived(ph, dk, opt) if what in DERIVED else read_derived(ph, dk)
                    if what in DERIVED and arr is not None:
                        last_opt[dk] = opt
                    out = ("dv", dk, None if arr is None else arr.copy(), last_opt.get(dk, 0))
                    # ---- the property itself: the result object equals that of a fresh object in the current state
                    if arr is not None and ph.dynamical_matrix is not None:
                        fr = w.fresh(ph.force_constants, ph.nac_params, ph.masses, False, fsf, kind=dk, opt=last_opt.get(dk, 0))[0]
                        if not close(arr, fr, 1e-6):
                            stored_read = what not in DERIVED                      # ph.get_*_dict() of an object made earlier
                            from_stored_mesh = dk in ("tp", "dos") and not stored_read   # run_thermal_properties / run_total_dos use the stored mesh
                            mesh_current = from_stored_mesh and close(
                                read_derived(ph, "mesh"), w.fresh(ph.force_constants, ph.nac_params, ph.masses, False, fsf, kind="mesh")[0], 1e-6)
                            if tainted:
                                viol("Phonopy.run_qpoints", "stale-after-aliased-mutation",
                                     "after the caller mutated an array the object holds by reference, %s differs from a fresh object" % dk, si)
                            elif stored_read or (from_stored_mesh and not mesh_current):
                                # the recorded API behaviour (whatever the constructor options): result objects are snapshots
                                viol("Phonopy result objects", "stale-derived-object",
                                     "%s: the stored %s object differs from that of a fresh object given the current force constants, NAC "
                                     "parameters and masses (no setter resets result objects; run_thermal_properties / run_total_dos use the stored mesh)"
                                     % (("ph.run_%s()" % dk) if what in DERIVED else ("stored %s" % dk), dk), si)
                            elif fsf is True:
                                viol("Phonopy.run_qpoints", "frequency-scale-factor-compounds", "%s, made now from the current state, differs from a fresh object constructed the same way" % dk, si)
                            elif from_stored_mesh:
                                # the stored mesh IS current: the answer is wrong for another reason than a stale mesh
                                viol("Phonopy.run_%s" % ("thermal_properties" if dk == "tp" else "total_dos"), "wrong-result-on-current-mesh",
                                     "run_%s(%r) on an up-to-date mesh differs from a fresh object asked the same question (after earlier calls with other options)"
                                     % ("thermal_properties" if dk == "tp" else "total_dos", (TP_OPTS if dk == "tp" else DOS_OPTS)[last_opt.get(dk, 0)]), si)
                            else:
                                # run_mesh / run_band_structure compute now, from the current dynamical matrix
                                viol("Phonopy.run_%s" % ("mesh" if dk == "mesh" else "band_structure"), "stale-state",
                                     "run_%s() differs from that of a freshly constructed object with the same parameters" % ("mesh" if dk == "mesh" else "band_structure"), si)
                elif what == "fc":
                    obj, kind = ph.force_constants, "fc"
                    out = ("ref", obj)
                    live = False
                    if obj is not None:
                        old = obj.flat[0]
                        obj.flat[0] = old + 1.0
                        dmo = ph.dynamical_matrix
                        live = ph.force_constants.flat[0] == old + 1.0 or (dmo is not None and dmo.force_constants.flat[0] == old + 1.0)
                        obj.flat[0] = old
                    if live:
                        viol("Phonopy.force_constants getter", "returns-live-array",
                             "the getter hands out the array the dynamical matrix computes with", si)
                elif what == "nac":
                    obj, kind = ph.nac_params, "nac"
                    out = ("ref", obj)
                    if obj is not None:
                        old = obj["born"][0, 0, 0]
                        obj["born"][0, 0, 0] = old + 1.0
                        live = ph.nac_params["born"][0, 0, 0] == old + 1.0
                        obj["born"][0, 0, 0] = old
                        if live:
                            viol("Phonopy.nac_params", "dict-aliased", "the getter hands out the stored dict (which is the caller's own dict)", si)
                elif what == "masses":
                    m = ph.masses
                    out = ("val", None if m is None else m.copy())
                    if m is not None:
                        m[0] += 1.0
                        if ph.masses[0] == m[0]:
                            viol("Phonopy.masses getter", "returns-live-array", "masses getter hands out internal state", si)
                elif what == "ds":
                    obj, kind = ph.dataset, "ds"
                    out = ("ref", obj)
                    if obj is not None and obj is ph.dataset:
                        d0 = obj["first_atoms"][0]["displacement"]
                        old = d0[0]
                        d0[0] = old + 1.0
                        live = ph.dataset["first_atoms"][0]["displacement"][0] == old + 1.0
                        d0[0] = old
                        if live:
                            viol("Phonopy.dataset getter", "returns-live-dict", "the getter hands out the stored dataset dict", si)
                else:
                    scs = ph.supercells_with_displacements
                    out = ("val", None if scs is None else [s.positions for s in scs])
                    if scs is not None:
                        base = ph.supercell.positions
                        exp = []
                        for d in ph.dataset["first_atoms"]:
                            p = base.copy()
                            p[d["number"]] += d["displacement"]
                            exp.append(p)
                        if len(exp) != len(scs) or not all(close(a, b) for a, b in zip(out[1], exp)):
                            viol("Phonopy.supercells_with_displacements", "stale-after-aliased-mutation" if tainted else "stale-state",
                                 "displaced supercells do not correspond to the current dataset", si)
        except Exception as e:  # API errors are outcomes, compared with the model's error branches
            import os
            import traceback

            tb = traceback.extract_tb(e.__traceback__)
            if not any(os.path.abspath(f.filename).startswith(os.path.abspath(common.REPO) + os.sep) for f in tb):
                raise
            out = ("err", type(e).__name__)
        objs.append(obj)
        kinds.append(kind)
        if k not in ("q", "setmasses-noop", "new", "copy"):
            last_freq = None

        # ---- arrays handed in by the caller are not modified by API calls
        if not api:
            for s0 in snaps:
                snaps[s0] = _copy.deepcopy(objs[s0])
        else:
            for s0, snap in snaps.items():
                cur = objs[s0]
                kd = kinds[s0]
                same = close(cur, snap, 0.0) if kd == "fc" else (nac_close(cur, snap) if kd == "nac" else ds_key(cur) == ds_key(snap))
                if not same:
                    snaps[s0] = _copy.deepcopy(cur)
                    if kd == "fc":
                        viol("Phonopy.force_constants setter", "caller-array-aliased",
                             "an array handed to the setter was later overwritten in place by %s" % k, si)
                    else:
                        viol("Phonopy.%s" % k, "caller-%s-modified" % kd, "a caller object of kind %s was modified by %s" % (kd, k), si)

        # ---- the structure (cells, supercell_matrix, primitive_matrix) is immutable
        if structure() != structure0:
            viol("Phonopy.%s" % k, "structure-changed", "cells / supercell_matrix / primitive_matrix changed", si)
            structure0 = structure()

        # ---- observable state
        dm = ph.dynamical_matrix
        dg = dict(fc=ph.force_constants, nac=ph.nac_params, m=ph.masses, ds=ph.dataset)
        if dm is None:
            dg["dm"] = None
        else:
            cls = "gl" if isinstance(dm, DynamicalMatrixGL) else ("wang" if isinstance(dm, DynamicalMatrixWang) else "plain")
            gz = None
            if cls == "gl":
                g = dm.short_range_force_constants
                if g is not None:
                    rec = built.get(id(dm))
                    if rec is None or rec[1] is not g:
                        rec = (dm, g, dm.force_constants.copy())
                        built[id(dm)] = rec
                    gz = rec[2]
            dmn = None
            if cls != "plain":
                dmn = dict(born=dm.born, dielectric=dm.dielectric_constant,
                           factor=dm.nac_factor * abs(ph.primitive.volume) / (4.0 * np.pi),
                           method="wang" if cls == "wang" else "gonze")
            dg["dm"] = dict(cls=cls, fc=dm.force_constants, nac=dmn, gonze=gz, same=dm.force_constants is ph.force_constants)
        gvo = ph.group_velocity
        gdm = MISSING if gvo is None else priv(gvo, "_dynmat")
        dg["gv"] = "-" if gvo is None else ("?" if gdm is MISSING else ("cur" if gdm is dm else "stale"))
        dg["derived"] = {dk: read_derived(ph, dk) for dk in DERIVED}
        dg["derived_opt"] = dict(last_opt)
        from phonopy.phonon.group_velocity import GroupVelocity

        def qtok(x):
            return "-" if x is None else ("1" if abs(x - World.GVQ) < 1e-12 else ("default" if abs(x - getattr(GroupVelocity, "Default_q_length", 1e-5)) < 1e-15 else repr(x)))
        dqv = priv(ph, "_gv_delta_q")
        dg["dq"] = "?" if dqv is MISSING else qtok(dqv)
        qlv = MISSING if gvo is None else priv(gvo, "_q_length")
        dg["gvq"] = "-" if gvo is None else ("?" if qlv is MISSING else ("analytic" if qlv is None else qtok(qlv)))
        for name_, val_ in (("GroupVelocity._dynmat", dg["gv"]), ("Phonopy._gv_delta_q", dg["dq"]), ("GroupVelocity._q_length", dg["gvq"])):
            if val_ == "?" and name_ not in hooks_missing:
                hooks_missing.add(name_)
                viol("intermediate hook unavailable: %s" % name_, "hook-unavailable", "private attribute not found; the tie goes through public results only", si)
        fco = ph.force_constants
        dg["fcref"] = sorted(j for j, o in enumerate(objs) if o is not None and o is fco)
        steps.append(dict(out=out, flag=flag, dg=snapshot(dg)))
    return steps


def check_produced(w, ph, compact, viol, si, tainted):
    """the property itself for produce_force_constants: the force constants are those a freshly constructed object
    produces from the object's final dataset"""
    p = w.new_phonopy()
    p.dataset = _copy.deepcopy(ph.dataset)
    p.produce_force_constants(calculate_full_force_constants=not compact)
    if not close(ph.force_constants, p.force_constants, 1e-9):
        d = float(np.abs(np.asarray(ph.force_constants) - p.force_constants).max()) if np.shape(ph.force_constants) == np.shape(p.force_constants) else float("inf")
        viol("Phonopy.produce_force_constants", "stale-after-aliased-mutation" if tainted else "fc-not-from-current-dataset",
             "produce_force_constants() returned force constants that differ by %.3g from those a fresh object produces from ph.dataset" % d, si)


def displacement_scripts(run, w, rng):
    """the `displacements` / `forces` attribute setters on a type-2 dataset (oracle only: symfc/alm are not available, so
    no force constants can be produced from type-2 data here): after every step the object's dataset, displaced supercells
    and the outcome of produce_force_constants equal those of a fresh object given the final dataset"""
    rs = np.random.RandomState(w.seed + 5)
    ns = w.ns
    D = [rs.normal(scale=0.02, size=(2, ns, 3)) for _ in range(3)]
    Fs = [rs.normal(scale=0.5, size=(2, ns, 3)) for _ in range(2)]
    scripts = [[("disp", 0), ("forces", 0), ("scs",), ("disp", 1), ("scs",), ("produce",), ("forces", 1), ("disp", 2), ("scs",)],
               [("generate",), ("disp", 0), ("setds-none",), ("disp", 1), ("scs",), ("forces", 0), ("generate",), ("scs",)]]
    for sc in scripts:
        ph = w.new_phonopy()
        for si, op in enumerate(sc):
            res = None
            try:
                if op[0] == "disp":
                    handed = D[op[1]].copy()
                    ph.displacements = handed
                    if not close(handed, D[op[1]], 0.0):
                        run.violation("Phonopy.displacements setter", "caller-array-modified", "the displacement array handed in was modified", dict(world=w.describe(), script=sc[: si + 1]))
                elif op[0] == "forces":
                    ph.forces = Fs[op[1]].copy()
                elif op[0] == "generate":
                    ph.generate_displacements(distance=0.02)
                elif op[0] == "setds-none":
                    ph.dataset = None
                elif op[0] == "produce":
                    ph.produce_force_constants()
                elif op[0] == "scs":
                    res = [x.positions for x in ph.supercells_with_displacements]
            except Exception as e:
                res = ("err", type(e).__name__)
            # fresh object given the final dataset
            p = w.new_phonopy()
            fres = None
            try:
                p.dataset = _copy.deepcopy(ph.dataset)
                if op[0] == "produce":
                    p.produce_force_constants()
                elif op[0] == "scs":
                    fres = [x.positions for x in p.supercells_with_displacements]
            except Exception as e:
                fres = ("err", type(e).__name__)
            bad = None
            if op[0] == "produce" and (res is None) != (fres is None):
                bad = "produce_force_constants: %r on the object, %r on a fresh object given the same dataset" % (res, fres)
            elif op[0] == "scs" and not (isinstance(res, list) and isinstance(fres, list) and len(res) == len(fres) and all(close(a, b) for a, b in zip(res, fres))):
                bad = "supercells_with_displacements differ from those of a fresh object given ph.dataset"
            elif op[0] == "produce" and res is None and not close(ph.force_constants, p.force_constants, 1e-9):
                bad = "produced force constants differ from a fresh object's"
            if bad:
                run.violation("Phonopy.displacements/forces setters", "stale-state", bad, dict(world=w.describe(), script=[list(o) for o in sc[: si + 1]]))
            run.count("type-2 displacements/forces setter steps compared with a fresh object", section="oracle")


def snapshot(dg):
    """freeze the arrays of a digest (later steps mutate them in place)"""
    def cp(x):
        if isinstance(x, np.ndarray):
            return x.copy()
        if isinstance(x, dict):
            return _copy.deepcopy(x)
        return x
    out = {k: cp(v) for k, v in dg.items() if k != "dm"}
    dm = dg["dm"]
    out["dm"] = None if dm is None else {k: cp(v) for k, v in dm.items()}
    return out


def check_copy(w, ph, c, viol, si):
    """copy() yields an independent object: it carries no calculation state, and using it must
    not change any parameter of the original (the original is not queried here: a query would
    build caches the model's `copy` does not build)."""
    if c.force_constants is not None or c.nac_params is not None or c.dataset is not None or c.dynamical_matrix is not None:
        viol("Phonopy.copy", "copy-carries-state", "the copy carries force constants / NAC / dataset", si)

    def params():
        dm = ph.dynamical_matrix
        return dict(m=None if ph.masses is None else ph.masses.copy(),
                    fc=None if ph.force_constants is None else ph.force_constants.copy(),
                    dmfc=None if dm is None else dm.force_constants.copy(),
                    nac=_copy.deepcopy(ph.nac_params), cell=ph.unitcell.cell, um=ph.unitcell.masses, sm_=ph.supercell.masses,
                    pos=ph.supercell.scaled_positions, ppos=ph.primitive.scaled_positions,
                    pm=None if ph.primitive_matrix is None else np.array(ph.primitive_matrix), sm=np.array(ph.supercell_matrix))

    before = params()
    # use the copy
    c.masses = w.mass_pool[3]
    c.force_constants = w.fc_pool[5].copy()
    c.symmetrize_force_constants()
    c.nac_params = _copy.deepcopy(w.nac_pool[5])
    c.run_qpoints(QS)
    sm = c.supercell_matrix
    pm = c.primitive_matrix
    # end effect, through the public getters: writing into an array the copy hands out must not show in the original
    for name, arr, delta in (("supercell_matrix", sm, 7), ("primitive_matrix", pm, 0.5)):
        if arr is None or getattr(ph, name) is None:
            continue
        old = arr[0, 0]
        arr[0, 0] = old + delta
        leaked = getattr(ph, name)[0, 0] == old + delta
        arr[0, 0] = old
        if leaked:
            viol("Phonopy.copy", "copy-not-independent", "writing into copy().%s changes %s of the original object" % (name, name), si)
    after = params()
    for k in before:
        same = nac_close(before[k], after[k]) if k == "nac" else close(after[k], before[k], 0.0)
        if not same:
            viol("Phonopy.copy", "copy-not-independent", "using the copy changed %s of the original object" % k, si)


# --------------------------------------------------------------------------
# error paths: a REJECTED assignment must not leave an object that answers from a superseded or half-updated state
# --------------------------------------------------------------------------

def answers_or_errors(p):
    """every kind of query: ("ok", numbers) or ("raise", exception name)"""
    out = {}

    def att(name, f):
        try:
            out[name] = ("ok", f())
        except Exception as e:  # noqa: BLE001
            out[name] = ("raise", type(e).__name__ + ": " + str(e)[:80])

    def q1():
        p.run_qpoints(QS)
        return p.qpoints.frequencies.copy()

    def q2():
        p.run_qpoints(QS_GV, with_group_velocities=True)
        return p.qpoints.group_velocities.copy()

    att("frequencies", q1)
    att("group velocities", q2)
    att("band", lambda: run_derived(p, "band"))
    att("mesh", lambda: run_derived(p, "mesh"))     # a new mesh: thermal properties / DOS below are made from it, not from an older one
    for kind in ("tp", "dos"):
        if out["mesh"][0] == "ok":
            att(kind, lambda kind=kind: run_derived(p, kind))
        else:
            out[kind] = out["mesh"]
    return out


def fresh_given_reported(w, ph):
    """answers of a freshly constructed object given what the getters of `ph` report; None if it cannot even be given that"""
    fr = w.new_phonopy()
    try:
        if ph.masses is not None:
            fr.masses = np.array(ph.masses)
        if ph.force_constants is not None:
            fr.force_constants = np.array(ph.force_constants, dtype="double", order="C")
        if ph.nac_params is not None:
            fr.nac_params = _copy.deepcopy(ph.nac_params)
    except Exception as e:  # noqa: BLE001
        return None, type(e).__name__ + ": " + str(e)[:80]
    return answers_or_errors(fr), None


def bad_assignments(w):
    """name -> (setter the finding is filed under, function applying an invalid assignment / call to a Phonopy object)"""
    ns, npa = w.ns, w.np_
    good = w.nac_pool[2]

    def forces_without(p):
        p.dataset = _copy.deepcopy(w.gen_pool[0])
        p.produce_force_constants()

    return {
        "nac: Born charges for one atom too many": ("Phonopy.nac_params setter", lambda p: setattr(p, "nac_params", dict(_copy.deepcopy(good), born=np.zeros((npa + 1, 3, 3))))),
        "nac: Born charges for one atom too few": ("Phonopy.nac_params setter", lambda p: setattr(p, "nac_params", dict(_copy.deepcopy(good), born=np.zeros((npa - 1, 3, 3))))),
        "nac: dict without 'factor'": ("Phonopy.nac_params setter", lambda p: setattr(p, "nac_params", {k: _copy.deepcopy(v) for k, v in good.items() if k != "factor"})),
        "nac: dict without 'dielectric'": ("Phonopy.nac_params setter", lambda p: setattr(p, "nac_params", {k: _copy.deepcopy(v) for k, v in good.items() if k != "dielectric"})),
        "nac: dict without 'born'": ("Phonopy.nac_params setter", lambda p: setattr(p, "nac_params", {k: _copy.deepcopy(v) for k, v in good.items() if k != "born"})),
        "force constants: a string": ("Phonopy.force_constants setter", lambda p: setattr(p, "force_constants", "abc")),
        "masses: one too many": ("Phonopy.masses setter", lambda p: setattr(p, "masses", [10.0 + k for k in range(npa + 1)])),
        "masses: one too few": ("Phonopy.masses setter", lambda p: setattr(p, "masses", [10.0 + k for k in range(npa - 1)])),
        "masses: strings": ("Phonopy.masses setter", lambda p: setattr(p, "masses", ["a"] * npa)),
        "dataset: unknown format": ("Phonopy.dataset setter", lambda p: setattr(p, "dataset", {"foo": 1})),
        "dataset: a string": ("Phonopy.dataset setter", lambda p: setattr(p, "dataset", "abc")),
        "produce_force_constants without forces": ("Phonopy.produce_force_constants", forces_without),
        "symmetrize_force_constants(level='x')": ("Phonopy.symmetrize_force_constants", lambda p: p.symmetrize_force_constants(level="x")),
        "set_force_constants_zero_with_radius('x')": ("Phonopy.set_force_constants_zero_with_radius", lambda p: p.set_force_constants_zero_with_radius("x")),
    }


def error_paths(run, worlds, seed, thorough):
    import random as _random

    rng = _random.Random(15215 + 7919 * seed)
    found = {}
    nq = 0
    for w in worlds:
        bads = bad_assignments(w)
        for cls in ("plain", "wang", "gl"):
            names = sorted(bads)
            if not thorough:
                keep = [n for n in names if n.startswith("nac")]
                rest = [n for n in names if not n.startswith("nac")]
                rng.shuffle(rest)
                names = keep + rest[:5]
            for name in names:
                site, bad = bads[name]
                ph = w.new_phonopy()
                ph.masses = w.mass_pool[1].copy()
                ph.force_constants = w.fc_pool[0].copy()
                ph.dataset = _copy.deepcopy(w.ds_pool[0])
                if cls != "plain":
                    ph.nac_params = _copy.deepcopy(w.nac_pool[1 if cls == "wang" else 0])
                before = answers_or_errors(ph)
                if any(v[0] != "ok" for v in before.values()):
                    raise common.Broken("harness", "the valid state before the invalid assignment does not answer: %r" % {k: v[1] for k, v in before.items() if v[0] != "ok"})
                try:
                    bad(ph)
                    raised = None
                except Exception as e:  # noqa: BLE001
                    raised = type(e).__name__ + ": " + str(e)[:80]
                if raised is None:
                    # accepted: an ordinary (if odd) state change, not an error path; ill-formed arrays are outside the property's inputs
                    run.count("invalid assignment: %s -> accepted without an exception (not followed up)" % name)
                    continue
                steps = [("after the rejected assignment", None)]
                recover = rng.choice(["nac", "masses", "fc", "nac-none"])
                steps.append(("after a later valid assignment (%s)" % recover, recover))
                for label, rec in steps:
                    if rec == "nac":
                        todo = lambda: setattr(ph, "nac_params", _copy.deepcopy(w.nac_pool[3 if cls == "wang" else 4]))   # noqa: E731
                    elif rec == "nac-none":
                        todo = lambda: setattr(ph, "nac_params", None)   # noqa: E731
                    elif rec == "masses":
                        todo = lambda: setattr(ph, "masses", w.mass_pool[2].copy())   # noqa: E731
                    elif rec == "fc":
                        todo = lambda: setattr(ph, "force_constants", w.fc_pool[2].copy())   # noqa: E731
                    else:
                        todo = None
                    rec_raised = None
                    if todo is not None:
                        try:
                            todo()
                        except Exception as e:  # noqa: BLE001
                            rec_raised = type(e).__name__ + ": " + str(e)[:80]    # allowed: the object may refuse until it is repaired
                    got = answers_or_errors(ph)
                    exp, why = fresh_given_reported(w, ph)
                    for k, (st, val) in got.items():
                        nq += 1
                        if st != "ok":
                            continue      # the query refuses: fine
                        bad_ = None
                        if exp is None:
                            bad_ = "a fresh object cannot be given what the getters report (%s)" % why
                        elif exp[k][0] != "ok":
                            bad_ = "a fresh object given what the getters report refuses the query (%s)" % exp[k][1]
                        elif not close(val, exp[k][1], 1e-6 if k == "group velocities" else TOL):
                            d = float(np.abs(np.asarray(val) - np.asarray(exp[k][1])).max()) if np.shape(val) == np.shape(exp[k][1]) else float("inf")
                            same_old = close(val, before[k][1], TOL)
                            bad_ = "differs by %.3g from a fresh object given what the getters report%s" % (d, " (it is the answer of the state BEFORE the rejected assignment)" if same_old else "")
                        if bad_:
                            key = (site, "answers-after-rejected-assignment")
                            run.count("%s / %s" % key, section="oracle")
                            if key not in found:
                                found[key] = ("%s [%s] %s, %s: %s is answered, but %s" % (
                                    name, raised or "no exception", label, type(ph.dynamical_matrix).__name__ if ph.dynamical_matrix is not None else "no dynamical matrix", k, bad_),
                                    dict(world=w.describe(), dm_class=cls, invalid=name, exception=raised, later_valid_assignment=rec, later_exception=rec_raised, query=k,
                                         note="harness/props/c15.py: error_paths; state before: masses mass_pool[1], force constants fc_pool[0], dataset ds_pool[0], NAC nac_pool[1] (wang) / nac_pool[0] (gl)"))
                run.case(("error-path", w.name, cls, name, recover), nontrivial=True)
                run.count("invalid assignment: %s -> %s" % (name, "exception" if raised else "accepted"))
    run.count("queries after invalid assignments (each must refuse or equal a fresh object given what the getters report)", nq, section="oracle")
    for (site, klass), (what, case) in sorted(found.items()):
        run.violation(site, klass, what, case)


# --------------------------------------------------------------------------
# copy() of objects built with non-default constructor options (oracle only)
# --------------------------------------------------------------------------

NONDIAG = [[[2, 1, 0], [0, 2, 0], [0, 0, 1]], [[2, 0, 0], [1, 2, 0], [0, 1, 1]], [[-1, 1, 1], [1, -1, 1], [1, 1, -1]], [[1, 1, 0], [-1, 1, 0], [0, 0, 2]]]


def all_answers(p):
    """every kind of query, on an object that has force constants"""
    out = {}
    p.run_qpoints(QS)
    out["frequencies"] = p.qpoints.frequencies.copy()
    p.run_qpoints(QS_GV, with_group_velocities=True)
    out["group velocities"] = p.qpoints.group_velocities.copy()
    p.run_mesh(MESH)
    for kind in DERIVED:
        out[kind] = run_derived(p, kind, 0)
    return out


def option_copies(run, seed, thorough):
    """copy() yields an independent object THAT ANSWERS LIKE THE ORIGINAL: the same cells (atom order included), and, given
    the same force constants / NAC parameters / masses, the same results of every query, also for objects built with
    non-default constructor options in combination; likewise a fresh object built with the same options."""
    import random as _random
    from phonopy import Phonopy

    rng = _random.Random(15115 + 7919 * seed)
    rs = np.random.RandomState(15115 + 7919 * seed)
    found = {}
    n = 24 if thorough else 4
    for i in range(n):
        crystal = ["triclinic", "nacl", "cscl", "nacl_prim"][i % 4] if i < 4 else rng.choice(["triclinic", "nacl", "cscl", "nacl_prim", "hcp"])
        cell, _ = gen.make_cell(crystal)
        opts = dict(use_SNF_supercell=True) if (i % 2 == 0 or rng.random() < 0.5) else {}
        smat = rng.choice(NONDIAG) if (opts or rng.random() < 0.7) else np.diag(rng.choice([[2, 1, 1], [1, 2, 1], [1, 1, 2]])).tolist()
        if crystal == "nacl":
            smat = rng.choice(NONDIAG[:2])      # 8 atoms in the cell: keep the supercell small
        pmat = "auto" if crystal == "nacl" or rng.random() < 0.3 else "P"
        for key, val in (("store_dense_svecs", False), ("is_symmetry", False), ("symprec", 1e-3), ("factor", 521.471 * rng.choice([0.5, 1.0, 2.0])),
                         ("group_velocity_delta_q", 1e-4)):
            if rng.random() < 0.4:
                opts[key] = val
        if i == 1:
            opts.update(store_dense_svecs=False, is_symmetry=False)
        case = dict(crystal=crystal, supercell_matrix=smat, primitive_matrix=pmat, options={k: v for k, v in opts.items()})

        def build():
            return Phonopy(cell, supercell_matrix=np.array(smat), primitive_matrix=pmat, log_level=0, **opts)

        ph = build()
        ns, npa = len(ph.supercell), len(ph.primitive)
        fc = gen.pair_fc(ph.supercell, 4.6)
        fc = np.array(fc * (1.0 + 0.02 * rs.normal(size=fc.shape)), dtype="double", order="C")
        polar = crystal in ("nacl", "cscl", "nacl_prim") and rng.random() < 0.7
        nac = None
        if polar:
            z = 1.0 + rs.uniform(0, 1)
            nac = {"born": np.array([np.eye(3) * z * (-1) ** k for k in range(npa)]), "dielectric": np.eye(3) * (2.0 + rs.uniform(0, 1)), "factor": 14.4,
                   "method": rng.choice(["gonze", "wang"])}
        masses = np.array(ph.masses) * (1.0 + 0.3 * rs.uniform(size=npa))
        case["nac"] = None if nac is None else nac["method"]

        def give(p):
            p.masses = masses.copy()
            p.force_constants = fc.copy()
            if nac is not None:
                p.nac_params = _copy.deepcopy(nac)

        def hit(site, klass, what):
            run.count("%s / %s" % (site, klass), section="oracle")
            if (site, klass) not in found:
                found[(site, klass)] = (what, dict(case))

        # a history on the original first (the copy is taken from an object that has been used)
        ph.force_constants = np.array(fc * 1.1, dtype="double", order="C")
        ph.run_qpoints(QS)
        give(ph)
        ref = all_answers(ph)
        for label, other in (("copy()", ph.copy()), ("a fresh object built with the same options", build())):
            site = "Phonopy.copy" if label == "copy()" else "Phonopy.run_qpoints"
            klass_cells = "copy-differs" if label == "copy()" else "stale-state"
            for cn in ("unitcell", "supercell", "primitive"):
                a, b = getattr(ph, cn), getattr(other, cn)
                if (len(a) != len(b) or list(a.numbers) != list(b.numbers) or not close(a.cell, b.cell, 1e-12)
                        or not close(a.scaled_positions, b.scaled_positions, 1e-12)):
                    hit(site, klass_cells, "%s of an object built with %r and supercell matrix %r: its %s differs from the original's "
                        "(atoms in another order or at other positions), so force constants given to it belong to other atoms" % (label, opts, smat, cn))
            if not np.array_equal(np.array(ph.supercell_matrix), np.array(other.supercell_matrix)) or not close(ph.primitive_matrix, other.primitive_matrix, 1e-12):
                hit(site, klass_cells, "%s: supercell / primitive matrix differs from the original's" % label)
            if abs(ph.unit_conversion_factor - other.unit_conversion_factor) > 1e-12 * abs(ph.unit_conversion_factor):
                hit(site, klass_cells, "%s: unit conversion factor %r vs %r" % (label, other.unit_conversion_factor, ph.unit_conversion_factor))
            if len(ph.symmetry.symmetry_operations["rotations"]) != len(other.symmetry.symmetry_operations["rotations"]):
                hit(site, klass_cells, "%s: %d symmetry operations vs %d of the original" % (label, len(other.symmetry.symmetry_operations["rotations"]),
                                                                                        len(ph.symmetry.symmetry_operations["rotations"])))
            give(other)
            got = all_answers(other)
            for k in ref:
                tol = 1e-6 if k == "group velocities" else TOL
                if not close(got[k], ref[k], tol):
                    hit(site, "copy-answers-differently" if label == "copy()" else "stale-state",
                        "%s of an object built with %r, supercell matrix %r, given the same force constants, NAC parameters and masses: %s differ from the original's by %.3g"
                        % (label, opts, smat, k, float(np.abs(np.asarray(got[k]) - np.asarray(ref[k])).max()) if np.shape(got[k]) == np.shape(ref[k]) else float("inf")))
        run.case(("option-copy", crystal, repr(smat), pmat, repr(sorted(opts.items())), case["nac"]), nontrivial=True)
        run.count("copy() of objects built with non-default options (%s)" % ", ".join(sorted(opts)) if opts else "copy() of objects built with a non-diagonal supercell matrix")
        run.count("copies / fresh objects compared on every query", 2, section="oracle")
    for (site, klass), (what, case) in sorted(found.items()):
        run.violation(site, klass, what, case)


# --------------------------------------------------------------------------
# two objects given the same caller containers (oracle only)
# --------------------------------------------------------------------------

def obj_state(ph):
    dm = ph.dynamical_matrix
    return dict(ds=_copy.deepcopy(ph.dataset), fc=None if ph.force_constants is None else ph.force_constants.copy(),
                m=None if ph.masses is None else ph.masses.copy(), nac=_copy.deepcopy(ph.nac_params),
                dmfc=None if dm is None else dm.force_constants.copy())


def state_diff(a, b):
    out = []
    if not ds_close(a["ds"], b["ds"]):
        out.append("dataset")
    if not close(a["fc"], b["fc"], 1e-12):
        out.append("force_constants")
    if not close(a["dmfc"], b["dmfc"], 1e-12):
        out.append("dynamical_matrix.force_constants")
    if not close(a["m"], b["m"], 0.0):
        out.append("masses")
    if not nac_close(a["nac"], b["nac"]):
        out.append("nac_params")
    return out


def pair_script(rng, w, cls, kind):
    """ops (object index, op) on two objects that are handed the SAME caller containers"""
    sc = [(0, ("setds",)), (1, ("setds",))]
    if kind == "forces":
        sc += [(1, ("setforces", 2)), (0, ("produce",)), (1, ("produce",))]
    elif kind == "energies":
        sc += [(1, ("setenergies", 1)), (0, ("produce",)), (0, ("setenergies", 2)), (1, ("produce",))]
    elif kind == "producewith":
        sc += [(1, ("producewith", 3)), (0, ("produce",))]
    elif kind == "masses":
        sc = [(0, ("setmasses-shared",)), (1, ("setmasses-shared",)), (0, ("setfc-view",)), (1, ("setfc-view",)), (1, ("setmasses", 2))]
    elif kind == "fc-own":
        sc = [(0, ("setfc-own",)), (1, ("setfc-own",)), (1, ("sym", 1))]
    else:   # random interleaving
        pool = [("setds",), ("setforces", rng.randrange(4)), ("setenergies", rng.randrange(3)), ("produce",), ("producewith", rng.randrange(4)),
                ("setfc-view",), ("sym", 1), ("cut", 1), ("setmasses-shared",), ("setmasses", rng.randrange(3)), ("setnac-shared",), ("q",)]
        sc += [(rng.randrange(2), rng.choice(pool)) for _ in range(rng.randint(4, 10))]
    if cls != "plain" and kind != "random":
        sc = [(0, ("setnac-shared",)), (1, ("setnac-shared",))] + sc
    sc += [(0, ("q",)), (1, ("q",))]
    return sc


def run_pair(w, cls, script, viol):
    """A, B share the caller's containers; the shadows A', B' are handed deep copies. Every
    observable difference between an object and its shadow is leakage between the objects; every
    change of a caller container is a modification of data handed in."""
    real = [w.new_phonopy(), w.new_phonopy()]
    shadow = [w.new_phonopy(), w.new_phonopy()]
    caller = dict(ds=_copy.deepcopy(w.ds_pool[0]), masses=[float(x) for x in w.mass_pool[1]], nac=_copy.deepcopy(w.nac_pool[1 if cls == "wang" else 0]),
                  fcbase=w.fc_pool[1].copy(), fcown=w.fc_pool[2].copy())
    caller["fcview"] = caller["fcbase"][:]
    pristine = _copy.deepcopy({k: v for k, v in caller.items() if k != "fcview"})

    def apply(ph, op, shared):
        k = op[0]
        if k == "setds":
            ph.dataset = caller["ds"] if shared else _copy.deepcopy(pristine["ds"])
        elif k == "setforces":
            ph.forces = w.force_pool[op[1]].copy()
        elif k == "setenergies":
            ph.supercell_energies = w.energy_pool[op[1]].copy()
        elif k == "produce":
            ph.produce_force_constants()
        elif k == "producewith":
            ph.produce_force_constants(forces=w.force_pool[op[1]].copy())
        elif k == "setfc-view":
            ph.force_constants = caller["fcview"] if shared else pristine["fcbase"].copy()
        elif k == "setfc-own":
            ph.force_constants = caller["fcown"] if shared else pristine["fcown"].copy()
        elif k == "sym":
            ph.symmetrize_force_constants(level=op[1])
        elif k == "cut":
            ph.set_force_constants_zero_with_radius(w.radii[op[1]])
        elif k == "setmasses-shared":
            ph.masses = caller["masses"] if shared else list(pristine["masses"])
        elif k == "setmasses":
            ph.masses = w.mass_pool[op[1]]
        elif k == "setnac-shared":
            ph.nac_params = caller["nac"] if shared else _copy.deepcopy(pristine["nac"])
        elif k == "q":
            ph.run_qpoints(QS)
            return ph.qpoints.frequencies.copy()
        return None

    for si, (oi, op) in enumerate(script):
        res = []
        for objs, shared in ((real, True), (shadow, False)):
            try:
                res.append(("ok", apply(objs[oi], op, shared)))
            except Exception as e:
                import os
                import traceback

                tb = traceback.extract_tb(e.__traceback__)
                if not any(os.path.abspath(f.filename).startswith(os.path.abspath(common.REPO) + os.sep) for f in tb):
                    raise
                res.append(("err", type(e).__name__))
        name = "Phonopy.%s" % op[0]
        if res[0][0] != res[1][0]:
            viol(name, "cross-object-leak", "object %d: %s with shared caller containers, %s with private copies" % (oi, res[0], res[1]), si)
        elif res[0][0] == "ok" and res[0][1] is not None and not close(res[0][1], res[1][1], TOL):
            if any(o[1][0] == "setfc-own" for o in script[: si + 1]):
                # both objects were handed the same own array: the documented no-copy door of the setter
                viol("Phonopy.force_constants setter", "caller-array-aliased",
                     "two objects given the same own force-constant array: symmetrising one changes the phonons of the other", si)
            else:
                viol("Phonopy.run_qpoints", "cross-object-leak",
                 "object %d: phonons differ by %.3g THz from the same history run on an object with private copies of the inputs" % (
                     oi, float(np.abs(res[0][1] - res[1][1]).max())), si)
        # ---- caller containers unchanged (deep)
        own_door = False
        for key in pristine:
            cur, ref = caller[key], pristine[key]
            same = ds_key(cur) == ds_key(ref) if key == "ds" else (nac_close(cur, ref) if key == "nac" else (
                list(cur) == list(ref) if key == "masses" else close(cur, ref, 0.0)))
            if not same:
                if key == "fcown":
                    own_door = True
                    viol("Phonopy.force_constants setter", "caller-array-aliased",
                         "an own array handed to the setter of two objects was overwritten in place by %s" % op[0], si)
                else:
                    viol(name, "caller-container-modified", "the caller's %s was modified by object %d (%s)" % (key, oi, op[0]), si)
                pristine[key] = _copy.deepcopy(cur)   # report once
        # ---- no leakage: each object equals its shadow
        for j in (0, 1):
            d = state_diff(obj_state(real[j]), obj_state(shadow[j]))
            if d:
                if own_door or (set(d) <= {"force_constants", "dynamical_matrix.force_constants"} and any(o[1][0] == "setfc-own" for o in script[: si + 1])):
                    continue   # through the documented no-copy door of the force-constant setter (reported above)
                viol(name, "cross-object-leak",
                     "after object %d did %s, object %d differs in %s from the same history on an object with private copies" % (oi, op[0], j, ", ".join(d)), si)
                return


# --------------------------------------------------------------------------
# comparison with the model
# --------------------------------------------------------------------------

def masses_of(w, tok):
    if tok == "-":
        return None
    return w.start_masses if int(tok) == 1000 else w.mass_pool[int(tok)]


def refit_history(rng, w, cls):
    """forces assigned through the attribute, produce, other forces, produce again (and variations)"""
    ops = []
    if rng.random() < 0.5:
        ops.append(("generate", rng.randrange(3)))
    else:
        ops += [("new", "ds", rng.randrange(len(w.ds_pool)), 1), ("setds", len(ops))]
    if cls != "plain":
        ops += [("new", "nac", 1 if cls == "wang" else 0, 1), ("setnac", len(ops))]
    f1 = rng.randrange(4)
    f2 = (f1 + 1 + rng.randrange(3)) % 4
    first = rng.choice([[("setforces", f1), ("produce",)], [("setforces", f1), ("producec",)], [("producewith", f1)]])
    ops += first
    mid = rng.choice([[], [("q", "freq")], [("setenergies", rng.randrange(3))], [("q", "disps")], [("sym", 1)], [("q", "freq"), ("setmasses", rng.randrange(3))]])
    ops += mid
    ops += [("setforces", f2), rng.choice([("produce",), ("producec",)] if w.np_ != w.ns else [("produce",)]), ("q", "freq")]
    if rng.random() < 0.5:
        ops += [("setforces", f1), ("produce",), ("q", "freq")]
    return ops


def options_history(rng, w, cls):
    """one mesh, result objects asked repeatedly with changed options"""
    ops = list(prefix_for(cls)) + [("q", "mesh")]
    for _ in range(rng.randint(3, 6)):
        r = rng.random()
        if r < 0.5:
            ops.append(("q", "tp", rng.randrange(len(TP_OPTS))))
        elif r < 0.85:
            ops.append(("q", "dos", rng.randrange(len(DOS_OPTS))))
        else:
            ops.append(("q", rng.choice(["gettp", "getdos", "getmesh"])))
    # quantum then classical (and back) on the same mesh
    ops += [("q", "tp", 0), ("q", "tp", 1), ("q", "tp", 0), ("q", "dos", 0), ("q", "dos", 1)]
    return ops


def noop_history(rng, w, cls):
    """[..., q freq, masses = the masses it has, q freq]"""
    ops = [("new", "fc", rng.randrange(3), 1), ("setfc", 0)]
    if cls != "plain":
        ops += [("new", "nac", 1 if cls == "wang" else 0, 1), ("setnac", len(ops))]
    cur = 1000
    if rng.random() < 0.5 or w.start_masses is None:
        cur = rng.randrange(3)
        ops.append(("setmasses", cur))
    if rng.random() < 0.5:
        ops.append(("sym", 1))
    ops += [("q", "freq"), ("setmasses", cur), ("q", "freq")]
    if rng.random() < 0.5:
        ops += [("setmasses", cur), ("setmasses", cur), ("q", "freq")]
    return ops


def derived_expected(w, body, dk, fsf, opt=0):
    """numbers of result object `dk` of a fresh object with the parameters of the model snapshot `cls:fc:nac:m`"""
    cls, fct, nact, mt = body.split(":")
    nac = None if nact == "-" else dict(w.nac_term(int(nact)))
    if nac is not None:
        nac["method"] = "wang" if cls == "wang" else "gonze"
    return w.fresh(w.fc_term(int(fct)), nac, masses_of(w, mt), False, fsf, kind=dk, opt=opt)[0]


def parse_model(line):
    steps = []
    for part in line.split(" | "):
        out, rest = part.split(" @ ")
        flag, dg = rest.split(" ", 1)
        steps.append((out.strip(), flag, dict(kv.split("=", 1) for kv in dg.split())))
    return steps


def opt(tok):
    return None if tok == "-" else int(tok)


def compare(w, m0, ops, impl, model, mism):
    """step-by-step comparison; `mism(what, step)` records a disagreement"""
    if len(impl) != len(model):
        mism("driver answered %d steps for %d ops" % (len(model), len(impl)), -1)
        return
    refs_of = {}   # model reference -> steps whose output carries it
    for si, (op, st, (mout, mflag, mdg)) in enumerate(zip(ops, impl, model)):
        out, dg = st["out"], st["dg"]
        head = mout.split(":")[0]
        if head in ("new", "ref"):
            r = mout.split(":")[1]
            if r != "-":
                refs_of.setdefault(int(r), []).append(si)
        # ---- outputs
        if head == "err":
            if out[0] != "err":
                mism("model raises %s, implementation returns %s" % (mout, out[0]), si)
        elif out[0] == "err":
            mism("implementation raises %s, model returns %s" % (out[1], mout), si)
        elif head == "ok" or head == "new":
            if out[0] != head:
                mism("output kind %s vs %s" % (mout, out[0]), si)
        elif head == "ref":
            _, r, v = mout.split(":")
            kind = op[1]
            val = out[1]
            exp = None if v == "-" else (w.fc_term(int(v)) if kind == "fc" else (w.nac_term(int(v)) if kind == "nac" else w.ds_term(int(v))))
            # NB the handed-out object is live; its content was compared through the digest of this step
            if (val is None) != (exp is None):
                mism("getter %s: model %s, implementation %s" % (kind, mout, "None" if val is None else "object"), si)
        elif head == "val":
            v = mout.split(":")[1]
            if op[1] == "masses":
                exp = masses_of(w, v)
                if not close(out[1], exp):
                    mism("masses getter differs from model token %s" % v, si)
            else:
                if v == "-":
                    if out[1] is not None:
                        mism("supercells_with_displacements: model None", si)
                else:
                    exp = w.disp_term(int(v))
                    if out[1] is None or len(out[1]) != len(exp) or not all(close(a, b) for a, b in zip(out[1], exp)):
                        mism("supercells_with_displacements differ from the model's dataset term %s" % v, si)
        elif head == "copied":
            v = mout.split(":")[1]
            exp = masses_of(w, v)
            if not close(out[1], exp):
                mism("copy(): masses of the copy differ from model token %s" % v, si)
        elif head == "snap":
            body = mout[5:]
            if out[0] != "dv":
                mism("model returns a stored result object, implementation returned %s" % out[0], si)
            elif body == "-":
                if out[2] is not None:
                    mism("model: no stored %s object, implementation has one" % out[1], si)
            else:
                exp = derived_expected(w, body, out[1], False, out[3])
                if out[2] is None or not close(out[2], exp, 1e-6):
                    mism("stored %s object differs from the model's snapshot %s (options %d)" % (out[1], body, out[3]), si)
        elif head == "ph" and out[0] == "dv":
            exp = derived_expected(w, mout[3:], out[1], False, out[3])
            if out[2] is None or not close(out[2], exp, 1e-6):
                mism("run_%s (options %d) result differs from the model's prediction %s" % (out[1], out[3], mout), si)
        elif head == "ph":
            body = mout[3:]
            parts = body.split("/")
            with_gv = len(parts) == 2
            cls, fct, nact, mt = parts[0].split(":")
            masses = masses_of(w, mt)
            nac = None if nact == "-" else dict(w.nac_term(int(nact)))
            if nac is not None:
                nac["method"] = "wang" if cls == "wang" else "gonze"
            gvmode = "gv" if m0 == "gv" else False
            fr = w.fresh(w.fc_term(int(fct)), nac, masses, with_gv, gvmode)
            if out[0] != "ph" or not close(out[1], fr[0], TOL):
                mism("phonons differ from the model's prediction %s" % mout, si)
            elif with_gv:
                cls2, fct2, nact2, mt2 = parts[1].split(":")
                if (cls2, fct2, nact2, mt2) != (cls, fct, nact, mt):
                    nac2 = None if nact2 == "-" else dict(w.nac_term(int(nact2)))
                    fr = w.fresh(w.fc_term(int(fct2)), nac2, masses, True, gvmode)
                if not close(out[2], fr[1], 1e-6):
                    mism("group velocities differ from the model's prediction %s" % mout, si)
        # ---- the caller-mutation flag
        if mflag != st["flag"]:
            mism("model says MutatesReachable=%s, implementation-level aliasing says %s" % (mflag, st["flag"]), si)
        # ---- state digest
        exp_fc = None if mdg["fc"] == "-" else w.fc_term(int(mdg["fc"]))
        if not close(dg["fc"], exp_fc):
            mism("force constants differ from model term %s" % mdg["fc"], si)
        exp_nac = None if mdg["nac"] == "-" else w.nac_term(int(mdg["nac"]))
        if not nac_close(dg["nac"], exp_nac):
            mism("nac_params differ from model term %s" % mdg["nac"], si)
        exp_m = masses_of(w, mdg["m"])
        if not close(dg["m"], exp_m):
            mism("masses differ from model token %s" % mdg["m"], si)
        exp_ds = None if mdg["ds"] == "-" else w.ds_term(int(mdg["ds"]))
        if not ds_close(dg["ds"], exp_ds):
            mism("dataset differs from model term %s" % mdg["ds"], si)
        if mdg["dm"] == "-":
            if dg["dm"] is not None:
                mism("implementation has a dynamical matrix, model has none", si)
        elif dg["dm"] is None:
            mism("model has a dynamical matrix (%s), implementation has none" % mdg["dm"], si)
        else:
            cls, fct, nact, gz, same = mdg["dm"].split(":")
            d = dg["dm"]
            if d["cls"] != cls:
                mism("dynamical-matrix class %s vs model %s" % (d["cls"], cls), si)
            if not close(d["fc"], w.fc_term(int(fct))):
                mism("dynamical_matrix.force_constants differ from model term %s" % fct, si)
            exp = None if nact == "-" else dict(w.nac_term(int(nact)))
            if exp is not None:
                exp["method"] = d["nac"]["method"] if d["nac"] else "?"
            if not nac_close(d["nac"], exp):
                mism("effective (symmetrised) NAC parameters differ from model term %s" % nact, si)
            expg = None if gz == "-" else w.fc_term(int(gz))
            if not close(d["gonze"], expg):
                mism("Gonze-Lee short-range constants were built from other values than model term %s" % gz, si)
            if (same == "same") != bool(d["same"]):
                mism("dm.force_constants is ph.force_constants: model %s" % same, si)
        if dg["gv"] != "?" and mdg["gv"] != dg["gv"]:
            mism("group-velocity object: model %s, implementation %s" % (mdg["gv"], dg["gv"]), si)
        if dg["dq"] != "?" and mdg.get("dq", "-") != dg["dq"]:
            mism("Phonopy._gv_delta_q is %s, model gvDeltaQ %s" % (dg["dq"], mdg.get("dq")), si)
        if dg["gvq"] != "?" and mdg.get("gvq", "-") != dg["gvq"]:
            mism("the GroupVelocity object differentiates with q_length=%s, model %s" % (dg["gvq"], mdg.get("gvq")), si)
        for dk, tok in zip(DERIVED, mdg.get("derived", "-,-,-,-").split(",")):
            got = dg["derived"][dk]
            if tok == "-":
                if got is not None:
                    mism("implementation keeps a %s object, model has none" % dk, si)
            elif got is None:
                mism("model keeps a %s object (%s), implementation has none" % (dk, tok), si)
            elif not close(got, derived_expected(w, tok, dk, False, dg.get("derived_opt", {}).get(dk, 0)), 1e-6):
                mism("the kept %s object was computed from other parameters than the model's snapshot %s" % (dk, tok), si)
        exp_ref = [] if mdg["fcref"] == "-" else sorted(refs_of.get(int(mdg["fcref"]), []))
        if exp_ref != dg["fcref"]:
            mism("identity of the force-constant array: model steps %s, implementation steps %s" % (exp_ref, dg["fcref"]), si)


# --------------------------------------------------------------------------
# generators
# --------------------------------------------------------------------------

def prefix_for(cls):
    """base state of a dynamical-matrix class with everything built"""
    ops = [("new", "fc", 0, 1), ("setfc", 0), ("new", "ds", 0, 1), ("setds", 2)]
    if cls == "wang":
        ops += [("new", "nac", 1, 1), ("setnac", len(ops))]
    elif cls == "gl":
        ops += [("new", "nac", 0, 1), ("setnac", len(ops))]
    ops += [("q", "freq")]
    return ops


def symbols(cls, n0, full):
    """the alphabet of the bounded-exhaustive enumeration, as functions position -> list of ops"""
    nacidx = {"plain": 2, "wang": 3, "gl": 2}[cls]   # another value of the same class (plain: switches to gl)
    syms = {
        "setfc": lambda p: [("new", "fc", 1, 1), ("setfc", p)],
        "produce": lambda p: [("produce",)],
        "sym": lambda p: [("sym", 1)],
        "symsg": lambda p: [("symsg",)],
        "cut": lambda p: [("cut", 1)],
        "setnac": lambda p: [("new", "nac", nacidx, 1), ("setnac", p)],
        "setmasses": lambda p: [("setmasses", 1)],
        "setds": lambda p: [("new", "ds", 1, 1), ("setds", p)],
        "mutfc": lambda p: [("mut", 0, 2, "fc")],
    }
    if full:
        syms.update({
            "setfc-view": lambda p: [("new", "fc", 3, 0), ("setfc", p)],
            "setfc-again": lambda p: [("setfc", 0)],
            "setnac-none": lambda p: [("setnac", None)],
            "setnac-wang": lambda p: [("new", "nac", 5, 1), ("setnac", p)],
            "setnac-gl": lambda p: [("new", "nac", 4, 1), ("setnac", p)],
            "copy": lambda p: [("copy",)],
            "mutout": lambda p: [("q", "fc"), ("mut", p, 4, "fc")],
            "qgv": lambda p: [("q", "gv")],
            "mutnac": lambda p: [("q", "nac"), ("mut", p, nacidx)],
            "setforces": lambda p: [("setforces", 1)],
            "setenergies": lambda p: [("setenergies", 1)],
            "producewith": lambda p: [("producewith", 2)],
            "mutds": lambda p: [("mut", 2, 1)],
            "mesh": lambda p: [("q", "mesh")],
            "band": lambda p: [("q", "band")],
            "tp": lambda p: [("q", "tp")],
            "tp-classical": lambda p: [("q", "tp", 1)],
            "dos-sigma": lambda p: [("q", "dos", 1)],
            "dos": lambda p: [("q", "dos")],
            "generate": lambda p: [("generate", 1)],
            "producec": lambda p: [("producec",)],
            "setfc-compact": lambda p: [("new", "fc", 51, 1), ("setfc", p)],
        })
    return syms


def expand(prefix, word, syms):
    ops = list(prefix)
    for s in word:
        ops += syms[s](len(ops))
    ops += [("q", "freq"), ("q", "gv")]
    if any(sy in ("mesh", "band", "tp", "dos", "getmesh", "gettp", "tp-classical", "dos-sigma") for sy in word):
        ops += [("q", "getmesh"), ("q", "getband"), ("q", "gettp"), ("q", "getdos")]
    return ops


def random_history(rng, w, length):
    ops = []
    have = {"fc": [], "nac": [], "ds": []}
    m0_none = w.start_masses is None
    while len(ops) < length:
        r = rng.random()
        p = len(ops)
        if r < 0.10:
            # (where the primitive cell is the supercell the compact layout *is* the full layout: no separate leaves)
            k = rng.randrange(len(w.fc_pool)) if (rng.random() < 0.85 or w.np_ == w.ns) else 50 + rng.randrange(3)
            ops.append(("new", "fc", k, rng.choice([1, 1, 0])))
            have["fc"].append(p)
            ops.append(("setfc", p))
        elif r < 0.14 and have["fc"]:
            ops.append(("setfc", rng.choice(have["fc"])))
        elif r < 0.20:
            if have["ds"] or rng.random() < 0.5:
                rr = rng.random()
                if rr < 0.3:
                    ops.append(("produce",))
                elif rr < 0.4:
                    ops.append(("producec",) if w.np_ != w.ns else ("produce",))
                elif rr < 0.6:
                    ops.append(("producewith", rng.randrange(4)))
                elif rr < 0.85:
                    ops.append(("setforces", rng.randrange(4)))
                else:
                    ops.append(("setenergies", rng.randrange(3)))
        elif r < 0.30:
            ops.append(("sym", rng.choice([0, 1, 1, 2])))
        elif r < 0.36:
            ops.append(("symsg",))
        elif r < 0.44:
            ops.append(("cut", rng.randrange(4)))
        elif r < 0.54:
            if rng.random() < 0.2:
                ops.append(("setnac", None))
            else:
                ops.append(("new", "nac", rng.randrange(len(w.nac_pool)), 1))
                have["nac"].append(p)
                ops.append(("setnac", p))
        elif r < 0.60:
            ops.append(("setmasses", rng.randrange(3)))
        elif r < 0.66:
            rr = rng.random()
            if rr < 0.15:
                ops.append(("setds", None))
            elif rr < 0.35:
                ops.append(("generate", rng.randrange(3)))
            else:
                ops.append(("new", "ds", rng.randrange(len(w.ds_pool)), 1))
                have["ds"].append(p)
                ops.append(("setds", p))
        elif r < 0.69:
            ops.append(("copy",))
        elif r < 0.76:
            kd = rng.choice(["fc", "fc", "nac", "ds"])
            if have[kd]:
                n = {"fc": len(w.fc_pool), "nac": len(w.nac_pool), "ds": len(w.ds_pool)}[kd]
                ops.append(("mut", rng.choice(have[kd]), rng.randrange(n)) + (("fc",) if kd == "fc" else ()))
        elif r < 0.82:
            kd = rng.choice(["fc", "nac", "ds"])
            ops.append(("q", kd))
            have[kd].append(p)
        elif r < 0.84:
            ops.append(("q", rng.choice(["masses", "disps"])))
        elif r < 0.92:
            what = rng.choice(["mesh", "mesh", "band", "tp", "tp", "dos", "dos", "getmesh", "getband", "gettp", "getdos"])
            if what == "tp":
                ops.append(("q", "tp", rng.randrange(len(TP_OPTS))))
            elif what == "dos":
                ops.append(("q", "dos", rng.randrange(len(DOS_OPTS))))
            else:
                ops.append(("q", what))
        else:
            ops.append(("q", rng.choice(["freq", "freq", "gv"])))
    ops.append(("q", "freq"))
    return ops


# --------------------------------------------------------------------------
# shrinking (delta debugging on the op list)
# --------------------------------------------------------------------------

def shrink(w, ops, site, klass, budget=60, fsf=False):
    def fails(cand):
        hit = []
        try:
            run_impl(w, cand, lambda s, c, what, si: hit.append((s, c)), fsf=fsf)
        except Exception:
            return False
        return (site, klass) in hit

    cur = list(ops)
    n = 2
    t0 = time.time()
    while len(cur) >= 2 and time.time() - t0 < budget:
        chunk = max(1, len(cur) // n)
        reduced = False
        for start in range(0, len(cur), chunk):
            cand = drop_steps(cur, range(start, min(len(cur), start + chunk)))
            if len(cand) < len(cur) and cand and fails(cand):
                cur = cand
                n = max(n - 1, 2)
                reduced = True
                break
        if not reduced:
            if chunk == 1:
                break
            n = min(len(cur), n * 2)
    return cur


# --------------------------------------------------------------------------
# workers (histories are independent; the implementation side is the cost)
# --------------------------------------------------------------------------

_WORLDS = {}


def get_world(desc):
    key = (desc[0], tuple(desc[1]), desc[2])
    if key not in _WORLDS:
        _WORLDS[key] = World(desc[0], list(desc[1]), desc[2])
    return _WORLDS[key]


def _init_worker(repo):
    import os
    import warnings

    os.environ["VERIF_REPO"] = repo
    warnings.simplefilter("ignore")
    common.setup_phonopy("omp")


def _work(chunk):
    """chunk: list of (index, world description, ops, model answer line)"""
    import warnings

    warnings.simplefilter("ignore")
    res = []
    for idx, desc, ops, ml, fsf in chunk:
        w = get_world(desc)
        hits = []
        impl = run_impl(w, ops, lambda s, c, what, si: hits.append((s, c, what, si)), fsf=fsf)
        mis = []
        if ml is None:
            pass   # model branch not applicable to this tree (see fsf_model_applicable)
        elif ml == "bad-op":
            mis.append((-1, "model rejected the history"))
        else:
            compare(w, fsf, ops, impl, parse_model(ml), lambda what, si: mis.append((si, what)))
        res.append((idx, hits, mis))
    return res


def process(run, cases, lines, outl, nproc, fsf_ok=True):
    jobs = [(i, (c[0].name, c[0].smat, c[0].seed), c[1], outl[i] if (fsf_ok or c[4] is not True) else None, c[4]) for i, c in enumerate(cases)]
    if nproc <= 1:
        return _work(jobs)
    import multiprocessing as mp
    import os

    # interleave so that every worker gets a similar mix of cheap and expensive histories
    chunks = [jobs[k::nproc * 4] for k in range(nproc * 4)]
    chunks = [c for c in chunks if c]
    old = os.environ.get("OMP_NUM_THREADS")
    os.environ["OMP_NUM_THREADS"] = "1"
    try:
        ctx = mp.get_context("spawn")
        with ctx.Pool(nproc, initializer=_init_worker, initargs=(common.REPO,)) as pool:
            parts = pool.map(_work, chunks, chunksize=1)
    finally:
        if old is None:
            os.environ.pop("OMP_NUM_THREADS", None)
        else:
            os.environ["OMP_NUM_THREADS"] = old
    res = [r for part in parts for r in part]
    res.sort(key=lambda r: r[0])
    return res


# --------------------------------------------------------------------------
# main
# --------------------------------------------------------------------------

def main(run):
    import os
    import warnings

    warnings.simplefilter("ignore")
    rng = run.rng
    common.setup_phonopy("omp")
    thorough = run.tier == "thorough"
    run.proof_step(leancheck=thorough)
    run.cov["rule"] = (
        "histories over the public state-changing API of Phonopy (force_constants=, produce_force_constants, "
        "symmetrize_force_constants, symmetrize_force_constants_by_space_group, set_force_constants_zero_with_radius, "
        "nac_params=, masses=, dataset=, copy, caller mutations of arrays handed in / out) interleaved with queries; "
        "bounded-exhaustive words over a 9-symbol alphabet (length <= 3 quick, <= 4 thorough) after a prefix that puts the "
        "object into each dynamical-matrix class (DynamicalMatrix, DynamicalMatrixWang, DynamicalMatrixGL with the "
        "short-range cache built), all words of length <= 2 over a 16-symbol alphabet (views, re-handing, copy, getter "
        "mutation, NAC dict mutation), plus random histories up to length 30 on several crystals (one with unknown "
        "masses). Every step: implementation state vs Lean model (terms evaluated with the real numerical routines); "
        "every query: phonons vs a freshly constructed object. Non-trivial = at least four state-changing operations "
        "(the dynamical matrix is rebuilt or must be invalidated after it was first used).")
    run.cov["trusted_base"] = [
        "Lean 4.33 kernel; axioms per theorem in coverage.theorems",
        "hand-written model Model/ApiState.lean tied to api_phonopy.py / dynamical_matrix.py by this correspondence run",
        "the harness evaluates the model's value terms with phonopy's own numerical routines (symmetrize_force_constants, "
        "cutoff_force_constants, set_tensor_symmetry_PJ, get_fc2, symmetrize_borns_and_epsilon) on copies",
        "group-velocity object identity is read from the private attribute GroupVelocity._dynmat (observation only)",
        "nanobind replaced by harness/nbstub (c/_phonopy.cpp itself is compiled unchanged); OpenMP build, so run_qpoints "
        "uses run_dynamical_matrix_solver_c for all q-points",
    ]
    run.assumptions += [
        "well-formed NAC parameters (Born charges for every primitive atom), type-1 datasets with forces, full (not compact) force constants",
        "deprecated constructor options (frequency_scale_factor, dynamical_matrix_decimals, force_constants_decimals) are left at None",
        "float rounding: frequencies compared with 1e-7 relative tolerance, group velocities with 1e-5",
    ]

    worlds = [World("triclinic", [1, 1, 2], 11 + run.seed), World("cscl", [1, 1, 2], 23 + run.seed), World("sc", [2, 1, 1], 37 + run.seed)]
    if thorough:
        worlds += [World("nacl_prim", [2, 1, 1], 41 + run.seed), World("mono_P", [1, 1, 2], 43 + run.seed), World("hcp", [1, 1, 1], 47 + run.seed)]
    for w in worlds:
        _WORLDS[(w.name, tuple(w.smat), w.seed)] = w

    # ---- the constructor must not keep the caller's supercell-matrix array (same door as copy())
    ctor_hits = []
    for w in worlds[:2]:
        sm = np.diag(w.smat)
        p0 = gen.make_phonopy(w.cell, sm, pmat="P")
        if np.shares_memory(p0.supercell_matrix, sm):
            ctor_hits.append((w, "Phonopy(unitcell, supercell_matrix=A) keeps a view of the caller's ndarray A: A[0,0] += 1 changes ph.supercell_matrix"))
        run.count("constructor supercell_matrix aliasing checked", section="oracle")

    # ---- does the implementation store the scaled force constants back (the pinned code does)?
    # The model's `fsf` branch describes exactly that; on a tree where this is repaired the branch
    # is not applicable and the frequency_scale_factor histories are judged by the oracle alone.
    pfsf = worlds[0].new_phonopy(True)
    pfsf.force_constants = worlds[0].fc_pool[0].copy()
    fsf_model_applicable = not close(pfsf.force_constants, worlds[0].fc_pool[0])
    run.cov["fsf_model_applicable"] = bool(fsf_model_applicable)

    cases = []   # (world, ops, tag, word)
    w0 = worlds[0]
    for cls in ("plain", "wang", "gl"):
        pre = prefix_for(cls)
        syms = symbols(cls, len(pre), full=False)
        maxlen = 4 if thorough else 3
        names = sorted(syms)
        for L in range(0, maxlen + 1):
            for word in itertools.product(names, repeat=L):
                cases.append((w0, expand(pre, word, syms), "exh-%s-%d" % (cls, L), word, False))
        # the wider alphabet (views, re-handing, copy, getter mutation, NAC dict mutation): all words of length <= 2
        syms2 = symbols(cls, len(pre), full=True)
        names2 = sorted(syms2)
        for L in (1, 2):
            for word in itertools.product(names2, repeat=L):
                if all(s in syms for s in word):
                    continue
                cases.append((w0, expand(pre, word, syms2), "exh2-%s-%d" % (cls, L), word, False))
        # words of length 3 and 4 over the wider alphabet, by sampling
        for i in range(3000 if thorough else 60):
            L = 3 if (i % 2 == 0) else 4
            word = tuple(rng.choice(names2) for _ in range(L))
            cases.append((w0, expand(pre, word, syms2), "sampled-%s-%d" % (cls, L), word, False))
    nrand = 2500 if thorough else 90
    for i in range(nrand):
        w = worlds[i % len(worlds)]
        cases.append((w, random_history(rng, w, rng.randint(4, 30)), "random", None, False))
    # setters given the current value are no-ops; also with the deprecated frequency_scale_factor
    for i in range(60 if thorough else 12):
        w = worlds[i % 2]
        cls = ("plain", "wang", "gl")[i % 3]
        cases.append((w, noop_history(rng, w, cls), "noop-setter", None, False))
        cases.append((w, noop_history(rng, w, cls), "noop-setter-fsf", None, True))
    for i in range(40 if thorough else 6):
        w = worlds[i % 2]
        cases.append((w, random_history(rng, w, rng.randint(4, 16)), "random-fsf", None, True))
    # a symmetriser after a query (the lazily built short-range constants exist), followed by every kind of query
    for w in worlds[:2]:
        for cls in ("plain", "wang", "gl"):
            for symop in (("sym", 1), ("sym", 2), ("symsg",), ("cut", 1)):
                ops = list(prefix_for(cls)) + [("q", "gv"), symop, ("q", "freq"), ("q", "gv"), ("q", "mesh"), ("q", "band"), ("q", "tp"), ("q", "dos"),
                                               ("q", "fc"), ("q", "getmesh"), ("q", "gettp")]
                cases.append((w, ops, "symmetrise-after-query", None, False))
    # refits after new forces; result objects asked again with other options on the same mesh
    for i in range(90 if thorough else 12):
        w = worlds[i % 2]
        cls = ("plain", "wang", "gl")[i % 3]
        cases.append((w, refit_history(rng, w, cls), "refit", None, False))
        cases.append((w, options_history(rng, w, cls), "result-object options", None, False))
    # objects constructed with group_velocity_delta_q, and gv queries across class switches
    for i in range(60 if thorough else 9):
        w = worlds[i % 2]
        cls = ("plain", "wang", "gl")[i % 3]
        pre = prefix_for(cls)
        sw = [rng.choice(["setnac-none", "setnac-wang", "setnac-gl", "copy", "sym", "setmasses"]) for _ in range(rng.randint(1, 3))]
        syms_gv = symbols(cls, len(pre), full=True)
        word = ["qgv"] + sw + ["qgv"]
        cases.append((w, expand(pre, word, syms_gv), "gv-switch", tuple(word), False))
        cases.append((w, expand(pre, word, syms_gv), "gv-switch-delta_q", tuple(word), "gv"))
    # ---- description invariance: the same histories on a LEFT-HANDED description of a crystal (own random stream, so
    # that the other histories of a seed stay what they were); every frequency query is also compared with a fresh
    # object on the original lattice vectors at the same Cartesian q-points
    import random as _random

    rrng = _random.Random(15015 + 7919 * run.seed)
    det_minus = [m for m, M in sorted(gen.UNIMODULAR.items()) if round(np.linalg.det(np.array(M))) == -1]
    others = [m for m in sorted(gen.UNIMODULAR) if m not in det_minus]
    rel_worlds = [World("%s~%s" % (rrng.choice(["triclinic", "cscl"]), rrng.choice(det_minus)), [1, 1, 2], 53 + run.seed)]
    if thorough:
        rel_worlds += [World("cscl~%s" % m, [1, 1, 2], 59 + run.seed) for m in det_minus + others] + [World("triclinic~shear", [1, 1, 2], 61 + run.seed)]
    for w in rel_worlds:
        _WORLDS[(w.name, tuple(w.smat), w.seed)] = w
        for cls in ("plain", "wang", "gl"):
            symop = rrng.choice([("sym", 1), ("sym", 2), ("symsg",), ("cut", 1)])
            ops = list(prefix_for(cls)) + [("q", "freq"), ("q", "gv"), symop, ("q", "freq"), ("q", "gv"), ("q", "mesh"), ("q", "band"), ("q", "tp"), ("q", "dos"), ("q", "fc")]
            cases.append((w, ops, "relabelled-description", None, False))
            for _ in range(8 if thorough else 1):
                pre = prefix_for(cls)
                syms_r = symbols(cls, len(pre), full=False)
                word = tuple(rrng.choice(sorted(syms_r)) for _ in range(rrng.randint(2, 5)))
                cases.append((w, expand(pre, word, syms_r), "relabelled-description", word, False))
    run.cov["relabelled_worlds"] = [w.describe() for w in rel_worlds]
    run.cov["exhaustive_words"] = sum(1 for c in cases if c[2].startswith("exh"))
    run.cov["exhaustive"] = False

    # ---- model side (cheap): one driver call for all histories
    lines = [history_line(None if c[0].start_masses is None else 1000, c[1], c[4]) for c in cases]
    t0 = time.time()
    outl = common.lean_run_driver("C15", lines)
    run.cov["model_wall_s"] = round(time.time() - t0, 1)
    if len(outl) != len(lines):
        run.broke("correspondence", "driver answered %d lines for %d histories" % (len(outl), len(lines)))
        outl = (outl + ["bad-op"] * len(lines))[: len(lines)]

    # ---- implementation side + oracle + step-by-step comparison
    t0 = time.time()
    nproc = int(os.environ.get("VERIF_PROCS", "0") or 0) or max(1, min(8, (os.cpu_count() or 2) // 2))
    try:
        results = process(run, cases, lines, outl, nproc, fsf_model_applicable)
    except (OSError, RuntimeError, ImportError) as e:  # no process pool available: run in-process
        run.cov["pool_error"] = repr(e)[:200]
        results = process(run, cases, lines, outl, 1, fsf_model_applicable)
    run.cov["impl_wall_s"] = round(time.time() - t0, 1)
    run.cov["processes"] = nproc

    # conditions on hidden state / representation are counted, not judged (the correspondence with the model and the
    # end-effect oracles decide): private GroupVelocity configuration, nested containers shared with a caller's dict
    OBSERVATIONS = {"gv-configuration-differs", "caller-container-shared", "hook-unavailable", "descriptions-agree"}
    found = {}  # (site, class) -> first (world, ops, what, step)
    nsteps = nbad = 0
    for (w, ops, tag, word, fsf), (idx, hits, mis), line, ml in zip(cases, results, lines, outl):
        for (s, c, what, si) in hits:
            if c in OBSERVATIONS:
                run.count("%s / %s (observation, not a verdict)" % (s, c), section="oracle")
                continue
            run.count("%s / %s" % (s, c), section="oracle")
            if (s, c) not in found or len(ops) < len(found[(s, c)][1]):
                found[(s, c)] = (w, ops, what, si, fsf)
        nstate = sum(1 for o in ops if o[0] not in ("q", "new"))
        run.case((w.name, fsf, tuple(ops)), nontrivial=nstate >= 4)
        run.count(tag)
        run.count("world %s" % w.name)
        for o in ops:
            run.count("op " + (o[0] if o[0] != "q" else "q-" + o[1]))
        run.count("queries compared with a fresh object", sum(1 for o in ops if o in (("q", "freq"), ("q", "gv"))), section="oracle")
        nsteps += len(ops)
        if mis:
            nbad += 1
            if nbad <= 3:
                si, what = mis[0]
                run.broke("correspondence", "step %d (%s): %s" % (si, op_text(ops[si]) if si >= 0 else "-", what),
                          dict(world=w.describe(), history=line, model=ml[:1500]))
    run.cov["correspondence"]["histories"] = len(cases)
    run.cov["correspondence"]["steps_compared"] = nsteps
    run.cov["correspondence"]["histories_disagreeing"] = nbad
    run.cov["states"] = nsteps

    for (s, c), (w, ops, what, si, fsf) in sorted(found.items()):
        small = shrink(w, ops[: si + 1], s, c, budget=10 if not thorough else 60, fsf=fsf)
        run.violation(s, c, what, dict(world=w.describe(), frequency_scale_factor=World.FSF if fsf is True else None, group_velocity_delta_q=World.GVQ if fsf == "gv" else None, history=[op_text(o) for o in small],
                                       masses0=None if w.start_masses is None else "from symbols",
                                       note="ops as in lean/Drivers/C15.lean; value 7k = entry k of the pools of World(crystal, supercell, pool_seed) in harness/props/c15.py"))

    for w in worlds[:2]:
        displacement_scripts(run, w, rng)

    # ---- two objects sharing the caller's containers
    t0 = time.time()
    npair = 0
    pair_found = {}
    kinds = ["forces", "energies", "producewith", "masses", "fc-own"]
    for w in worlds[:2]:
        for cls in ("plain", "wang", "gl"):
            scripts = [(kd, pair_script(rng, w, cls, kd)) for kd in kinds]
            scripts += [("random", pair_script(rng, w, cls, "random")) for _ in range(12 if thorough else 3)]
            for kd, sc in scripts:
                hits = []
                run_pair(w, cls, sc, lambda s_, c_, what, si: hits.append((s_, c_, what, si)))
                npair += 1
                run.case(("pair", w.name, cls, tuple(sc)), nontrivial=True)
                run.count("pair histories (%s)" % kd)
                for (s_, c_, what, si) in hits:
                    run.count("%s / %s" % (s_, c_), section="oracle")
                    if (s_, c_) not in pair_found or si < pair_found[(s_, c_)][3]:
                        pair_found[(s_, c_)] = (w, cls, sc, si, what)
    run.cov["pair_histories"] = npair
    run.cov["pair_wall_s"] = round(time.time() - t0, 1)
    for (s_, c_), (w, cls, sc, si, what) in sorted(pair_found.items()):
        run.violation(s_, c_, what, dict(world=w.describe(), dm_class=cls, two_objects=True,
                                         script=[("A" if o == 0 else "B") + "." + " ".join(map(str, op)) for o, op in sc[: si + 1]],
                                         note="A and B are handed the same caller dataset dict / masses list / nac dict / fc array (harness/props/c15.py: run_pair)"))

    t0 = time.time()
    option_copies(run, run.seed, thorough)
    run.cov["option_copies_wall_s"] = round(time.time() - t0, 1)
    t0 = time.time()
    error_paths(run, worlds[:2], run.seed, thorough)
    run.cov["error_paths_wall_s"] = round(time.time() - t0, 1)

    if ctor_hits:
        # representation-level condition (the stored matrix is a view of the caller's array): an observation, not a verdict
        run.count("constructor keeps a view of the caller's supercell_matrix array (observation, not a verdict)", len(ctor_hits), section="oracle")

    k = min(len(lines) - 1, 700)
    run.sample(dict(history=lines[k], model=outl[k][:600]))
    run.sample(dict(history=lines[-1]))
    run.cov["partial"] = [
        "coherent_step / coherent_reachable / no_alias_in / no_alias_out hold only as _partial theorems: the current code keeps the "
        "caller's force-constant array and NAC dict and hands out live arrays (known findings); the refutations of the full statements "
        "are theorems (..._counterexample) and are replayed on the implementation in every run"]
