"""C14 — one spectrum through every access path and output option.

Proof step: Props/C14.lean (paths_agree / options_independent for the repaired text, exact partial theorems and
`decide` counterexamples for the pinned text, band connection = permutation under an executable certificate,
written precision).  Correspondence: all 16 option combinations x {run_qpoints, run_band_structure, run_mesh,
init_mesh + iteration, DynamicalMatrix directly} x NAC on/off x OpenMP/serial build: every returned field is
classified (which quantity of which q-point it holds) and compared with the model's prediction at the revision the
code behaves as; estimate_band_connection is compared with the model's greedy matching on the very overlap matrix;
every number written by the yaml writers is compared exactly with the model's round-to-k-decimals.  Oracle: the
property itself on the real code (fields equal across paths and option sets, eigenvectors diagonalise the reported
dynamical matrix to the reported eigenvalues, band connection only re-orders, files re-read equal)."""

from __future__ import annotations

import contextlib
import io
import itertools
import os
import re
import tempfile
import warnings
from fractions import Fraction

import numpy as np

from .. import common, gen
from ..common import q as qx
from .c13_util import switch_build

TOL = 1e-9
PATHS = ["qpoints", "band", "mesh", "itermesh", "direct"]


def _close(a, b, scale=None):
    """finite entries within TOL*scale; identical pattern of non-finite entries (equal NaNs / infinities are not a difference)"""
    a, b = np.asarray(a), np.asarray(b)
    if a.shape != b.shape:
        return False
    if a.dtype.kind in "fc" and b.dtype.kind in "fc":
        fa, fb = np.isfinite(a), np.isfinite(b)
        if not (fa == fb).all():
            return False
        if not fa.all():
            na, nb_ = a[~fa], b[~fb]
            if not ((np.isnan(na) == np.isnan(nb_)).all() and (np.where(np.isnan(na), 0, na) == np.where(np.isnan(nb_), 0, nb_)).all()):
                return False
            a, b = a[fa], b[fb]
    if a.size == 0:
        return True
    s = max(1.0, float(np.abs(b).max()) if scale is None else scale)
    return bool(np.abs(a - b).max() <= TOL * s)


def _lam(f, factor):
    """eigenvalues behind reported frequencies (comparisons are made there: sqrt amplifies rounding at acoustic Gamma modes)"""
    f = np.asarray(f, dtype=float) / factor
    return np.sign(f) * f * f


def nn_distance(cell):
    lat, pos = cell.cell, cell.scaled_positions
    best = 1e99
    for i in range(len(pos)):
        for j in range(len(pos)):
            for sft in itertools.product((-1, 0, 1), repeat=3):
                d = np.linalg.norm((pos[j] - pos[i] + np.array(sft)) @ lat)
                if d > 1e-6:
                    best = min(best, d)
    return best


def make_case(rng, thorough):
    names = ["nacl_prim", "cscl", "zincblende_prim", "hcp", "bct", "rhombo", "bcc", "mono_P"] + (["triclinic", "fcc"] if thorough else [])
    name = rng.choice(names)
    smat = rng.choice([[2, 1, 1], [1, 2, 1], [1, 1, 2], [2, 2, 1], [2, 1, 2]])
    qs = [[rng.randint(1, 7) / 16.0 * rng.choice([-1, 1]) for _ in range(3)] for _ in range(2)]
    a = [rng.randint(1, 7) / 16.0 for _ in range(3)]
    b = [rng.randint(1, 7) / 16.0 * rng.choice([-1, 1]) for _ in range(3)]
    npts = 4
    path = [[a[k] + (b[k] - a[k]) * t / (npts - 1) for k in range(3)] for t in range(npts)]
    # constructor options, drawn in combination (defaults: factor=VaspToTHz, symprec=1e-5, is_symmetry=True, dense svecs, no SNF)
    ctor = dict(factor=rng.choice([None, 21.49068, 108.97077, 1.0, 521.47083]), symprec=rng.choice([1e-5, 1e-5, 1e-3, 1e-6]),
                is_symmetry=rng.random() < 0.75, store_dense_svecs=rng.random() < 0.6, use_SNF_supercell=rng.random() < 0.3)
    return dict(cell=name, smat=smat, qs=qs, path=path, mesh=[rng.choice([2, 3]) for _ in range(3)],
                nac=rng.choice([None, "gonze", "wang"]), length=rng.choice([6.0, 8.0, 11.0]), ctor=ctor)


def build_phonon(case):
    import phonopy

    lat, sym, pos, cen = gen.PROTOTYPES[case["cell"]]
    cell, _ = gen.make_cell(case["cell"])
    kw = dict(case.get("ctor") or {})
    if kw.get("factor") is None:
        kw.pop("factor", None)
    ph = phonopy.Phonopy(cell, supercell_matrix=np.diag(case["smat"]), primitive_matrix="auto" if cen != "P" else "P", log_level=0, **kw)
    ph.force_constants = gen.pair_fc(ph.supercell, 1.45 * nn_distance(ph.primitive))
    if case["nac"]:
        n = len(ph.primitive)
        z = np.zeros((n, 3, 3))
        for i in range(n):
            z[i] = np.eye(3) * (1.2 if i % 2 == 0 else -1.2)
        z -= z.mean(axis=0)
        ph.nac_params = {"born": z, "dielectric": np.eye(3) * 2.3, "factor": 14.4, "method": case["nac"]}
    return ph


class Reference:
    """the dynamical-matrix object used directly (path 'direct')"""

    def __init__(self, ph):
        self.ph = ph
        self.cache = {}

    def at(self, qpt):
        k = tuple(np.round(np.asarray(qpt, dtype=float), 12))
        if k not in self.cache:
            ph = self.ph
            D = np.array(ph.get_dynamical_matrix_at_q(qpt))
            f, v = ph.get_frequencies_with_eigenvectors(qpt)
            f2 = ph.get_frequencies(qpt)
            g = np.array(ph.get_group_velocity_at_q(qpt))
            self.cache[k] = dict(D=D, f=np.array(f), v=np.array(v), f2=np.array(f2), g=g)
        return self.cache[k]


def classify_matrix(M, refq, evals_reported=None):
    """which quantity a (nb, nb) complex array holds: 'D', 'V' (eigenvector matrix of D) or 'other'"""
    D = refq["D"]
    scale = max(1.0, float(np.abs(D).max()))
    if M.shape == D.shape and np.abs(M - D).max() <= TOL * scale:
        return "D"
    if M.shape == D.shape:
        unit = np.abs(M.conj().T @ M - np.eye(len(M))).max()
        lam = np.real(np.einsum("ij,ij->j", M.conj(), D @ M))
        resid = np.abs(D @ M - M * lam[None, :]).max()
        if unit < 1e-8 and resid <= 1e-8 * scale:
            return "V"
    return "other"


def run_paths(ph, ref, case, omp):
    """All option combinations through the public entry points. Returns results keyed by (path, projected options)."""
    import phonopy.phonon.band_structure as BS

    out = {}
    qs = np.array(case["qs"])
    # ---- qpoints: options e,g,d
    for e, g, d in itertools.product([False, True], repeat=3):
        ph.run_qpoints(qs, with_eigenvectors=e, with_group_velocities=g, with_dynamical_matrices=d)
        out[("qpoints", e, g, d)] = dict(ph.get_qpoints_dict(), qpoints=qs)
    # ---- band: options e,g,c ; estimate_band_connection recorded (inputs and result)
    rec = []
    orig = BS.estimate_band_connection

    def spy(prev_eigvecs, eigvecs, prev_band_order):
        res = orig(prev_eigvecs, eigvecs, prev_band_order)
        rec.append((np.array(prev_eigvecs), np.array(eigvecs), list(prev_band_order), list(res)))
        return res

    for e, g, c in itertools.product([False, True], repeat=3):
        del rec[:]
        BS.estimate_band_connection = spy
        try:
            ph.run_band_structure([case["path"]], with_eigenvectors=e, with_group_velocities=g, is_band_connection=c)
        finally:
            BS.estimate_band_connection = orig
        d_ = ph.get_band_structure_dict()
        out[("band", e, g, c)] = dict(frequencies=d_["frequencies"][0], eigenvectors=None if d_["eigenvectors"] is None else d_["eigenvectors"][0],
                                      group_velocities=None if d_["group_velocities"] is None else d_["group_velocities"][0],
                                      qpoints=np.array(case["path"]), conn=list(rec))
    # ---- mesh: options e,g
    for e, g in itertools.product([False, True], repeat=2):
        ph.run_mesh(case["mesh"], with_eigenvectors=e, with_group_velocities=g)
        out[("mesh", e, g)] = dict(ph.get_mesh_dict())
    # ---- iter mesh: option e
    for e in (False, True):
        ph.init_mesh(case["mesh"], with_eigenvectors=e, use_iter_mesh=True)
        fr, ev, err = [], [], None
        try:
            for f_, v_ in ph.mesh:
                fr.append(np.array(f_))
                ev.append(None if v_ is None else np.array(v_))
        except UnboundLocalError as ex:
            err = "unbound"
        out[("itermesh", e)] = dict(frequencies=np.array(fr) if fr else None, eigenvectors=ev, qpoints=np.array(ph.mesh.qpoints), error=err)
    return out


def label_row(path, res, i, refq, ord_, factor=1.0):
    """symbolic rendering of row i of a result, in the driver's syntax"""
    def wrap(s):
        return "P[%s](%s)" % (",".join(map(str, ord_)), s) if ord_ is not None else s

    def take(a):
        return np.asarray(a)[list(ord_)] if ord_ is not None else np.asarray(a)

    lab = {}
    f = np.asarray(res["frequencies"][i])
    lab["freqs"] = wrap("F(D%d)" % i) if _close(_lam(f, factor), _lam(take(refq["f"]), factor)) else "other"
    ev = res.get("eigenvectors")
    if ev is None or (isinstance(ev, list) and ev[i] is None):
        lab["eigvecs"] = "none"
    else:
        M = np.asarray(ev[i])
        k = classify_matrix(M, refq)
        ok = k == "V"
        if ok:
            lam = np.real(np.einsum("ij,ij->j", M.conj(), refq["D"] @ M))
            # the columns belong to the reported frequencies, in the reported order
            lam_rep = np.sign(f) * (f / factor) ** 2
            ok = bool(np.abs(lam - lam_rep).max() <= 1e-8 * max(1.0, float(np.abs(lam_rep).max())))
        lab["eigvecs"] = wrap("V(D%d)" % i) if ok else ("D%d" % i if k == "D" else "other")
    dm = res.get("dynamical_matrices")
    if dm is None:
        lab["dm"] = "none"
    else:
        k = classify_matrix(np.asarray(dm[i]), refq)
        lab["dm"] = {"D": "D%d" % i, "V": "V(D%d)" % i}.get(k, "other")
    gv = res.get("group_velocities")
    if gv is None:
        lab["gv"] = "none"
    else:
        lab["gv"] = wrap("G%d" % i) if _close(np.asarray(gv[i]), take(refq["g"]), scale=max(1.0, float(np.abs(refq["g"]).max()))) else "other"
    return "freqs=%s eigvecs=%s dm=%s gv=%s" % (lab["freqs"], lab["eigvecs"], lab["dm"], lab["gv"])


def yaml_numbers(text, key):
    return [m for m in re.findall(r"%s:\s*(-?\d+\.\d+)" % key, text)]


# --------------------------------------------------------------------------
# band paths with several segments, NAC on
# --------------------------------------------------------------------------

def multi_segment_paths():
    X, Y, Z, A, G = [0.5, 0, 0], [0, 0.5, 0], [0, 0, 0.5], [0.5, 0, 0.5], [0, 0, 0]

    def seg(a, b, n=3):
        a, b = np.array(a, dtype=float), np.array(b, dtype=float)
        return [list(a + (b - a) * t / (n - 1)) for t in range(n)]

    return [seg(X, G), seg(G, Z), seg(Z, A), seg([0.25, 0.25, 0], [0.25, 0.5, 0.25]),
            seg([0, -0.25, 0], [0, 0.25, 0]), seg(G, [0.5, 0.5, 0]), seg([0.5, 0.5, 0], G), seg(G, Y)]


def build_nac_phonon(name, smat, method):
    import phonopy

    cell, cen = gen.make_cell(name)
    ph = phonopy.Phonopy(cell, supercell_matrix=np.diag(smat), primitive_matrix="auto" if cen != "P" else "P", log_level=0)
    ph.force_constants = gen.pair_fc(ph.supercell, 1.45 * nn_distance(ph.primitive))
    nums = ph.primitive.numbers
    zmin = min(nums)
    z = np.array([np.diag([1.9, 1.9, 2.6]) * (1.0 if n_ == zmin else -1.0) for n_ in nums])
    # neutrality for unequal species counts (e.g. rutile TiO2)
    npos, nneg = sum(1 for n_ in nums if n_ == zmin), sum(1 for n_ in nums if n_ != zmin)
    if nneg and npos:
        for i, n_ in enumerate(nums):
            if n_ != zmin:
                z[i] *= float(npos) / nneg
    ph.nac_params = {"born": z, "dielectric": np.diag([3.1, 3.1, 4.4]), "factor": 14.4, "method": method}
    return ph


def multi_segment_band(run, rng, thorough, lines, expect):
    cells_aniso = ["wurtzite"] + (["rutile"] if thorough else [])
    cells_cubic = ["nacl_prim", "zincblende_prim", "cscl"]
    todo = [(rng.choice(cells_aniso), rng.choice(["wang", "gonze"]))]
    todo.append((rng.choice(cells_cubic), "gonze" if todo[0][1] == "wang" else "wang"))
    if thorough:
        todo += [(c_, m_) for c_ in cells_aniso + cells_cubic for m_ in ("wang", "gonze")]
    paths = multi_segment_paths()
    for name, method in todo:
        for build in ("omp", "ser"):
            switch_build(build)
            ph = build_nac_phonon(name, [2, 1, 1], method)
            dmo = ph.dynamical_matrix
            rec = np.linalg.inv(ph.primitive.cell)
            fac = ph.unit_conversion_factor
            through, dirs = [], []
            for pth in paths:
                p0, p1 = np.array(pth[0]), np.array(pth[-1])
                through.append(bool(np.linalg.norm(np.cross(rec @ p0, rec @ p1)) < 1e-5))
                dirs.append(p0 - p1)
            req = "banddirs %d %s" % (len(paths), " ".join("%d %d" % (int(t), len(p_)) for t, p_ in zip(through, paths)))
            info0 = dict(cell=name, smat=[2, 1, 1], nac=method, build=build, paths=paths)
            results = {}
            for e, c in ((True, False), (True, True), (False, False)):
                ph.run_band_structure(paths, with_eigenvectors=e, is_band_connection=c)
                d_ = ph.get_band_structure_dict()
                results[(e, c)] = (d_["frequencies"], d_["eigenvectors"])
            lines.append(req)
            expect.append(("banddirs", (results, dirs, dmo, ph, fac), info0))
            run.count("multi-segment band (NAC %s, %s, %s)" % (method, name, build))
            # ---- the property on the real code: every band point equals run_qpoints at that q with the segment's direction
            for (e, c), (freqs, evs) in results.items():
                for k, pth in enumerate(paths):
                    own = dirs[k] if through[k] else None
                    for j, qpt in enumerate(pth):
                        ph.run_qpoints([qpt], with_eigenvectors=True, with_dynamical_matrices=True, nac_q_direction=own)
                        dq = ph.get_qpoints_dict()
                        lam_ref = np.sort(_lam(dq["frequencies"][0], fac))
                        lam_b = _lam(freqs[k][j], fac)
                        info = dict(info0, segment=k, point=j, q=qpt, q_direction=None if own is None else own.tolist(),
                                    with_eigenvectors=e, is_band_connection=c)
                        run.case((name, method, build, "multiseg", e, c, k, j), nontrivial=bool(np.abs(np.array(qpt)).max() < 1e-9 and through[k]))
                        run.count("band point vs run_qpoints", section="oracle")
                        bad = not _close(np.sort(lam_b), lam_ref)
                        what = "frequencies"
                        if not bad and evs is not None:
                            D = np.asarray(dq["dynamical_matrices"][0])
                            M = np.asarray(evs[k][j])
                            resid = np.abs(D @ M - M * lam_b[None, :]).max()
                            if resid > 1e-7 * max(1.0, float(np.abs(D).max())):
                                bad, what = True, "eigenvectors (residual %.3g against the dynamical matrix of run_qpoints)" % resid
                        if bad:
                            run.violation("BandStructure._solve_dm_on_path", "band-point-differs-from-run_qpoints",
                                          "%s of a band-path point differ from run_qpoints at the same q with the segment's own q-direction" % what, info)
    switch_build("omp")


def check_banddirs(run, ans, payload, info):
    """model says which direction every point of every segment is solved with; the implementation must equal the
    NAC dynamical-matrix object run directly with that direction"""
    results, dirs, dmo, ph, fac = payload
    labels = [seg.split() for seg in ans.split(" ; ")]
    paths = info["paths"]
    if len(labels) != len(paths) or any(len(a) != len(b) for a, b in zip(labels, paths)):
        run.broke("correspondence", "banddirs answer has the wrong shape", dict(answer=ans[:200]))
        return
    for k, pth in enumerate(paths):
        for j, qpt in enumerate(pth):
            lab = labels[k][j]
            d = None if lab == "none" else dirs[int(lab[1:])]
            dmo.run(np.array(qpt), q_direction=d)
            D = np.array(dmo.dynamical_matrix)
            lam_ref = np.linalg.eigvalsh(D)
            for (e, c), (freqs, evs) in results.items():
                lam_b = _lam(freqs[k][j], fac)
                ok = _close(np.sort(lam_b), lam_ref)
                if ok and evs is not None:
                    M = np.asarray(evs[k][j])
                    ok = np.abs(D @ M - M * lam_b[None, :]).max() <= 1e-7 * max(1.0, float(np.abs(D).max()))
                run.count("band-direction rows", section="correspondence")
                if not ok:
                    run.broke("correspondence", "band path segment %d point %d: implementation is not the solution for the direction the model says (%s)" % (k, j, lab),
                              dict(cell=info["cell"], nac=info["nac"], build=info["build"], q=qpt, with_eigenvectors=e, is_band_connection=c))


# --------------------------------------------------------------------------
# mesh eigenvectors at the *reported* q-points (q-points relocated into the first BZ can leave [-0.5, 0.5])
# --------------------------------------------------------------------------

def mesh_reported_q(run, rng, thorough):
    import phonopy

    todo = [("nacl_prim", [4, 4, 4], False), (rng.choice(["nacl_prim", "zincblende_prim"]), rng.choice([[5, 5, 5], [6, 6, 6], [4, 4, 4]]), False),
            (rng.choice(["hcp", "wurtzite"]), rng.choice([[3, 3, 2], [4, 4, 2], [5, 5, 3]]), rng.random() < 0.5)]
    if thorough:
        todo += [("zincblende_prim", [8, 8, 8], False), ("nacl_prim", [6, 6, 6], False), ("nacl_prim", [5, 5, 5], True), ("wurtzite", [6, 6, 3], False), ("rhombo", [4, 4, 4], False)]
    n_out = 0
    for name, mesh, gc in todo:
        for build in ("omp", "ser"):
            switch_build(build)
            cell, cen = gen.make_cell(name)
            ph = phonopy.Phonopy(cell, supercell_matrix=np.diag([2, 2, 2] if len(cell) <= 2 else [2, 1, 1]), primitive_matrix="P", log_level=0)
            ph.force_constants = gen.pair_fc(ph.supercell, 1.45 * nn_distance(ph.primitive))
            fac = ph.unit_conversion_factor
            info0 = dict(cell=name, mesh=mesh, is_gamma_center=gc, build=build, nac=None)
            ph.run_mesh(mesh, with_eigenvectors=True, is_gamma_center=gc, with_group_velocities=True)
            md = ph.get_mesh_dict()
            qs = np.array(md["qpoints"])
            stored = (np.array(md["frequencies"]), np.array(md["eigenvectors"]))
            mesh_gv = np.array(md["group_velocities"])
            ph.init_mesh(mesh, with_eigenvectors=True, is_gamma_center=gc, use_iter_mesh=True)
            itf, itv = [], []
            for f_, v_ in ph.mesh:
                itf.append(np.array(f_))
                itv.append(np.array(v_))
            q_it = np.array(ph.mesh.qpoints)
            if q_it.shape != qs.shape or not np.allclose(q_it, qs):
                run.violation("Phonopy.init_mesh", "itermesh-different-grid", "stored and iterated meshes report different q-points", info0)
                continue
            sel = list(range(len(qs)))
            far = [i for i in sel if np.abs(qs[i]).max() > 0.5 + 1e-9]
            if len(sel) > 40:
                sel = sorted(set(far[:30] + [int(x) for x in np.linspace(0, len(qs) - 1, 10)]))
            ph.run_qpoints(qs[sel], with_eigenvectors=True, with_dynamical_matrices=True, with_group_velocities=True)
            dq = ph.get_qpoints_dict()
            for n_, i in enumerate(sel):
                gq = np.asarray(dq["group_velocities"][n_])
                run.count("mesh group velocities vs run_qpoints", section="oracle")
                if not _close(mesh_gv[i], gq, scale=max(1.0, float(np.abs(gq).max()))):
                    run.violation("Mesh._set_group_velocities", "gv-differ-across-paths", "group velocities of a mesh q-point differ from run_qpoints at the same q by %.3g" % np.abs(mesh_gv[i] - gq).max(),
                                  dict(info0, q=qs[i].tolist()))
                D = np.asarray(dq["dynamical_matrices"][n_])
                Dd = np.array(ph.get_dynamical_matrix_at_q(qs[i]))
                scale = max(1.0, float(np.abs(D).max()))
                outside = bool(np.abs(qs[i]).max() > 0.5 + 1e-9)
                n_out += outside
                run.case((name, mesh, gc, build, "mesh-reported-q", i), nontrivial=outside)
                run.count("mesh eigenvector residual at reported q (|q_i| > 0.5: %s)" % outside, section="oracle")
                if np.abs(D - Dd).max() > TOL * scale:
                    run.violation("Phonopy.run_qpoints", "dm-differs-from-dynamical-matrix-object", "run_qpoints and the DynamicalMatrix object disagree at the same q", dict(info0, q=qs[i].tolist()))
                for path, (fr, ev) in (("mesh", (stored[0][i], stored[1][i])), ("itermesh", (itf[i], itv[i]))):
                    lam = _lam(fr, fac)
                    resid = float(np.abs(D @ ev - ev * lam[None, :]).max())
                    lam_q = _lam(dq["frequencies"][n_], fac)
                    if resid > 1e-7 * scale or not _close(np.sort(lam), np.sort(lam_q)):
                        run.violation("Mesh._set_phonon" if path == "mesh" else "IterMesh.__next__", "eigvecs-not-at-reported-q",
                                      "eigenvectors returned for a mesh q-point do not diagonalise the dynamical matrix at the reported q (residual %.3g); they belong to another q" % resid,
                                      dict(info0, path=path, q=qs[i].tolist(), outside_half=outside))
    run.cov["oracle"]["mesh q-points compared with |q_i| > 0.5"] = int(n_out)
    if n_out == 0:
        run.broke("harness", "no mesh q-point outside [-0.5, 0.5] was generated (the mesh-at-reported-q oracle would be vacuous)")
    switch_build("omp")


# --------------------------------------------------------------------------
# Gamma with NAC (which approach direction each path uses), group-velocity perturbation, writers' field lists
# --------------------------------------------------------------------------

def gamma_and_writers(run, rng, thorough, lines, expect):
    import h5py

    G = np.zeros(3)
    for method in (["wang", "gonze"] if thorough else [rng.choice(["wang", "gonze"])]):
        for build in ("omp", "ser"):
            switch_build(build)
            ph = build_nac_phonon("wurtzite", [2, 1, 1], method)
            dmo = ph.dynamical_matrix
            fac = ph.unit_conversion_factor
            user = np.array([0.0, 0.0, 1.0])
            seg = [[0.5, 0, 0], [0.25, 0, 0], [0, 0, 0]]
            segdir = np.array(seg[0]) - np.array(seg[-1])
            cand = {}
            for lab, d in (("none", None), ("user", user), ("segment", segdir)):
                dmo.run(G, q_direction=d)
                cand[lab] = np.linalg.eigvalsh(np.array(dmo.dynamical_matrix))
            distinct = not _close(cand["none"], cand["user"]) and not _close(cand["user"], cand["segment"]) and not _close(cand["none"], cand["segment"])
            # a group-velocity calculator built through the public class (no private attribute of Phonopy is needed);
            # it must reproduce Phonopy.get_group_velocity_at_q, otherwise the refinement is skipped and counted
            from phonopy.phonon.group_velocity import GroupVelocity
            hs = np.array([0.0, 0.0, 0.25])   # on the hexagonal axis: degenerate bands, site-symmetry average matters
            gcand = None
            try:
                gvo = GroupVelocity(dmo, symmetry=ph.primitive_symmetry, frequency_factor_to_THz=fac)
                gcand = {}
                for lab, d in (("none", None), ("user", user)):
                    gvo.run([G, hs], perturbation=d)
                    gcand[lab] = np.array(gvo.group_velocities)
                pub = np.array([ph.get_group_velocity_at_q(G), ph.get_group_velocity_at_q(hs)])
                if not _close(gcand["none"], pub, scale=max(1.0, float(np.abs(pub).max()))):
                    gcand = None
            except Exception:
                gcand = None
            if gcand is None:
                run.count("intermediate hook unavailable: public GroupVelocity object equivalent to Phonopy's", section="correspondence")
            info0 = dict(cell="wurtzite", nac=method, build=build)
            obs = []
            for u in (False, True):
                ph.run_qpoints([G, hs], with_group_velocities=True, nac_q_direction=user if u else None)
                dq = ph.get_qpoints_dict()
                obs.append(("qpoints", u, False, _lam(dq["frequencies"][0], fac), np.array(dq["group_velocities"]) if gcand is not None else None))
                dmo.run(G, q_direction=user if u else None)
                obs.append(("direct", u, False, np.linalg.eigvalsh(np.array(dmo.dynamical_matrix)), None))
            ph.run_band_structure([seg], with_group_velocities=True)
            db = ph.get_band_structure_dict()
            g_none_G = np.array(ph.get_group_velocity_at_q(G))
            obs.append(("band", False, True, _lam(db["frequencies"][0][-1], fac), ("G-only", np.array(db["group_velocities"][0][-1]), g_none_G)))
            ph.run_mesh([3, 3, 3], is_gamma_center=True, with_group_velocities=True)
            md = ph.get_mesh_dict()
            ig = int(np.argmin(np.abs(md["qpoints"]).sum(axis=1)))
            obs.append(("mesh", False, False, _lam(md["frequencies"][ig], fac), ("G-only", np.array(md["group_velocities"][ig]), g_none_G)))
            ph.init_mesh([3, 3, 3], is_gamma_center=True, use_iter_mesh=True, with_eigenvectors=True)
            itf = [np.array(f_) for f_, _ in ph.mesh]
            obs.append(("itermesh", False, False, _lam(itf[ig], fac), None))
            for path, u, sg, lam, gv in obs:
                lines.append("gammadir %s %d %d" % (path, int(u), int(sg)))
                expect.append(("gammadir", (lam, gv, cand, gcand, distinct), dict(info0, path=path, user_direction_given=u, segment_through_gamma=sg)))
                run.case(("gammadir", method, build, path, u, sg), nontrivial=distinct)
    # ---- writers: which optional fields the files contain, for every option set
    switch_build("omp")
    import phonopy
    cell, _ = gen.make_cell("cscl")
    ph = phonopy.Phonopy(cell, supercell_matrix=np.diag([2, 1, 1]), primitive_matrix="P", log_level=0)
    ph.force_constants = gen.pair_fc(ph.supercell, 1.45 * nn_distance(ph.primitive))
    qs = [[0.1, 0.2, 0.3]]
    pth = [[[0.1, 0, 0], [0.3, 0.1, 0]]]
    keys = ["frequency", "eigenvector", "group_velocity", "dynamical_matrix"]

    def fields_of(yaml_file, h5_file):
        txt = open(yaml_file).read()
        fy = [k for k in keys if re.search(r"^\s*%s:" % k, txt, re.M)]
        with h5py.File(h5_file, "r") as h:
            fh = [k for k in keys if k in h]
        return fy, fh

    with tempfile.TemporaryDirectory() as td:
        cwd = os.getcwd()
        os.chdir(td)
        try:
            for e, g, d, c in itertools.product([False, True], repeat=4):
                ph.run_qpoints(qs, with_eigenvectors=e, with_group_velocities=g, with_dynamical_matrices=d)
                ph.write_yaml_qpoints_phonon()
                ph.write_hdf5_qpoints_phonon()
                fy, fh = fields_of("qpoints.yaml", "qpoints.hdf5")
                ph.run_mesh([2, 2, 2], with_eigenvectors=e, with_group_velocities=g)
                ph.write_yaml_mesh()
                ph.write_hdf5_mesh()
                my, mh = fields_of("mesh.yaml", "mesh.hdf5")
                ph.run_band_structure(pth, with_eigenvectors=e, with_group_velocities=g, is_band_connection=c)
                ph.write_yaml_band_structure()
                ph.write_hdf5_band_structure()
                by, bh = fields_of("band.yaml", "band.hdf5")
                for w, got in (("qpoints_yaml", fy), ("qpoints_hdf5", fh), ("mesh_yaml", my), ("mesh_hdf5", mh), ("band_yaml", by), ("band_hdf5", bh)):
                    lines.append("written %s %d %d %d %d" % (w, int(e), int(g), int(d), int(c)))
                    expect.append(("written", " ".join(got), dict(writer=w, with_eigenvectors=e, with_group_velocities=g, with_dynamical_matrices=d, is_band_connection=c)))
                    run.case(("written", w, e, g, d, c), nontrivial=(e + g + d + c) >= 1)
                    # the property: the file has a field iff it was requested (band: eigenvectors also with band connection)
                    want = ["frequency"] + (["eigenvector"] if (e or (c and w.startswith("band"))) else []) + (["group_velocity"] if g else []) + (["dynamical_matrix"] if (d and w.startswith("qpoints")) else [])
                    if got != want:
                        run.violation("write_%s" % w, "written-fields", "file contains fields %s, requested %s" % (got, want), dict(writer=w, e=e, g=g, d=d, c=c))
        finally:
            os.chdir(cwd)


def check_gammadir(run, ans, payload, info):
    lam, gv, cand, gcand, distinct = payload
    m = re.match(r"freq=(\w+) gv=(\w+) sym=(\w+) offers_gv=(\w+)$", ans)
    if not m:
        run.broke("correspondence", "gammadir: unexpected model answer %s" % ans, info)
        return
    run.count("gamma-direction rows", section="correspondence")
    if not _close(np.sort(lam), cand[m.group(1)]):
        which = [k for k, v in cand.items() if _close(np.sort(lam), v)]
        run.broke("correspondence", "frequencies at Gamma: model says direction `%s`, implementation matches %s" % (m.group(1), which or "none of the candidates"), info)
    if gv is not None:
        if isinstance(gv, tuple):
            _, got, ref_ = gv
            ok = _close(got, ref_, scale=max(1.0, float(np.abs(ref_).max())))
        else:
            ref_ = gcand[m.group(2)]
            ok = _close(gv, ref_, scale=max(1.0, float(np.abs(ref_).max())))
        if not ok:
            run.broke("correspondence", "group velocities: model says perturbation `%s`, implementation differs from GroupVelocity.run with that perturbation" % m.group(2), info)


# --------------------------------------------------------------------------
# call sequences on one Phonopy instance vs a fresh instance per call (cached GroupVelocity / DynamicalMatrix state)
# --------------------------------------------------------------------------

_SEQ_CELLS = {
    # name -> (prototype, atom count limit irrelevant, supercell, zone-boundary / degenerate q-points in primitive coordinates)
    "diamond": ("diamond", [1, 1, 1], [[0, 0.5, 0.5], [0.25, 0.5, 0.75], [0.5, 0.5, 0.5]]),
    "zincblende": ("zincblende_prim", [2, 2, 2], [[0, 0.5, 0.5], [0.25, 0.5, 0.75], [0.5, 0.5, 0.5]]),
    "hcp": ("hcp", [2, 2, 1], [[0, 0, 0.5], [1.0 / 3, 1.0 / 3, 0.5], [0.5, 0, 0.5]]),
    "nacl": ("nacl_prim", [2, 2, 2], [[0, 0.5, 0.5], [0.25, 0.5, 0.75], [0.5, 0.5, 0.5]]),
}
_FC_CACHE = {}


def _seq_phonon(key):
    import phonopy

    proto, smat, _ = _SEQ_CELLS[key]
    cell, cen = gen.make_cell(proto)
    ph = phonopy.Phonopy(cell, supercell_matrix=np.diag(smat), primitive_matrix="auto" if cen != "P" else "P", log_level=0)
    if key not in _FC_CACHE:
        _FC_CACHE[key] = gen.pair_fc(ph.supercell, 1.45 * nn_distance(ph.primitive))
    ph.force_constants = _FC_CACHE[key].copy()
    if key == "nacl":
        z = np.array([np.eye(3) * 1.1, -np.eye(3) * 1.1])
        ph.nac_params = {"born": z, "dielectric": np.eye(3) * 2.4, "factor": 14.4, "method": "wang"}
    return ph


def _seq_call(ph, spec, qpts):
    kind, e, g, d = spec
    if kind == "qpoints":
        ph.run_qpoints(qpts, with_eigenvectors=e, with_group_velocities=g, nac_q_direction=d)
        r = ph.get_qpoints_dict()
        return dict(f=np.array(r["frequencies"]), gv=None if r["group_velocities"] is None else np.array(r["group_velocities"]),
                    ev=None if r["eigenvectors"] is None else np.array(r["eigenvectors"]))
    if kind == "band":
        ph.run_band_structure([qpts], with_eigenvectors=e, with_group_velocities=g)
        r = ph.get_band_structure_dict()
        return dict(f=np.array(r["frequencies"][0]), gv=None if r["group_velocities"] is None else np.array(r["group_velocities"][0]),
                    ev=None if r["eigenvectors"] is None else np.array(r["eigenvectors"][0]))
    ph.run_mesh([4, 4, 4], is_gamma_center=True, with_eigenvectors=e, with_group_velocities=g)
    r = ph.get_mesh_dict()
    return dict(f=np.array(r["frequencies"]), gv=None if r["group_velocities"] is None else np.array(r["group_velocities"]),
                ev=None if r["eigenvectors"] is None else np.array(r["eigenvectors"]))


def call_sequences(run, rng, thorough, lines, expect):
    U_ = [1, 0, 0]
    fixed = [
        [("qpoints", False, True, U_), ("qpoints", False, True, None), ("band", False, True, None), ("mesh", False, True, None)],      # (a)
        [("band", False, True, None), ("mesh", True, True, None), ("qpoints", False, True, None)],                                        # (b)
        [("qpoints", True, True, U_), ("mesh", False, False, None), ("qpoints", True, False, None), ("mesh", False, True, None)],          # (c)
    ]
    kinds = ["qpoints", "band", "mesh"]
    keys = ["diamond", rng.choice(["zincblende", "hcp", "nacl"])] + (["zincblende", "hcp", "nacl"] if thorough else [])
    for key in keys:
        qpts = np.array(_SEQ_CELLS[key][2], dtype="double")
        seqs = list(fixed)
        for _ in range(6 if thorough else 2):
            seqs.append([(rng.choice(kinds), rng.random() < 0.5, rng.random() < 0.8, rng.choice([None, None, U_, [0, 1, 1]])) for _ in range(rng.randint(3, 5))])
        fresh = {}
        for seq in seqs:
            seq = [(k, e, g, d if k == "qpoints" else None) for k, e, g, d in seq]
            ph = _seq_phonon(key)
            lines.append("gvseq %d %s" % (len(seq), " ".join("1" if (d is not None and g) else "0" for k, e, g, d in seq)))
            expect.append(("gvseq", " ".join("user" if (d is not None and g) else "none" for k, e, g, d in seq), dict(crystal=key, sequence=seq)))
            for n_, spec in enumerate(seq):
                got = _seq_call(ph, spec, qpts)
                fk = repr(spec)
                if fk not in fresh:
                    fresh[fk] = _seq_call(_seq_phonon(key), spec, qpts)
                ref = fresh[fk]
                run.count("call-sequence steps vs fresh object", section="oracle")
                run.case(("callseq", key, repr(seq[:n_ + 1])), nontrivial=n_ > 0)
                info = dict(crystal=key, supercell=_SEQ_CELLS[key][1], qpoints=qpts.tolist(), sequence=[list(x) for x in seq[:n_ + 1]], step=n_)
                bad = None
                if not _close(got["f"], ref["f"]):
                    bad = "frequencies"
                elif (got["gv"] is None) != (ref["gv"] is None) or (got["gv"] is not None and not _close(got["gv"], ref["gv"], scale=max(1.0, float(np.abs(ref["gv"]).max())))):
                    bad = "group velocities (max difference %.3g)" % (float(np.abs(got["gv"] - ref["gv"]).max()) if got["gv"] is not None and ref["gv"] is not None else float("nan"))
                elif (got["ev"] is None) != (ref["ev"] is None) or (got["ev"] is not None and not _close(got["ev"], ref["ev"])):
                    bad = "eigenvectors"
                if bad:
                    run.violation("Phonopy.run_%s" % ("band_structure" if spec[0] == "band" else spec[0]), "depends-on-call-history",
                                  "%s of this call differ from the same call on a fresh Phonopy object: state left by an earlier call on the same instance leaks" % bad, info)


def batched_vs_single(run, rng, thorough):
    """run_qpoints over a batch of q-points (one kernel call, q-points distributed over OpenMP threads) against the
    NAC dynamical-matrix object asked for one q at a time; Gonze-Lee and Wang, 8 threads, repeated."""
    from .c13_util import set_threads

    switch_build("omp")
    for method in ("gonze", "wang"):
        ph = build_nac_phonon(rng.choice(["wurtzite", "nacl_prim", "zincblende_prim"]), [2, 1, 1], method)
        qs = np.array([[rng.randint(-8, 8) / 16.0 for _ in range(3)] for _ in range(96 if thorough else 64)] + [[0, 0, 0]])
        first = None
        for rep in range(10 if thorough else 6):
            set_threads(16 if rep % 2 == 0 else 8)
            ph.run_qpoints(qs, with_dynamical_matrices=True)
            dms = np.array(ph.get_qpoints_dict()["dynamical_matrices"])
            if first is None:
                first = dms
            elif not np.array_equal(first, dms):
                run.violation("Phonopy.run_qpoints", "batch-not-reproducible", "the same batched run_qpoints call gives different dynamical matrices on repetition (8/16 OpenMP threads, NAC %s)" % method,
                              dict(nac=method, qpoints=qs.tolist(), max_diff=float(np.abs(first - dms).max())))
        set_threads(1)
        for i, q in enumerate(qs):
            D = np.array(ph.get_dynamical_matrix_at_q(q))
            run.count("batched vs single q (NAC %s)" % method, section="oracle")
            run.case(("batch", method, q.tobytes()), nontrivial=True)
            if not _close(first[i], D):
                run.violation("Phonopy.run_qpoints", "batch-differs-from-single-q",
                              "dynamical matrix %d of a batched run_qpoints call (8 OpenMP threads, NAC %s) differs from the dynamical-matrix object at the same q by %.3g" % (i, method, np.abs(first[i] - D).max()),
                              dict(nac=method, qpoints=qs.tolist(), index=i))
                break
        set_threads(4)


# --------------------------------------------------------------------------
# description invariance: the same crystal with relabelled (left-handed / sheared) lattice vectors
# --------------------------------------------------------------------------

def relabel_stream(run, rng, thorough):
    import phonopy

    Ms = ["swap12", "negate3", "invert", "shear", "cyclic"]
    todo = [(rng.choice(["cscl", "nacl_prim", "zincblende_prim", "hcp", "wurtzite", "triclinic", "mono_P"]), rng.choice(Ms[:3]), rng.choice([None, "wang", "gonze"])),
            (rng.choice(["wurtzite", "nacl_prim", "zincblende_prim"]), rng.choice(Ms), rng.choice(["wang", "gonze"]))]
    if thorough:
        todo += [(rng.choice(["cscl", "hcp", "triclinic", "mono_P", "rhombo"]), rng.choice(Ms), rng.choice([None, "wang", "gonze"])) for _ in range(4)]
    n_lh = 0
    for name, mname, nac in todo:
        M = np.array(gen.UNIMODULAR[mname])
        cell0, _ = gen.make_cell(name)
        cell1, qmap, smap = gen.relabelled_cell(cell0, M)
        # a supercell that keeps the point group of the crystal (the site-symmetry average of group velocities and the
        # irreducible-mesh reduction assume that the force constants have it); low-symmetry cells: any
        sm0 = np.diag({"hcp": [2, 2, 1], "wurtzite": [2, 2, 1]}.get(name, [2, 2, 2] if name in ("cscl", "nacl_prim", "zincblende_prim", "rhombo") else rng.choice([[2, 1, 1], [1, 2, 1], [1, 1, 2]])))
        phs = []
        for cell, sm in ((cell0, sm0), (cell1, smap(sm0))):
            ph = phonopy.Phonopy(cell, supercell_matrix=sm, primitive_matrix="P", log_level=0)
            ph.force_constants = gen.pair_fc(ph.supercell, 1.45 * nn_distance(ph.primitive))
            if nac:
                nums = ph.primitive.numbers
                zmin = min(nums)
                npos_, nneg_ = sum(1 for n_ in nums if n_ == zmin), sum(1 for n_ in nums if n_ != zmin)
                z = np.array([np.diag([1.9, 1.9, 2.6]) * (1.0 if n_ == zmin else -float(npos_) / max(nneg_, 1)) for n_ in nums])
                ph.nac_params = {"born": z, "dielectric": np.diag([3.1, 3.1, 4.4]), "factor": 14.4, "method": nac}
            phs.append(ph)
        ph0, ph1 = phs
        lh = float(ph1.primitive.volume) < 0
        n_lh += lh
        fac = ph1.unit_conversion_factor
        info0 = dict(cell=name, relabelling=mname, M=M.tolist(), det=int(round(np.linalg.det(M))), left_handed=bool(lh), supercell_original=sm0.tolist(), nac=nac)
        run.count("relabelled description %s (volume %s 0)" % (mname, "<" if lh else ">"))
        qs0 = np.array([[rng.randint(1, 7) / 16.0 * rng.choice([-1, 1]) for _ in range(3)] for _ in range(3)])
        qs1 = np.array([qmap(q) for q in qs0])
        d0 = np.array(qs0[0])       # an approach direction for Gamma
        for build in ("omp", "ser"):
            switch_build(build)
            info = dict(info0, build=build)
            # ---- (A) the access-path oracle ON the relabelled description
            ref1 = Reference(ph1)
            ph1.run_qpoints(qs1, with_eigenvectors=True, with_group_velocities=True, with_dynamical_matrices=True)
            rq = dict(ph1.get_qpoints_dict())
            path1 = [list(qs1[0] + (qs1[1] - qs1[0]) * t / 3.0) for t in range(4)]
            ph1.run_band_structure([path1], with_eigenvectors=True, with_group_velocities=True)
            rb_ = ph1.get_band_structure_dict()
            rb = dict(frequencies=rb_["frequencies"][0], eigenvectors=rb_["eigenvectors"][0], group_velocities=rb_["group_velocities"][0])
            ph1.run_mesh([3, 3, 3], is_gamma_center=True, with_eigenvectors=True, with_group_velocities=True)
            rm = dict(ph1.get_mesh_dict())
            ph1.init_mesh([3, 3, 3], is_gamma_center=True, with_eigenvectors=True, use_iter_mesh=True)
            it = [(np.array(f_), np.array(v_)) for f_, v_ in ph1.mesh]
            ri = dict(frequencies=[x[0] for x in it], eigenvectors=[x[1] for x in it])
            for pname, res, qpts in (("qpoints", rq, qs1), ("band", rb, np.array(path1)), ("mesh", rm, np.array(rm["qpoints"])), ("itermesh", ri, np.array(rm["qpoints"]))):
                for i in range(min(len(qpts), 4)):
                    lab = label_row(pname, res, i, ref1.at(qpts[i]), None, fac)
                    run.count("relabelled access-path rows", section="oracle")
                    run.case(("relabel-path", name, mname, nac, build, pname, i), nontrivial=bool(lh))
                    if "other" in lab or "dm=V" in lab:
                        run.violation("Phonopy.%s" % pname, "paths-differ-on-relabelled-cell",
                                      "on a %s description of the crystal the %s path disagrees with the dynamical-matrix object (%s)" % ("left-handed" if lh else "relabelled", pname, lab),
                                      dict(info, path=pname, q=np.array(qpts[i]).tolist()))
            # ---- (B) the same physical quantities in both descriptions
            ph0.run_qpoints(qs0, with_group_velocities=True, with_dynamical_matrices=True)
            r0 = ph0.get_qpoints_dict()
            for i in range(len(qs0)):
                run.count("spectrum at qmap(q) comparisons", section="oracle")
                if not _close(_lam(rq["frequencies"][i], fac), _lam(r0["frequencies"][i], fac)):
                    run.violation("Phonopy.run_qpoints", "spectrum-depends-on-description",
                                  "frequencies at qmap(q) of the %s description differ from the original description (max %.3g THz)" % ("left-handed" if lh else "relabelled", float(np.abs(np.array(rq["frequencies"][i]) - np.array(r0["frequencies"][i])).max())),
                                  dict(info, q=qs0[i].tolist(), q_relabelled=qs1[i].tolist()))
                elif not _close(np.asarray(rq["dynamical_matrices"][i]), np.asarray(r0["dynamical_matrices"][i])):
                    run.violation("Phonopy.run_qpoints", "dynmat-depends-on-description", "Cartesian dynamical matrix at qmap(q) differs between the two descriptions", dict(info, q=qs0[i].tolist()))
                elif not _close(np.asarray(rq["group_velocities"][i]), np.asarray(r0["group_velocities"][i]), scale=max(1.0, float(np.abs(r0["group_velocities"][i]).max()))):
                    f_ = np.sort(np.asarray(r0["frequencies"][i]))
                    if np.diff(f_).min() > 1e-4:      # Cartesian group velocities are unique only for non-degenerate bands
                        run.violation("Phonopy.run_qpoints", "gv-depends-on-description", "Cartesian group velocities at qmap(q) differ between the two descriptions", dict(info, q=qs0[i].tolist()))
            # Gamma with an approach direction (same Cartesian direction in both descriptions)
            if nac:
                ph0.run_qpoints([[0, 0, 0]], nac_q_direction=d0)
                ph1.run_qpoints([[0, 0, 0]], nac_q_direction=qmap(d0))
                a_, b_ = ph0.get_qpoints_dict()["frequencies"][0], ph1.get_qpoints_dict()["frequencies"][0]
                run.count("Gamma with direction across descriptions", section="oracle")
                if not _close(_lam(b_, fac), _lam(a_, fac)):
                    run.violation("Phonopy.run_qpoints", "spectrum-depends-on-description", "LO-TO split frequencies at Gamma (same Cartesian approach direction) differ between the descriptions by %.3g THz" % float(np.abs(np.array(a_) - np.array(b_)).max()),
                                  dict(info, q=[0, 0, 0], direction=d0.tolist()))
            # Gamma-centred odd mesh: weights sum and mesh average of the eigenvalues
            # (full grids: the pair-potential force constants of an anisotropic supercell need not have the point-group
            # symmetry of the primitive cell that the irreducible-mesh reduction assumes)
            ph0.run_mesh([3, 3, 3], is_gamma_center=True, is_mesh_symmetry=False)
            m0 = ph0.get_mesh_dict()
            ph1.run_mesh([3, 3, 3], is_gamma_center=True, is_mesh_symmetry=False)
            m1 = ph1.get_mesh_dict()
            w0, w1 = np.array(m0["weights"], dtype=float), np.array(m1["weights"], dtype=float)
            avg0 = (w0[:, None] * _lam(m0["frequencies"], fac)).sum() / w0.sum()
            avg1 = (w1[:, None] * _lam(m1["frequencies"], fac)).sum() / w1.sum()
            run.count("mesh averages across descriptions", section="oracle")
            if w0.sum() != w1.sum() or abs(avg0 - avg1) > 1e-9 * max(1.0, abs(avg0)):
                run.violation("Phonopy.run_mesh", "mesh-average-depends-on-description", "weights sum / mesh average of the eigenvalues on a Gamma-centred 3x3x3 mesh differ between the descriptions (%r vs %r)" % (avg0, avg1), info)
    run.cov["oracle"]["relabelled cases with negative volume"] = int(n_lh)
    if n_lh == 0:
        run.broke("harness", "no left-handed description was generated")
    switch_build("omp")


# --------------------------------------------------------------------------
# error-path states: after a rejected assignment every access route must agree (all raise, or all the same phonons)
# --------------------------------------------------------------------------

def error_path_states(run, rng, thorough):
    import phonopy

    q = np.array([0.1, 0.2, 0.3])
    path = [[[0.1, 0, 0], [0.2, 0.1, 0]]]

    def routes(ph):
        out = {}
        for name, fn in (
            ("run_qpoints", lambda: (ph.run_qpoints([q]), ph.get_qpoints_dict()["frequencies"][0])[1]),
            ("run_band_structure", lambda: (ph.run_band_structure([[list(q), list(q + 0.05)]]), ph.get_band_structure_dict()["frequencies"][0][0])[1]),
            ("run_mesh+qpoint", lambda: (ph.run_mesh([1, 1, 1], shift=None, is_gamma_center=True), ph.get_frequencies(q))[1]),
            ("get_frequencies", lambda: ph.get_frequencies(q)),
            ("get_frequencies_with_eigenvectors", lambda: ph.get_frequencies_with_eigenvectors(q)[0]),
            ("get_dynamical_matrix_at_q", lambda: np.sort(np.linalg.eigvalsh(np.array(ph.get_dynamical_matrix_at_q(q))))),
            ("group velocities", lambda: (ph.run_qpoints([q], with_group_velocities=True), ph.get_qpoints_dict()["frequencies"][0])[1]),
        ):
            try:
                out[name] = ("value", np.array(fn(), dtype=float))
            except Exception as ex:      # the route refuses to answer in this state
                out[name] = ("raise", type(ex).__name__)
        return out

    n_states = 0
    for cellname in (["nacl_prim", "cscl"] if not thorough else ["nacl_prim", "cscl", "zincblende_prim", "wurtzite"]):
        for method in ("wang", "gonze"):
            cell, _ = gen.make_cell(cellname)
            ph = phonopy.Phonopy(cell, supercell_matrix=np.diag([2, 1, 1]), primitive_matrix="P", log_level=0)
            ph.force_constants = gen.pair_fc(ph.supercell, 1.45 * nn_distance(ph.primitive))
            n = len(ph.primitive)
            good = {"born": np.array([np.eye(3) * (1.2 if i % 2 == 0 else -1.2 * (n // 2 + n % 2) / max(n // 2, 1)) for i in range(n)]), "dielectric": np.eye(3) * 2.3, "factor": 14.4, "method": method}
            ph.nac_params = good
            ph.run_qpoints([q], with_group_velocities=True)      # a fully built state (dynamical matrix + group velocity object)
            bads = [("born charges for n+1 atoms", dict(good, born=np.array([np.eye(3)] * (n + 1)))),
                    ("dict without dielectric", {"born": good["born"], "factor": 14.4, "method": method}),
                    ("dict without factor", {"born": good["born"], "dielectric": good["dielectric"], "method": method})]
            for label, bad in bads:
                exc = None
                try:
                    ph.nac_params = bad
                except Exception as ex:
                    exc = type(ex).__name__
                res = routes(ph)
                n_states += 1
                run.count("error-path states (assignment %s)" % ("rejected" if exc else "accepted"), section="oracle")
                run.case(("error-state", cellname, method, label), nontrivial=exc is not None)
                kinds = {k: v[0] for k, v in res.items()}
                info = dict(cell=cellname, nac=method, rejected_assignment=label, exception=exc, routes={k: (v[1] if v[0] == "raise" else "value") for k, v in res.items()})
                vals = [v[1] for v in res.values() if v[0] == "value"]
                if len(set(kinds.values())) > 1:
                    run.violation("Phonopy.nac_params setter", "routes-disagree-after-rejected-assignment",
                                  "after `nac_params = <%s>` (%s) some access routes answer with phonons of an earlier state while others raise: %s" % (label, exc or "no exception", info["routes"]), info)
                elif vals and any(not _close(_lam(np.sort(v), ph.unit_conversion_factor), _lam(np.sort(vals[0]), ph.unit_conversion_factor)) for v in vals[1:]):
                    run.violation("Phonopy.nac_params setter", "routes-disagree-after-rejected-assignment", "after a rejected assignment the access routes report different frequencies", info)
                # back to a valid state for the next probe
                ph.nac_params = good
                ph.run_qpoints([q], with_group_velocities=True)
    run.cov["oracle"]["error-path states probed"] = n_states


def main(run):
    rng = run.rng
    thorough = run.tier == "thorough"
    warnings.simplefilter("ignore")
    common.setup_phonopy("omp")
    run.proof_step(leancheck=thorough)
    run.cov["rule"] = (
        "cases = small prototype crystal x diagonal supercell x NAC {off, gonze, wang} x build {OpenMP, serial}, pair-potential "
        "force constants; per case all 2^4 combinations of with_eigenvectors/with_group_velocities/with_dynamical_matrices/"
        "is_band_connection through run_qpoints, run_band_structure, run_mesh, init_mesh(use_iter_mesh)+iteration and the "
        "DynamicalMatrix object directly; a case row = (case, build, path, option combination, q-point); non-trivial = more than "
        "one optional output requested or band connection on.")
    run.cov["trusted_base"] = [
        "Lean 4.33 kernel; Mathlib v4.33; axioms per theorem in coverage.theorems",
        "hand-written model Model/AccessPaths.lean (per-row buffer store) tied to qpoints.py / mesh.py / band_structure.py / api_phonopy.py by this correspondence run; the revision (pinned/repaired text of the three defect sites) is determined from the code's behaviour on every run",
        "LAPACK eigh/eigvalsh, numpy, PyYAML, h5py are not modelled (eigen-decomposition is a symbol in the model; eigenpairs are checked numerically on the implementation)",
        "nanobind replaced by harness/nbstub (c/_phonopy.cpp compiled unchanged)",
    ]
    run.assumptions += ["row independence: iteration i of the per-q loops touches only row i of the buffers (numpy views)",
                        "seekpath-based automatic band paths are unavailable in the sandbox"]

    # one replayable representative per (site, class); the number of occurrences is counted in the evidence
    _viol = run.violation
    _seen = set()

    def violation_once(site, klass, what, case):
        run.count("violations %s / %s" % (site, klass), section="oracle")
        if (site, klass) in _seen:
            return
        _seen.add((site, klass))
        _viol(site, klass, what, case)

    run.violation = violation_once
    ncases = 20 if thorough else 3
    cases = []
    for k in range(ncases):
        c = make_case(rng, thorough)
        if k == 0:
            c["nac"] = None
            # a non-default unit conversion factor in every run (together with iterated meshes, band paths, ...)
            c["ctor"]["factor"] = rng.choice([21.49068, 108.97077, 1.0, 521.47083])
        if k == 1:
            c["nac"] = rng.choice(["gonze", "wang"])
        cases.append(c)
    run.sample(dict(kind="case", **cases[0]))

    lines, expect = [], []     # driver requests and what the implementation showed
    rev = {"f1": None, "f12": None, "iter": None}
    impl_rows = []             # (request builder info) deferred until rev is known
    conn_checks = []
    round_checks = []

    for case in cases:
        for build in ("omp", "ser"):
            switch_build(build)
            omp = build == "omp"
            ph = build_phonon(case)
            ref = Reference(ph)
            R = run_paths(ph, ref, case, omp)
            run.count("case %s nac=%s build=%s" % (case["cell"], case["nac"], build))
            run.count("ctor %s" % ", ".join("%s=%s" % kv for kv in sorted((case.get("ctor") or {}).items())))
            info0 = dict(cell=case["cell"], smat=case["smat"], nac=case["nac"], build=build, constructor_options=case.get("ctor"))

            # ---------- revision flags from behaviour (first opportunity), then checked everywhere
            if omp and rev["f1"] is None:
                r_ = R[("qpoints", True, False, True)]
                rev["f1"] = classify_matrix(np.asarray(r_["dynamical_matrices"][0]), ref.at(case["qs"][0])) == "D"
            if rev["iter"] is None:
                rev["iter"] = R[("itermesh", False)]["error"] is None
            # F12: length-specified mesh, stored vs iterated grid
            for length in [case["length"], 7.0, 9.5, 12.0, 15.0, 19.0]:
                ph.init_mesh(length, use_iter_mesh=True, with_eigenvectors=True)
                q_iter, mesh_iter = np.array(ph.mesh.qpoints), np.array(ph.mesh.mesh_numbers)
                if (mesh_iter % 2 == 0).any() and np.prod(mesh_iter) <= 512:
                    break
            case = dict(case, length=length)
            ph.init_mesh(case["length"])
            q_mesh = np.array(ph.mesh.qpoints)
            ph.init_mesh(list(mesh_iter), is_gamma_center=True)
            q_gc = np.array(ph.mesh.qpoints)
            ph.init_mesh(list(mesh_iter), is_gamma_center=False)
            q_mp = np.array(ph.mesh.qpoints)
            same = q_iter.shape == q_mesh.shape and np.allclose(q_iter, q_mesh)
            distinguishable = not (q_gc.shape == q_mp.shape and np.allclose(q_gc, q_mp))
            iter_is_gc = q_iter.shape == q_gc.shape and np.allclose(q_iter, q_gc)
            mesh_is_gc = q_mesh.shape == q_gc.shape and np.allclose(q_mesh, q_gc)
            run.count("init_mesh length probes (even mesh: %s)" % distinguishable, section="oracle")
            if distinguishable:
                if rev["f12"] is None:
                    rev["f12"] = iter_is_gc
                # model: flag reaching the class
                for use_iter, got in ((True, iter_is_gc), (False, mesh_is_gc)):
                    impl_rows.append(("gamma", (1, 0, int(use_iter)), str(bool(got)).lower(), dict(info0, mesh=case["length"], use_iter_mesh=use_iter)))
                if not same:
                    run.violation("Phonopy.init_mesh", "itermesh-gamma-center",
                                  "mesh given as a length: the stored mesh is Gamma-centred, the iterated mesh (use_iter_mesh=True) is not; the two sample different q-points",
                                  dict(info0, mesh=case["length"], mesh_numbers=mesh_iter.tolist(), n_q_iter=len(q_iter), n_q_mesh=len(q_mesh)))
            run.case(("init_mesh", case["cell"], case["smat"], case["length"], build), nontrivial=distinguishable)

            # ---------- every combination, every path
            for e, g, d, c in itertools.product([False, True], repeat=4):
                opts = (int(e), int(g), int(d), int(c))
                nontriv = (e + g + d) >= 2 or c
                for path in PATHS:
                    if path == "qpoints":
                        res = R[("qpoints", e, g, d)]
                    elif path == "band":
                        res = R[("band", e, g, c)]
                    elif path == "mesh":
                        res = R[("mesh", e, g)]
                    elif path == "itermesh":
                        res = R[("itermesh", e)]
                    else:
                        res = None
                    info = dict(info0, path=path, with_eigenvectors=e, with_group_velocities=g, with_dynamical_matrices=d, is_band_connection=c)
                    if path == "direct":
                        qpts = case["qs"]
                    else:
                        qpts = res["qpoints"]
                    if path == "itermesh" and res["error"]:
                        impl_rows.append(("row", (path, int(omp)) + opts + (0, ()), "error=unbound", info))
                        run.case((case["cell"], case["smat"], case["nac"], build, path, opts), nontrivial=True)
                        if not e:
                            run.violation("IterMesh.__next__", "unbound-eigenvectors",
                                          "iterating a mesh created with use_iter_mesh=True and with_eigenvectors=False raises UnboundLocalError", info)
                        continue
                    nq = min(len(qpts), 3)
                    for i in range(nq):
                        refq = ref.at(qpts[i])
                        ord_ = None
                        if path == "band" and c:
                            ord_ = list(range(len(refq["f"]))) if i == 0 else res["conn"][i - 1][3]
                        if path == "direct":
                            resd = dict(frequencies=[refq["f2"]] * (i + 1), eigenvectors=[refq["v"]] * (i + 1) if e else None,
                                        dynamical_matrices=[refq["D"]] * (i + 1) if d else None, group_velocities=[refq["g"]] * (i + 1) if g else None)
                            got = label_row(path, resd, i, refq, None, ph.unit_conversion_factor)
                        else:
                            got = label_row(path, res, i, refq, ord_, ph.unit_conversion_factor)
                        impl_rows.append(("row", (path, int(omp)) + opts + (i, tuple(ord_ or ())), got, info))
                        run.case((case["cell"], case["smat"], case["nac"], build, path, opts, i), nontrivial=nontriv)
                        # ---- the property itself on this row
                        fac = ph.unit_conversion_factor
                        want_f = _lam(np.asarray(refq["f"])[ord_] if ord_ is not None else refq["f"], fac)
                        rowf = _lam(refq["f2"] if path == "direct" else np.asarray(res["frequencies"][i]), fac)
                        reff = _lam(refq["f"], fac)
                        if not _close(rowf, want_f):
                            if ord_ is not None and _close(np.sort(rowf), np.sort(reff)):
                                pass
                            else:
                                run.violation("Phonopy.%s" % path, "frequencies-differ-across-paths", "eigenvalues behind the frequencies differ from the dynamical-matrix object's by %.3g" % np.abs(np.sort(rowf) - np.sort(reff)).max(), info)
                        if ord_ is not None and not _close(np.sort(rowf), np.sort(reff)):
                            run.violation("BandStructure._solve_dm_on_path", "band-connection-not-a-reordering", "per-q frequency multiset changed under band connection", info)
                        if "dm=V" in got or "dm=other" in got:
                            run.violation("QpointsPhonon._run", "dm-is-eigvecs-openmp" if (omp and e and d) else "dm-wrong",
                                          "returned dynamical matrix is not the dynamical matrix (it is %s): eigenvectors overwrite the shared buffer" % ("the eigenvector matrix" if "dm=V" in got else "something else"), info)
                        if "eigvecs=other" in got or "eigvecs=D" in got:
                            run.violation("Phonopy.%s" % path, "eigvecs-wrong", "returned eigenvectors do not diagonalise the dynamical matrix", info)
                        if "gv=other" in got:
                            run.violation("Phonopy.%s" % path, "gv-differ-across-paths", "group velocities differ from get_group_velocity_at_q", info)
                        # eigenvectors diagonalise the *reported* dynamical matrix to the *reported* eigenvalues
                        if path == "qpoints" and e and d:
                            M = np.asarray(res["eigenvectors"][i])
                            Dm = np.asarray(res["dynamical_matrices"][i])
                            fr = np.asarray(res["frequencies"][i]) / ph.unit_conversion_factor
                            lam = np.sign(fr) * fr ** 2
                            resid = np.abs(Dm @ M - M * lam[None, :]).max()
                            run.count("eigpair-consistency", section="oracle")
                            if resid > 1e-7 * max(1.0, np.abs(refq["D"]).max()):
                                run.violation("QpointsPhonon._run", "dm-is-eigvecs-openmp" if omp else "eigpairs-inconsistent",
                                              "reported eigenvectors do not diagonalise the reported dynamical matrix to the reported eigenvalues (residual %.3g)" % resid, info)
                    run.count("path %s" % path)
                # band connection: the implementation's greedy matching against the model, certificate
                if c:
                    res = R[("band", e, g, c)]
                    for (pv, cv, prev, out_) in res["conn"]:
                        metric = np.abs(pv.conj().T @ cv)
                        conn_checks.append((metric, prev, out_, dict(info0, with_eigenvectors=e, with_group_velocities=g)))

            # ---------- writers
            with tempfile.TemporaryDirectory() as td:
                cwd = os.getcwd()
                os.chdir(td)
                try:
                    qs = np.array(case["qs"])
                    ph.run_qpoints(qs, with_eigenvectors=True, with_group_velocities=True, with_dynamical_matrices=False)
                    dq = ph.get_qpoints_dict()
                    ph.write_yaml_qpoints_phonon()
                    ph.write_hdf5_qpoints_phonon()
                    txt = open("qpoints.yaml").read()
                    nums = yaml_numbers(txt, "frequency")
                    flat = np.asarray(dq["frequencies"]).ravel()
                    if len(nums) != flat.size:
                        run.violation("QpointsPhonon.write_yaml", "missing-values", "number of frequencies written differs from the number computed", info0)
                    for s_, x in list(zip(nums, flat))[:12]:
                        round_checks.append((10, float(x), s_, dict(info0, writer="write_yaml_qpoints_phonon", field="frequency")))
                    evn = re.findall(r"- \[\s*(-?\d+\.\d+),\s*(-?\d+\.\d+)\s*\]", txt)
                    ev = np.asarray(dq["eigenvectors"])
                    # order in file: q, band j, atom k, xyz l -> eigenvectors[i][k*3+l, j]
                    seq = []
                    for i in range(len(qs)):
                        for j in range(ev.shape[2]):
                            for kk in range(ev.shape[1]):
                                seq.append(ev[i][kk, j])
                    if len(evn) != len(seq):
                        run.violation("QpointsPhonon.write_yaml", "missing-values", "number of eigenvector components written differs", info0)
                    for (sr, si), z in list(zip(evn, seq))[:10]:
                        round_checks.append((14, float(z.real), sr, dict(info0, writer="write_yaml_qpoints_phonon", field="eigenvector")))
                        round_checks.append((14, float(z.imag), si, dict(info0, writer="write_yaml_qpoints_phonon", field="eigenvector")))
                    gvn = re.findall(r"group_velocity: \[\s*(-?\d+\.\d+),\s*(-?\d+\.\d+),\s*(-?\d+\.\d+)\s*\]", txt)
                    gflat = np.asarray(dq["group_velocities"]).reshape(-1, 3)
                    for tri, gvec in list(zip(gvn, gflat))[:6]:
                        for s_, x in zip(tri, gvec):
                            round_checks.append((7, float(x), s_, dict(info0, writer="write_yaml_qpoints_phonon", field="group_velocity")))
                    import h5py
                    with h5py.File("qpoints.hdf5", "r") as h:
                        okh = np.array_equal(h["frequency"][:], dq["frequencies"]) and np.array_equal(h["eigenvector"][:], dq["eigenvectors"]) and np.array_equal(h["group_velocity"][:], dq["group_velocities"])
                    run.count("hdf5 qpoints", section="oracle")
                    if not okh:
                        run.violation("QpointsPhonon.write_hdf5", "hdf5-differs", "hdf5 content differs from the computed arrays", info0)
                    # dynamical matrices in yaml (the F1 combination is reported above; write what the object holds)
                    ph.run_qpoints(qs, with_dynamical_matrices=True)
                    dqd = ph.get_qpoints_dict()
                    ph.write_yaml_qpoints_phonon()
                    txt = open("qpoints.yaml").read()
                    body = txt.split("dynamical_matrix:")[1].split("band:")[0]
                    dn = re.findall(r"-?\d+\.\d+", body)
                    d0 = np.asarray(dqd["dynamical_matrices"][0])
                    flatd = np.column_stack([d0.real.ravel(), d0.imag.ravel()]).ravel()
                    for s_, x in list(zip(dn, flatd))[:10]:
                        round_checks.append((10, float(x), s_, dict(info0, writer="write_yaml_qpoints_phonon", field="dynamical_matrix")))
                    # mesh
                    ph.run_mesh(case["mesh"], with_eigenvectors=True, with_group_velocities=True)
                    dm_ = ph.get_mesh_dict()
                    ph.write_yaml_mesh()
                    ph.write_hdf5_mesh()
                    txt = open("mesh.yaml").read()
                    nums = yaml_numbers(txt, "frequency")
                    flat = np.asarray(dm_["frequencies"]).ravel()
                    if len(nums) != flat.size:
                        run.violation("Mesh.write_yaml", "missing-values", "number of frequencies written differs from the number computed", info0)
                    for s_, x in list(zip(nums, flat))[:12]:
                        round_checks.append((10, float(x), s_, dict(info0, writer="write_yaml_mesh", field="frequency")))
                    with h5py.File("mesh.hdf5", "r") as h:
                        okh = np.array_equal(h["frequency"][:], dm_["frequencies"]) and np.array_equal(h["eigenvector"][:], dm_["eigenvectors"]) and np.array_equal(h["group_velocity"][:], dm_["group_velocities"]) and np.array_equal(h["qpoint"][:], dm_["qpoints"]) and np.array_equal(h["weight"][:], dm_["weights"])
                    run.count("hdf5 mesh", section="oracle")
                    if not okh:
                        run.violation("Mesh.write_hdf5", "hdf5-differs", "hdf5 content differs from the computed arrays", info0)
                    # band
                    ph.run_band_structure([case["path"]], with_eigenvectors=True, with_group_velocities=True, is_band_connection=True)
                    db = ph.get_band_structure_dict()
                    ph.write_yaml_band_structure()
                    ph.write_hdf5_band_structure()
                    txt = open("band.yaml").read()
                    nums = yaml_numbers(txt, "frequency")
                    flat = np.asarray(db["frequencies"][0]).ravel()
                    if len(nums) != flat.size:
                        run.violation("BandStructure.write_yaml", "missing-values", "number of frequencies written differs from the number computed", info0)
                    for s_, x in list(zip(nums, flat))[:12]:
                        round_checks.append((10, float(x), s_, dict(info0, writer="write_yaml_band_structure", field="frequency")))
                    with h5py.File("band.hdf5", "r") as h:
                        okh = np.array_equal(h["frequency"][:][0], db["frequencies"][0]) and np.array_equal(h["eigenvector"][:][0], db["eigenvectors"][0]) and np.array_equal(h["group_velocity"][:][0], db["group_velocities"][0])
                    run.count("hdf5 band", section="oracle")
                    if not okh:
                        run.violation("BandStructure.write_hdf5", "hdf5-differs", "hdf5 content differs from the computed arrays", info0)
                finally:
                    os.chdir(cwd)
    switch_build("omp")

    # ---------------- multi-segment band paths with NAC (segments joined at Gamma, at other points, disjoint)
    multi_expect = []
    multi_lines = []
    multi_segment_band(run, rng, thorough, multi_lines, multi_expect)

    # ---------------- Gamma with NAC per path, group-velocity perturbation, writers' field lists
    gamma_and_writers(run, rng, thorough, multi_lines, multi_expect)

    # ---------------- error-path states
    error_path_states(run, rng, thorough)

    # ---------------- description invariance (left-handed / sheared lattice vectors)
    relabel_stream(run, rng, thorough)

    # ---------------- batched q-points (threads) vs one q at a time
    batched_vs_single(run, rng, thorough)

    # ---------------- call sequences on one instance vs fresh instances
    call_sequences(run, rng, thorough, multi_lines, multi_expect)

    # ---------------- mesh eigenvectors at the reported q (relocated q-points outside [-0.5, 0.5])
    mesh_reported_q(run, rng, thorough)

    # ---------------- direct tests of estimate_band_connection on structured overlaps (exact zeros)
    import phonopy.phonon.band_structure as BS
    # which text the greedy loop has (maxval = 0 / -1): read off its behaviour on the model's counterexample matrix
    zex = np.array([[6049, 2065, 5327, 5547], [1043, 4541, 6651, 5835], [4630, 6398, 1562, 5932], [6394, 5846, 4994, 0]]) / 10000.0
    try:
        bc_fixed = sorted(BS.estimate_band_connection(np.eye(4), zex, [0, 1, 2, 3])) == [0, 1, 2, 3]
    except UnboundLocalError:
        bc_fixed = False
    run.cov["correspondence"]["band_connection_revision"] = "maxval=-1 (repaired)" if bc_fixed else "maxval=0 (pinned)"
    # orthogonal matrices with a single exact zero in the last row (a zero that is not part of a symmetry block)
    n_sent = 0
    for t in range(20000 if thorough else 3000):
        n = rng.choice([4, 5, 6, 6])
        r_ = np.random.RandomState(rng.randint(0, 10**9))
        last = np.zeros(n)
        last[:n - 1] = r_.randn(n - 1)
        last /= np.linalg.norm(last)
        Qs = [last]
        for i in range(n - 1):
            v = r_.randn(n)
            for q_ in Qs:
                v -= (v @ q_) * q_
            Qs.append(v / np.linalg.norm(v))
        U = np.array(Qs[1:] + [Qs[0]])
        U[n - 1, n - 1] = 0.0
        prev = list(range(n))
        try:
            out_ = list(BS.estimate_band_connection(np.eye(n), U, prev))
            err = None
        except UnboundLocalError:
            out_, err = None, "unbound"
        failing = bool(err) or sorted(out_) != list(range(n))
        if (failing and n_sent < 60) or t < 30:
            n_sent += 1
            conn_checks.append((np.abs(U), prev, out_ if err is None else "unbound", dict(kind="orthogonal-one-zero", n=n, eigvecs=U.tolist(), prev=prev)))
            run.case(("conn-one-zero", n, U.tobytes()), nontrivial=True)
        run.count("band-connection one-zero orthogonal probes", section="oracle")
        if failing:
            run.violation("estimate_band_connection", "not-a-permutation",
                          "greedy matching returned %s for an orthogonal overlap matrix with one exact zero: a band is reported twice, another dropped" % (out_ if err is None else "UnboundLocalError"),
                          dict(n=n, prev_eigvecs="identity", eigvecs=U.tolist(), prev_band_order=prev))
    nprobe = 200 if thorough else 60
    for t in range(nprobe):
        n = rng.choice([2, 3, 4, 5, 6])
        # block-diagonal unitary with permuted columns: the situation on high-symmetry lines
        perm = list(range(n))
        rng.shuffle(perm)
        U = np.zeros((n, n))
        k = 0
        while k < n:
            b = rng.choice([1, 1, 2, 3]) if n - k >= 3 else rng.choice([1, 2]) if n - k >= 2 else 1
            A = np.array([[rng.randint(-3, 3) for _ in range(b)] for _ in range(b)], dtype=float)
            if abs(np.linalg.det(A)) < 0.5:
                A = np.eye(b)
            Qm, _ = np.linalg.qr(A)
            U[k:k + b, k:k + b] = Qm
            k += b
        U = U[:, perm]
        prev = list(range(n))
        rng.shuffle(prev)
        try:
            out_ = list(BS.estimate_band_connection(np.eye(n), U, prev))
            err = None
        except UnboundLocalError:
            out_, err = None, "unbound"
        conn_checks.append((np.abs(U), prev, out_ if err is None else "unbound", dict(kind="synthetic-overlap", n=n, overlap=np.abs(U).round(6).tolist(), prev=prev)))
        run.count("band-connection synthetic probes", section="oracle")
        if err or sorted(out_) != list(range(n)):
            run.violation("estimate_band_connection", "not-a-permutation",
                          "greedy matching returned %s for a unitary overlap matrix" % (out_ if err is None else "UnboundLocalError"),
                          dict(n=n, overlap=np.abs(U).tolist(), prev=prev))

    # ---------------- correspondence with the Lean model
    for k in ("f1", "f12", "iter"):
        if rev[k] is None:
            rev[k] = True if k != "f12" else rev[k]
    f12_known = rev["f12"] is not None
    rv = (int(bool(rev["f1"])), int(bool(rev["f12"])), int(bool(rev["iter"])))
    run.cov["correspondence"]["revision_detected"] = dict(f1_copy_of_dynmat=bool(rev["f1"]), f12_forced_gamma_to_itermesh=rev["f12"], itermesh_binds_none=bool(rev["iter"]))
    run.cov["correspondence"]["theorem_applicable"] = "paths_agree / options_independent (Rev.fixed)" if rv == (1, 1, 1) else "paths_agree_partial + counterexamples (pinned text at: %s)" % ", ".join(n for n, v in zip(("F1", "F12", "IterMesh"), rv) if not v)
    for kind, key, got, info in impl_rows:
        if kind == "row":
            path, omp_, e, g, d, c, i, ord_ = key
            lines.append("row %d %d %d %s %d %d %d %d %d %d %d %s" % (rv[0], rv[1], rv[2], path, omp_, e, g, d, c, i, len(ord_), " ".join(map(str, ord_))))
        else:
            if not f12_known:
                continue
            a, b, u = key
            lines.append("gamma %d %d %d %d %d %d" % (rv[0], rv[1], rv[2], a, b, u))
        expect.append((kind, got, info))
    for metric, prev, out_, info in conn_checks:
        n = len(prev)
        lines.append("conn %d %d %s %s" % (int(bc_fixed), n, " ".join(qx(float(x)) for x in metric.ravel()), " ".join(map(str, prev))))
        expect.append(("conn", out_, info))
    for k, x, s_, info in round_checks:
        lines.append("round %d %s" % (k, qx(x)))
        expect.append(("round", (k, x, s_), info))
    for l_, e_ in zip(multi_lines, multi_expect):
        lines.append(l_)
        expect.append(e_)
    out = common.lean_run_driver("C14", lines)
    if len(out) != len(lines):
        run.broke("correspondence", "driver answered %d lines for %d requests" % (len(out), len(lines)))
    for (kind, got, info), req, ans in zip(expect, lines, out):
        run.count(kind, section="correspondence")
        if ans == "bad-op":
            run.broke("correspondence", "model rejected request", dict(request=req[:200]))
            continue
        if kind == "gvseq":
            run.count("gv call-sequence rows", section="correspondence")
            if ans.strip() != got:
                run.broke("correspondence", "group-velocity direction per call: model `%s`, expected `%s`" % (ans.strip(), got), info)
            continue
        if kind == "gammadir":
            check_gammadir(run, ans.strip(), got, info)
            continue
        if kind == "written":
            run.count("writer field rows", section="correspondence")
            if ans.strip() != got:
                run.broke("correspondence", "writer %s: file has fields `%s`, model `%s`" % (info["writer"], got, ans.strip()), info)
            continue
        if kind == "banddirs":
            check_banddirs(run, ans.strip(), got, info)
            continue
        if kind in ("row", "gamma"):
            if ans.strip() != got:
                run.broke("correspondence", "implementation row differs from the model at the detected revision: impl `%s` model `%s`" % (got, ans), info)
        elif kind == "conn":
            if got == "unbound":
                if ans != "unbound":
                    run.broke("correspondence", "estimate_band_connection raised, model answered %s" % ans, info)
                continue
            m = re.match(r"conn (.*) order (.*) perm (\w+) (\w+)$", ans)
            if not m:
                run.broke("correspondence", "estimate_band_connection returned %s, model answered %s" % (got, ans), info)
                continue
            mo = [int(t) for t in m.group(2).split()]
            if mo != list(got):
                run.broke("correspondence", "band order: implementation %s, model %s" % (got, mo), info)
            if m.group(4) != "true":
                run.count("band-order certificate false (model and implementation agree; the property fails)", section="correspondence")
                run.violation("estimate_band_connection", "not-a-permutation", "band order %s is not a permutation" % (got,), info)
        elif kind == "round":
            k, x, s_ = got
            model = Fraction(ans)
            if Fraction(s_) != model:
                run.broke("correspondence", "written `%s` for %r, model rounds to %s (k=%d)" % (s_, x, ans, k), info)
            if abs(Fraction(s_) - Fraction(x)) > Fraction(1, 2 * 10 ** k):
                run.violation(info.get("writer", "writer"), "written-precision", "written value %s differs from %r by more than half a unit of the last place" % (s_, x), info)
    run.cov["correspondence"]["compared"] = len(lines)
