"""C16 — saving and reloading a calculation reproduces it.

Proof step: `Props/C16.lean` (dataset conversion, decision table of phonopy.load / Phonopy.save,
algebra of printing with k decimals).
Correspondence: the Lean models vs the real code — `get_displacements_and_forces` /
`forces_in_dataset` on random small datasets (exact rationals); `"%.kf" % x` vs `printK`,
text width vs `printedLen`/`fits`; `phonopy.load` in directories populated with distinguishable
sources vs the decision model ("which source won"); `Phonopy.save` content vs `save`.
Oracle (the property itself): `Phonopy.save()` -> `phonopy.load()` and the `file_IO` writers /
parsers reproduce what was written, to the precision of the written text, and the phonons.
All files live in temporary directories under /tmp which are removed.
"""

import copy as _copy
import itertools
import json
import os
import re
import shutil
import tempfile
import time
from fractions import Fraction

import numpy as np

from .. import common, gen
from ..common import q

QS = np.array([[0.1, 0.2, 0.3], [0.5, 0.0, 0.0], [0.25, 0.25, 0.0]])


# --------------------------------------------------------------------------
# helpers
# --------------------------------------------------------------------------

class TmpDir:
    """a fresh directory under /tmp; the process works inside it (phonopy.load looks for
    FORCE_SETS, FORCE_CONSTANTS, force_constants.hdf5, BORN in the current directory)"""

    def __enter__(self):
        self.cwd = os.getcwd()
        self.path = tempfile.mkdtemp(prefix="verif-c16-", dir="/tmp")
        os.chdir(self.path)
        return self.path

    def __exit__(self, *a):
        os.chdir(self.cwd)
        shutil.rmtree(self.path, ignore_errors=True)


def maxdiff(a, b):
    a = np.asarray(a, dtype=float)
    b = np.asarray(b, dtype=float)
    if a.shape != b.shape:
        return float("inf")
    if a.size == 0:
        return 0.0
    return float(np.abs(a - b).max())


def within_decimals(a, b, k, slack=1.0):
    """|a-b| <= (1/2) 10^-k (+ a few ulp): equality to the precision of text written with k decimals"""
    a = np.asarray(a, dtype=float)
    b = np.asarray(b, dtype=float)
    if a.shape != b.shape:
        return False
    if a.size == 0:
        return True
    tol = 0.5 * 10.0 ** (-k) * slack + 4 * np.finfo(float).eps * np.maximum(np.abs(a), np.abs(b))
    return bool((np.abs(a - b) <= tol).all())


def scaled_values(rs, shape, scale):
    """values of magnitude ~scale with full mantissas"""
    return rs.uniform(-1.0, 1.0, size=shape) * scale


def flat(a):
    return " ".join(q(x) for x in np.asarray(a, dtype="double").ravel())


# --------------------------------------------------------------------------
# part D: decimal printing
# --------------------------------------------------------------------------

def part_precision(run, rng, lines, meta):
    ks = [6, 8, 10, 15, 16]
    n = 150 if run.tier == "quick" else 1000
    for i in range(n):
        k = rng.choice(ks)
        e = rng.uniform(-12, 8)
        x = rng.choice([-1, 1]) * 10.0 ** e * rng.uniform(1, 10)
        kind = rng.random()
        if kind < 0.15:   # exact ties and exactly representable decimals
            x = rng.choice([0.5, 1.5, 2.5, 0.125, 0.375, -0.5, 1e5, 123456.0, -12345.0, 99999.999999995, 1e-12, 0.0]) * rng.choice([1, 1, 10, 100])
        txt = ("%%.%df" % k) % x
        digits = txt.replace("-", "").replace(".", "")
        m = int(digits) * (-1 if txt.startswith("-") else 1)
        lines.append("print %d %s" % (k, q(x)))
        meta.append(("print", dict(k=k, x=x), m))
        lines.append("len %d %s" % (k, q(x)))
        meta.append(("len", dict(k=k, x=x), len(txt)))
        # the property: the text, parsed, is within half a unit of the last printed decimal
        back = float(txt)
        if abs(Fraction(back) - Fraction(x)) > Fraction(1, 2 * 10 ** k) + Fraction(abs(back)) * Fraction(1, 2 ** 52):
            run.violation("printf %%.%df" % k, "print-parse-error", "float(%r) differs from %r by more than half a unit of the last decimal" % (txt, x), dict(k=k, x=x))
        run.case(("print", k, x), nontrivial=abs(x) * 10 ** k > 1)
        run.count("precision k=%d" % k)
    for W, k in ((15, 8), (22, 15), (13, 8)):
        for x in [99999.0, 100000.0, 123456.789, -9999.5, -12345.0, -99999.0, 999999.99999999, 0.5, -0.5, 1e8, 1e-12, 9999999.0]:
            txt = ("%%%d.%df" % (W, k)) % x
            lines.append("fits %d %d %s" % (W, k, q(x)))
            meta.append(("fits", dict(W=W, k=k, x=x), txt[0] == " "))
            run.count("fits W=%d" % W)


# --------------------------------------------------------------------------
# part C: dataset conversion
# --------------------------------------------------------------------------

def entry_text(n, e):
    t = "%d %s" % (e["number"], flat(e["displacement"]))
    if "forces" in e:
        t += " 1 " + flat(e["forces"])
    else:
        t += " 0"
    return t


def part_dataset(run, rng, lines, meta):
    from phonopy.structure.dataset import forces_in_dataset, get_displacements_and_forces

    ncase = 80 if run.tier == "quick" else 600
    for c in range(ncase):
        n = rng.randint(1, 4)
        m = rng.randint(0, 3)
        mode = rng.choice(["all", "all", "none", "partial", "zero-disp"])
        ents = []
        for i in range(m):
            disp = np.array([rng.randint(-8, 8) / 8.0 for _ in range(3)])
            if mode != "zero-disp" and not disp.any():
                disp[rng.randrange(3)] = 0.125
            if mode == "zero-disp" and i == 0:
                disp[:] = 0
            e = {"number": rng.randrange(n), "displacement": disp}
            hasf = mode in ("all", "zero-disp") or (mode == "partial" and (i % 2 == 0))
            if hasf:
                e["forces"] = gen.rand_rational_array(rng, (n, 3))
            if rng.random() < 0.3:
                e["supercell_energy"] = rng.randint(-100, 100) / 16.0
            ents.append(e)
        ds = {"natom": n, "first_atoms": ents}
        body = "%d %d %s" % (n, m, " ".join(entry_text(n, e) for e in ents))
        d, f = get_displacements_and_forces(_copy.deepcopy(ds))
        lines.append("t2 " + body)
        meta.append(("t2", dict(n=n, m=m, mode=mode, dataset=body), (d, f)))
        lines.append("fid1 " + body)
        meta.append(("fid", dict(dataset=body), forces_in_dataset(ds)))
        # type-2 view of the same data
        if m > 0:
            t2 = {"displacements": d}
            if f is not None:
                t2["forces"] = f
            d2, f2 = get_displacements_and_forces(t2)
            # by value (whether the very same array objects come back is representation, not behaviour)
            if maxdiff(d2, d) != 0 or (f is None) != (f2 is None) or (f is not None and maxdiff(f2, f) != 0):
                run.violation("get_displacements_and_forces", "conversion-loses-data", "a type-2 dataset is not returned with the same values", dict(dataset=body))
            lines.append("fid2 %d" % (1 if f is not None else 0))
            meta.append(("fid", dict(type2=True, dataset=body), forces_in_dataset(t2)))
            # without loss: the model's inverse applied to the implementation's output gives the entries back
            wf = all(np.any(e["displacement"] != 0) for e in ents) and mode in ("all", "none")
            lines.append("t1 %d %d %s %s" % (n, m, flat(d), "0" if f is None else "1 " + flat(f)))
            meta.append(("t1", dict(n=n, m=m, mode=mode, wf=wf, dataset=body), " ; ".join(entry_text(n, e) for e in ents)))
        run.case(("dataset", body), nontrivial=m >= 1)
        run.count("dataset %s" % mode)
    lines.append("fid0")
    meta.append(("fid", dict(none=True), forces_in_dataset(None)))


# --------------------------------------------------------------------------
# crystals and objects for the round trips
# --------------------------------------------------------------------------

def make_cell(rng, variant):
    """nacl_prim / cscl based cells with the decorations of the property's quantifier"""
    from phonopy.structure.atoms import PhonopyAtoms

    name = variant["crystal"]
    lat, sym, pos, _ = gen.PROTOTYPES[name]
    sym = list(sym)
    kw = {}
    if variant.get("extended"):
        # extended symbols ('Cl1') need explicit masses
        from phonopy.structure.atoms import atom_data, symbol_map

        kw["masses"] = [atom_data[symbol_map[x]][3] for x in sym]
        sym[-1] = sym[-1] + "1"
    if variant.get("masses"):
        kw["masses"] = [rng.uniform(1, 200) for _ in sym]
    if variant.get("magmoms") == "collinear":
        kw["magnetic_moments"] = [rng.choice([-1.5, 2.25, 0.5]) for _ in sym]
    elif variant.get("magmoms") == "noncollinear":
        kw["magnetic_moments"] = [[0.0, 0.0, rng.choice([1.0, -1.0])] for _ in sym]
    return PhonopyAtoms(cell=np.array(lat, dtype=float), symbols=sym, scaled_positions=np.array(pos, dtype=float), **kw)


def unwrapped_cell(cell, rs, mode, axes=(0, 1, 2)):
    """the same crystal with unit-cell atoms listed as other lattice images: coordinates outside [0, 1) ("shift": +-1, +-2,
    e.g. 1.5, -0.5), on the boundary ("edge": a coordinate 0 given as exactly 1.0, -1e-17, -1e-16, 1 - 1.1e-16), or both ("mixed")"""
    from phonopy.structure.atoms import PhonopyAtoms

    pos = np.array(cell.scaled_positions, dtype="double")
    done = False
    for _ in range(20):
        for i in range(len(pos)):
            for a in axes:
                r = rs.randint(0, 4)
                if mode in ("shift", "mixed") and r == 0:
                    pos[i, a] += float(rs.choice([-2, -1, 1, 2]))
                    done = True
                elif mode in ("edge", "mixed") and abs(pos[i, a]) < 1e-12 and r in (1, 2):
                    pos[i, a] = float(rs.choice([1.0, -1e-17, -1e-16, 1.0 - 1.2e-16, -0.0]))
                    done = True
        if done:
            break
    kw = dict(cell=np.array(cell.cell, dtype="double"), symbols=list(cell.symbols), scaled_positions=pos)
    if cell.masses is not None:
        kw["masses"] = list(cell.masses)
    if getattr(cell, "magnetic_moments", None) is not None:
        kw["magnetic_moments"] = cell.magnetic_moments
    return PhonopyAtoms(**kw)


def make_object(rng, rs, variant):
    from phonopy import Phonopy
    from phonopy.interface.calculator import get_default_physical_units

    cell = make_cell(rng, variant)
    calc = variant.get("calculator")
    units = get_default_physical_units(calc)
    smat = np.diag(variant["smat"])
    if variant.get("relabel"):
        # the same crystal described by other lattice vectors (left-handed for det -1, sheared, permuted)
        cell, _qmap, smap = gen.relabelled_cell(cell, gen.UNIMODULAR[variant["relabel"]])
        smat = smap(smat)
    if variant.get("unwrap"):
        # along the directions in which the supercell is larger than the unit cell (there the image chosen matters)
        axes = (0, 1, 2) if variant.get("relabel") else tuple(a for a in range(3) if variant["smat"][a] > 1)
        cell = unwrapped_cell(cell, rs, variant["unwrap"], axes)
    ph = Phonopy(cell, supercell_matrix=smat, primitive_matrix=variant.get("pmat", "P"), factor=units["factor"], calculator=calc, log_level=0)
    scale = variant.get("scale", 1.0)
    fc_model = gen.pair_fc(ph.supercell, 4.6)
    dsk = variant.get("dataset")
    if dsk in ("t1", "t1-disp", "t1-energy", "t1-partial"):
        ph.generate_displacements(distance=0.03 * min(scale, 1.0) if scale < 1 else 0.03)
        ds = _copy.deepcopy(ph.dataset)
        for d in ds["first_atoms"]:
            if scale != 1.0:
                d["displacement"] = np.array(d["displacement"]) * (scale if scale < 1e3 else 1.0)
            if dsk != "t1-disp" and not (dsk == "t1-partial" and d is not ds["first_atoms"][0]):
                d["forces"] = np.array(-np.einsum("jab,b->ja", fc_model[d["number"]], d["displacement"]) * (scale if scale >= 1e3 else 1.0), dtype="double", order="C")
            if dsk == "t1-energy":
                d["supercell_energy"] = float(rs.uniform(-1, 1) * 100)
        ph.dataset = ds
    elif dsk == "t2-seed":
        # random displacements generated by phonopy itself (the dataset then records its random_seed)
        ph.generate_displacements(distance=0.03, number_of_snapshots=2, random_seed=int(rs.randint(1, 1000)))
        dset = _copy.deepcopy(ph.dataset)
        dset["forces"] = -np.einsum("ijab,sjb->sia", fc_model, dset["displacements"])
        ph.dataset = dset
    elif dsk in ("t2", "t2-disp", "t2-energy"):
        ns = len(ph.supercell)
        D = scaled_values(rs, (3, ns, 3), 0.02 * (scale if scale < 1e3 else 1.0))
        dset = {"displacements": D}
        if dsk != "t2-disp":
            dset["forces"] = -np.einsum("ijab,sjb->sia", fc_model, D) * (scale if scale >= 1e3 else 1.0)
        if dsk == "t2-energy":
            dset["supercell_energies"] = rs.uniform(-1, 1, size=3) * 100
        ph.dataset = dset
    fck = variant.get("fc")
    if fck in ("full", "compact"):
        fcv = fc_model * (scale if scale >= 1e-6 else 1.0) + 0.0
        if variant.get("fc_noise"):
            fcv = fcv + rs.normal(scale=1e-3, size=fcv.shape)
        if fck == "compact":
            from phonopy.harmonic.force_constants import full_fc_to_compact_fc

            fcv = full_fc_to_compact_fc(ph.primitive, fcv)
        ph.force_constants = np.array(fcv, dtype="double", order="C")
    elif fck == "produced":
        ph.produce_force_constants()
        ph.symmetrize_force_constants()
    if variant.get("nac"):
        npa = len(ph.primitive)
        z = 1.0 + rs.uniform(0, 1)
        born = np.array([np.eye(3) * z * (-1) ** i for i in range(npa)]) + (0.0 if npa % 2 == 0 else 0.0)
        if npa % 2 == 1:
            born[-1] = 0
        eps = np.eye(3) * (2.0 + rs.uniform(0, 1))
        nac = {"born": born, "dielectric": eps}
        if variant["nac"] != "nofactor":
            nac["factor"] = units["nac_factor"] if variant["nac"] == "default" else float(variant["nac_factor"])
        if variant.get("nac_method"):
            nac["method"] = variant["nac_method"]
        ph.nac_params = nac
    return ph


def cells_equal(run, a, b, what, case, mat=None):
    """cells to the printed precision: lattice %21.15f, coordinates %18.15f, masses %f, moments %.8f.
    mat: for a cell that load recomputes from the printed unit cell (supercell, primitive cell) the matrix it is
    derived with; the printed rounding of the unit cell is carried through it (and its inverse for positions)."""
    bad = []
    sl = sp = 1.0
    if mat is not None:
        m = np.array(mat, dtype=float).reshape(3, 3)
        sl = 1.0 + np.abs(m).sum(axis=0).max() + np.abs(m).sum(axis=1).max()
        mi = np.linalg.inv(m)
        sp = 1.0 + np.abs(mi).sum(axis=0).max() + np.abs(mi).sum(axis=1).max()
    if list(a.symbols) != list(b.symbols):
        bad.append("symbols %s vs %s" % (list(a.symbols), list(b.symbols)))
    if not within_decimals(a.cell, b.cell, 15, sl):
        bad.append("lattice differs by %.3g" % maxdiff(a.cell, b.cell))
    if np.shape(a.scaled_positions) != np.shape(b.scaled_positions):
        bad.append("number of atoms %d vs %d" % (len(a.scaled_positions), len(b.scaled_positions)))
    elif mat is None:
        # the unit cell is the text itself: the same lattice images of the atoms, not only the same crystal
        if not within_decimals(a.scaled_positions, b.scaled_positions, 15, sp):
            bad.append("positions differ by %.3g" % maxdiff(a.scaled_positions, b.scaled_positions))
    else:
        # cells rebuilt by load: the same atoms in the same order; a coordinate may come back as another image of itself
        # (a sub-ulp negative unit-cell coordinate is wrapped to 1.0 by the supercell builder, its printed value -0.0 to 0.0)
        d = np.array(a.scaled_positions, dtype=float) - np.array(b.scaled_positions, dtype=float)
        dm = d - np.rint(d)
        if not within_decimals(dm, np.zeros_like(dm), 15, sp):
            bad.append("positions (atom by atom, modulo lattice vectors) differ by %.3g" % float(np.abs(dm).max()))
        elif np.abs(np.rint(d)).max() > 0:
            run.count("%s: a coordinate is reproduced as another lattice image of itself, 1.0 vs 0.0 (observation, not a verdict)" % what, section="oracle")
    if (a.masses is None) != (b.masses is None) or (a.masses is not None and not within_decimals(a.masses, b.masses, 6)):
        bad.append("masses %s vs %s" % (a.masses, b.masses))
    ma, mb = a.magnetic_moments, b.magnetic_moments
    if (ma is None) != (mb is None) or (ma is not None and not within_decimals(ma, mb, 8)):
        bad.append("magnetic moments %s vs %s" % (ma, mb))
    for t in bad:
        run.violation("Phonopy.save/load", "cell-not-reproduced", "%s: %s" % (what, t), case)
    return not bad


def dataset_equal(a, b):
    """returns list of differences; precision: yaml %20.16f / %21.16f, energies .8f (type 1) .16f (type 2)"""
    if a is None or b is None:
        return [] if (a is None and b is None) else ["dataset %s vs %s" % ("None" if a is None else "present", "None" if b is None else "present")]
    bad = []
    if ("first_atoms" in a) != ("first_atoms" in b):
        return ["dataset type changed"]
    if "first_atoms" in a:
        if int(a["natom"]) != int(b["natom"]) or len(a["first_atoms"]) != len(b["first_atoms"]):
            return ["natom / number of displacements changed"]
        for i, (x, y) in enumerate(zip(a["first_atoms"], b["first_atoms"])):
            if int(x["number"]) != int(y["number"]):
                bad.append("displaced atom %d: %d vs %d" % (i, x["number"], y["number"]))
            if not within_decimals(x["displacement"], y["displacement"], 16):
                bad.append("displacement %d differs by %.3g" % (i, maxdiff(x["displacement"], y["displacement"])))
            if ("forces" in x) != ("forces" in y):
                bad.append("forces of entry %d %s" % (i, "lost" if "forces" in x else "invented"))
            elif "forces" in x and not within_decimals(x["forces"], y["forces"], 16):
                bad.append("forces %d differ by %.3g" % (i, maxdiff(x["forces"], y["forces"])))
            if ("supercell_energy" in x) != ("supercell_energy" in y):
                bad.append("supercell_energy of entry %d %s" % (i, "lost" if "supercell_energy" in x else "invented"))
            elif "supercell_energy" in x and not within_decimals(x["supercell_energy"], y["supercell_energy"], 8):
                bad.append("supercell_energy %d: %r vs %r" % (i, x["supercell_energy"], y["supercell_energy"]))
    else:
        for key, k in (("displacements", 16), ("forces", 16), ("supercell_energies", 16)):
            if (key in a) != (key in b):
                bad.append("%s %s" % (key, "lost" if key in a else "invented"))
            elif key in a and not within_decimals(a[key], b[key], k):
                bad.append("%s differ by %.3g" % (key, maxdiff(a[key], b[key])))
        extra = set(a) - set(b) - {"displacements", "forces", "supercell_energies"}
        if extra:
            bad.append("keys lost: %s" % sorted(extra))
    return bad


def nac_equal(a, b, kf=6):
    if a is None or b is None:
        return [] if (a is None and b is None) else ["nac_params %s vs %s" % ("None" if a is None else "present", "None" if b is None else "present")]
    bad = []
    if not within_decimals(a["born"], b["born"], 15):
        bad.append("Born charges differ by %.3g" % maxdiff(a["born"], b["born"]))
    if not within_decimals(a["dielectric"], b["dielectric"], 15):
        bad.append("dielectric constant differs by %.3g" % maxdiff(a["dielectric"], b["dielectric"]))
    if a.get("method", "gonze").lower() != b.get("method", "gonze").lower():
        bad.append("method %s vs %s" % (a.get("method"), b.get("method")))
    return bad


DUMPER_DEFAULTS = {}


def class_defaults():
    """the class-level default dumper settings of every PhonopyYaml dumper class"""
    from phonopy.interface import phonopy_yaml as PY

    out = {}
    for name in dir(PY):
        obj = getattr(PY, name)
        if isinstance(obj, type):
            for attr in ("_default_dumper_settings", "default_settings", "_default_settings"):
                d = obj.__dict__.get(attr)
                if isinstance(d, dict):
                    out["%s.%s" % (name, attr)] = dict(d)
    return out


def roundtrip(run, lines, meta, ph, v, case):
    """one Phonopy.save -> phonopy.load round trip of `ph` with settings v["settings"], compared with `ph` itself"""
    import phonopy
    from phonopy.interface.phonopy_yaml import PhonopyYaml

    if not DUMPER_DEFAULTS:
        DUMPER_DEFAULTS.update(class_defaults())
    # the dict the caller hands to save(): his own object when given (it may be reused across saves)
    caller = v.get("settings_object")
    if caller is None:
        caller = dict(v["settings"])
    before = _copy.deepcopy(caller)
    st = dict(v["settings"])         # what the caller asked for (the content he put into the dict)
    with TmpDir():
        fn = ph.save("phonopy_params.yaml", settings=caller, compression=v["compression"])
        if caller != before:
            # not a violation of C16 by itself (the property speaks about what is reloaded): recorded, and the
            # shared-dict sequences below decide whether a later save/reload is affected
            run.count("save() modified the settings dict handed in (observation, not a verdict)", section="oracle")
            run.sample(dict(kind="caller settings dict modified by save()", before=before, after=dict(caller)), limit=4)
        if (v["compression"] is not False) != fn.endswith(".xz"):
            # the name is not part of the property (the reload below is): an observation
            run.count("save() returned %s for compression=%r (observation, not a verdict)" % ("a .xz name" if fn.endswith(".xz") else "a plain name", v["compression"]), section="oracle")
        # ---- what was written (content flags) vs the model of save
        y = PhonopyYaml()
        y.read(fn)
        ydata = (int(y.nac_params is not None), int(y.nac_params is not None and "factor" in y.nac_params), ds_flag(y.dataset),
                 int(y.force_constants is not None), CALC[y.calculator])
        obj_tok = "%s %d %d %d %s" % (ds_flag(ph.dataset), int(ph.force_constants is not None), int(ph.nac_params is not None),
                                      int(ph.nac_params is not None and "factor" in ph.nac_params), CALC[ph.calculator])
        lines.append("save %s %s" % (settings_tokens(st), obj_tok))
        meta.append(("save", case, "%d %d %s %d %s" % ydata))
        # ---- load it back in the (otherwise empty) directory
        is_compact = ph.force_constants is not None and ph.force_constants.shape[0] != ph.force_constants.shape[1]
        type2_forces = ph.dataset is not None and "displacements" in ph.dataset and "forces" in ph.dataset and int(st.get("force_sets", True))
        written_fc = bool(ydata[3])
        kw = dict(is_compact_fc=is_compact, log_level=0)
        if type2_forces and not written_fc:
            kw["produce_fc"] = False   # symfc / alm are not available: type-2 forces cannot be turned into force constants here
        ph2 = phonopy.load(fn, **kw)
        l_obj = "%s %d %d %d %s" % (ds_flag(ph2.dataset), int(ph2.force_constants is not None), int(ph2.nac_params is not None),
                                    int(ph2.nac_params is not None and "factor" in ph2.nac_params), CALC[ph2.calculator])
        if "produce_fc" not in kw:
            lines.append("reload %s %s" % (settings_tokens(st), obj_tok))
            meta.append(("reload", case, l_obj))
        run.count("save/load round trips", section="oracle")

        # ---- the property: what comes back equals what was written, to the printed precision
        ok = cells_equal(run, ph.unitcell, ph2.unitcell, "unit cell", case)
        ok &= cells_equal(run, ph.supercell, ph2.supercell, "supercell", case, ph.supercell_matrix)
        ok &= cells_equal(run, ph.primitive, ph2.primitive, "primitive cell", case, ph.primitive_matrix)
        if not np.array_equal(ph.supercell_matrix, ph2.supercell_matrix):
            run.violation("Phonopy.save/load", "matrix-not-reproduced", "supercell matrix", case)
        if not within_decimals(ph.primitive_matrix, ph2.primitive_matrix, 15):
            run.violation("Phonopy.save/load", "matrix-not-reproduced", "primitive matrix", case)
        if ph2.calculator != ph.calculator:
            run.violation("Phonopy.save/load", "calculator-not-reproduced", "%r vs %r" % (ph.calculator, ph2.calculator), case)
        if abs(ph2.unit_conversion_factor - ph.unit_conversion_factor) > 1e-12 * abs(ph.unit_conversion_factor):
            run.violation("Phonopy.save/load", "factor-not-default", "frequency factor %r vs %r" % (ph.unit_conversion_factor, ph2.unit_conversion_factor), case)
        # dataset (as far as the settings wrote it)
        exp_ds = ph.dataset
        if exp_ds is not None and not (st.get("force_sets", True) or st.get("displacements", True)):
            exp_ds = None
        elif exp_ds is not None and not st.get("force_sets", True):
            exp_ds = _copy.deepcopy(exp_ds)
            if "first_atoms" in exp_ds:
                for d in exp_ds["first_atoms"]:
                    d.pop("forces", None)
            else:
                exp_ds.pop("forces", None)
        for t in dataset_equal(exp_ds, ph2.dataset):
            run.violation("Phonopy.save/load", "dataset-not-reproduced", t, case)
        # NAC
        exp_nac = ph.nac_params if (st.get("born_effective_charge", True) and st.get("dielectric_constant", True)) else None
        for t in nac_equal(exp_nac, ph2.nac_params):
            run.violation("Phonopy.save/load", "nac-not-reproduced", t, case)
        if exp_nac is not None and ph2.nac_params is not None:
            f1 = exp_nac.get("factor", None)
            f2 = ph2.nac_params.get("factor", None)
            from phonopy.interface.calculator import get_default_physical_units

            if f1 is None:
                f1 = get_default_physical_units(ph.calculator)["nac_factor"]
            if f2 is None or not within_decimals(f1, f2, 6):
                run.violation("Phonopy.save/load", "nac-factor-not-reproduced", "unit_conversion_factor %r vs %r" % (f1, f2), case)
        # force constants: an object that has them must have them again after the round trip, unless the
        # settings exclude them explicitly (and the forces they could be re-derived from)
        forces_excluded = ds_flag(ph.dataset) == "forces" and not st.get("force_sets", True)
        if (ph.force_constants is not None and ph2.force_constants is None and st.get("force_constants") is not False
                and not forces_excluded and "produce_fc" not in kw):
            run.violation("Phonopy.save/load", "fc-lost",
                          "the saved object has force constants, the reloaded one has none (dataset: %s, settings %r, force constants %s the file)"
                          % (ds_flag(ph.dataset), st, "in" if written_fc else "not in"), case)
        if written_fc:
            if ph2.force_constants is None or not within_decimals(ph.force_constants, ph2.force_constants, 15):
                run.violation("Phonopy.save/load", "fc-not-reproduced",
                              "force constants differ by %.3g" % (float("inf") if ph2.force_constants is None else maxdiff(ph.force_constants, ph2.force_constants)), case)
        # phonons
        if ph.force_constants is not None and ph2.force_constants is not None and (written_fc or v["fc"] == "produced"):
            same_nac = (ph.nac_params is None) == (ph2.nac_params is None)
            if same_nac:
                ph.run_qpoints(QS)
                ph2.run_qpoints(QS)
                f1, f2 = ph.qpoints.frequencies, ph2.qpoints.frequencies
                tol = 2e-6 * max(1.0, np.abs(f1).max()) + 1e-4 * (v["scale"] < 1e-3)
                nacf_ok = True
                if ph.nac_params is not None:
                    # the NAC factor is written with %f: 6 decimals
                    fa = ph.nac_params.get("factor", 1.0) or 1.0
                    nacf_ok = abs(fa) > 1e-2
                if nacf_ok and maxdiff(f1, f2) > tol:
                    run.violation("Phonopy.save/load", "phonons-not-reproduced",
                                  "frequencies differ by %.3g THz" % maxdiff(f1, f2), case)
                run.count("phonons compared after reload", section="oracle")
    # ---- a dump must not change the class-level defaults of the dumpers
    now = class_defaults()
    if now != DUMPER_DEFAULTS:
        changed = {k: (DUMPER_DEFAULTS.get(k), now.get(k)) for k in set(now) | set(DUMPER_DEFAULTS) if now.get(k) != DUMPER_DEFAULTS.get(k)}
        # not a violation of C16 by itself: recorded; the multi-dump sequences decide whether a later save/reload suffers
        run.count("a save changed class-level default dumper settings (observation, not a verdict)", section="oracle")
        run.sample(dict(kind="class-level dumper defaults changed by a save", settings=v["settings"], changed=repr(changed)[:400]), limit=4)
        DUMPER_DEFAULTS.clear()
        DUMPER_DEFAULTS.update(now)   # report once; later dumps are judged by their own reloads


# --------------------------------------------------------------------------
# part B: Phonopy.save -> phonopy.load
# --------------------------------------------------------------------------

def ds_flag(ds):
    """the harness's own reading of a dataset (independent of phonopy's forces_in_dataset, which part C ties to the Lean model):
    a type-1 dataset has forces when EVERY displaced supercell has them, a type-2 dataset when the force array is there"""
    if ds is None:
        return "absent"
    if "first_atoms" in ds:
        return "forces" if all("forces" in d for d in ds["first_atoms"]) else "disp"
    return "forces" if "forces" in ds else "disp"


def settings_tokens(st):
    fcs = st.get("force_constants", None)
    return "%d %d %s %d %d" % (int(st.get("force_sets", True)), int(st.get("displacements", True)),
                               "-" if fcs is None else str(int(fcs)), int(st.get("born_effective_charge", True)),
                               int(st.get("dielectric_constant", True)))


CALC = {None: "-", "vasp": "vasp", "qe": "qe"}


def part_saveload(run, rng, rs, lines, meta):
    import phonopy
    from phonopy.harmonic.force_constants import compact_fc_to_full_fc
    from phonopy.interface.phonopy_yaml import PhonopyYaml

    thorough = run.tier == "thorough"
    variants = []
    crystals = [("nacl_prim", [2, 1, 1]), ("cscl", [1, 1, 2])]
    # "t1-partial": forces on the first displaced supercell only (a half-filled dataset: not a dataset with forces)
    datasets = [None, "t1", "t1-disp", "t1-energy", "t1-partial", "t2", "t2-disp", "t2-energy", "t2-seed"]
    fcs = [None, "full", "compact", "produced"]
    settings_list = [{}, {"force_constants": True}, {"force_constants": False}, {"force_sets": False},
                     {"force_sets": False, "displacements": False}, {"born_effective_charge": False},
                     {"dielectric_constant": False}, {"force_constants": True, "force_sets": False}]
    scales = [1.0, 1.0, 1e-12, 1e-6, 1e3, 1e8]
    n = 400 if thorough else 110
    # systematic part: every dataset kind x fc kind with default settings; then random product
    base = [(d, f) for d in datasets for f in fcs if not (f == "produced" and d not in ("t1", "t1-energy"))]
    for i in range(n):
        cr = crystals[i % len(crystals)]
        if i < len(base):
            d, f = base[i]
            st = {}
        else:
            d, f = rng.choice(base)
            st = rng.choice(settings_list)
        v = dict(crystal=cr[0], smat=cr[1], dataset=d, fc=f, settings=st,
                 nac=rng.choice([None, "default", "custom", "nofactor"]), nac_factor=rng.choice([2.0, 14.399652, 27.5, 1.5e-3]),
                 nac_method=rng.choice([None, "gonze", "wang"]),
                 compression=rng.choice([False, False, True, "xz"]), extended=rng.random() < 0.4,
                 masses=rng.random() < 0.4, magmoms=rng.choice([None, None, "collinear", "noncollinear"]),
                 calculator=rng.choice([None, None, "vasp", "qe"]), scale=rng.choice(scales), fc_noise=rng.random() < 0.3)
        if v["fc"] == "produced":
            v["scale"] = 1.0
        if v["nac"] == "nofactor" and v["fc"] is not None:
            v["nac"] = "default"   # a dynamical matrix needs nac_params["factor"]
        variants.append(v)

    for v in variants:
        case = dict(v)
        t0 = time.time()
        ph = make_object(rng, rs, v)
        roundtrip(run, lines, meta, ph, v, case)
        run.case(("saveload", repr(sorted((k, str(x)) for k, x in v.items()))), nontrivial=v["dataset"] is not None or v["fc"] is not None)
        run.count("saveload dataset=%s" % v["dataset"])
        run.count("saveload fc=%s" % v["fc"])
        run.count("saveload scale=%g" % v["scale"])
        run.count("saveload compression=%r" % (v["compression"],))
        for kx in ("extended", "masses"):
            if v[kx]:
                run.count("saveload %s" % kx)
        if v["magmoms"]:
            run.count("saveload magmoms=%s" % v["magmoms"])
        run.sample(dict(kind="save/load", **{k: (x if not isinstance(x, dict) else dict(x)) for k, x in v.items()}), limit=3)


# --------------------------------------------------------------------------
# part E: which source wins (phonopy.load vs the decision model)
# --------------------------------------------------------------------------

def present_tokens(P):
    return " ".join([str(int(P["argNac"])), str(int(P["argNacHasFactor"])), str(int(P["argBornFile"])), str(int(P["argBornFileHasFactor"])),
                     str(int(P["argForceSets"])), str(int(P["argFcFile"])), CALC[P["argCalculator"]], str(int(P["argFactor"])),
                     str(int(P["isNac"])), str(int(P["produceFc"])), str(int(P["yamlNac"])), str(int(P["yamlNacHasFactor"])),
                     P["yamlDataset"], str(int(P["yamlFc"])), CALC[P["yamlCalculator"]], str(int(P["fileForceSets"])),
                     str(int(P["fileForceConstants"])), str(int(P["fileHdf5"])), str(int(P["fileBorn"])), str(int(P["fileBornHasFactor"]))])


def part_priority(run, rng, rs, lines, meta):
    import phonopy
    from phonopy import file_IO
    from phonopy.interface.calculator import get_default_physical_units

    thorough = run.tier == "thorough"
    n = 300 if thorough else 70
    v0 = dict(crystal="nacl_prim", smat=[2, 1, 1], dataset=None, fc=None, settings={}, nac=None, calculator=None)
    for i in range(n):
        # ---- what is present
        P = dict(
            argNac=rng.random() < 0.25, argNacHasFactor=rng.random() < 0.5, argBornFile=rng.random() < 0.2, argBornFileHasFactor=rng.random() < 0.5,
            argForceSets=rng.random() < 0.3, argFcFile=rng.random() < 0.3, argCalculator=rng.choice([None, None, "vasp", "qe"]),
            argFactor=rng.random() < 0.3, isNac=rng.random() < 0.75, produceFc=rng.random() < 0.8,
            yamlNac=rng.random() < 0.5, yamlNacHasFactor=rng.random() < 0.6, yamlDataset=rng.choice(["absent", "disp", "forces"]),
            yamlFc=rng.random() < 0.35, yamlCalculator=rng.choice([None, "vasp", "qe"]),
            fileForceSets=rng.random() < 0.4, fileForceConstants=rng.random() < 0.3, fileHdf5=rng.random() < 0.3,
            fileBorn=rng.random() < 0.4, fileBornHasFactor=rng.random() < 0.5)
        if i == 0:   # the docstring's first rule: the filename argument against force constants in the yaml file
            P.update(argFcFile=True, yamlFc=True)
        if not P["yamlNac"]:
            P["yamlNacHasFactor"] = False
        hdf5_arg = rng.random() < 0.5
        # options and layouts that decide what is recomputed, not which source wins
        O = dict(isCompactFc=rng.random() < 0.5, symmetrizeFc=rng.random() < 0.6, fcCalculator=rng.choice([None, None, "traditional"]),
                 yamlFcCompact=rng.random() < 0.4, argFcCompact=rng.random() < 0.4, fileFcCompact=rng.random() < 0.4,
                 hdf5Compact=rng.random() < 0.4, datasetType2=(P["yamlDataset"] == "forces" and rng.random() < 0.15))
        # ---- build the yaml file and the decoys; every source carries distinguishable values
        v = dict(v0)
        v["calculator"] = P["yamlCalculator"]
        v["dataset"] = {"absent": None, "disp": "t1-disp", "forces": "t2" if O["datasetType2"] else "t1"}[P["yamlDataset"]]
        v["fc"] = ("compact" if O["yamlFcCompact"] else "full") if P["yamlFc"] else None
        v["nac"] = None if not P["yamlNac"] else "custom"
        v["nac_factor"] = 3.25
        ph = make_object(rng, rs, v)
        fc0 = gen.pair_fc(ph.supercell, 4.6)
        from phonopy.harmonic.force_constants import compact_fc_to_full_fc, full_fc_to_compact_fc

        p2s = np.array(ph.primitive.p2s_map, dtype="intc")

        def lay(fcfull, compact):
            return np.array(full_fc_to_compact_fc(ph.primitive, fcfull), dtype="double", order="C") if compact else fcfull
        if ph.dataset is not None and "first_atoms" in ph.dataset and P["yamlDataset"] == "forces":
            # noisy forces: symmetrisation of produced force constants is then visible
            ds_ = _copy.deepcopy(ph.dataset)
            for d in ds_["first_atoms"]:
                d["forces"] = d["forces"] + rs.normal(scale=1e-3, size=d["forces"].shape)
            ph.dataset = ds_
        units_y = get_default_physical_units(P["argCalculator"] if P["argCalculator"] is not None else P["yamlCalculator"])
        marks = {"yaml": 1.0, "arg": 2.0, "FORCE_CONSTANTS": 3.0, "hdf5": 4.0}
        dmarks = {"yaml": 0.03, "arg": 0.05, "FORCE_SETS": 0.07}
        emarks = {"yaml": None, "arg": 5.0, "born-arg": 6.0, "BORN": 7.0}
        case = dict(present=P, options=O, hdf5_arg=hdf5_arg)
        with TmpDir():
            settings = {"force_constants": bool(P["yamlFc"])}
            fn = ph.save("in.yaml", settings=settings)
            if P["yamlNac"] and not P["yamlNacHasFactor"]:
                # a yaml file whose nac section has no unit_conversion_factor (as written by older versions / by hand)
                txt = [ln for ln in open(fn).read().split("\n") if not ln.startswith("  unit_conversion_factor:")]
                with open(fn, "w") as w:
                    w.write("\n".join(txt))
            yeps = None if ph.nac_params is None else float(ph.nac_params["dielectric"][0, 0])

            def force_sets_file(name, dist):
                p = make_object(rng, rs, dict(v0))
                p.generate_displacements(distance=dist)
                ds = _copy.deepcopy(p.dataset)
                for d in ds["first_atoms"]:
                    d["forces"] = -np.einsum("jab,b->ja", fc0[d["number"]], d["displacement"]) + rs.normal(scale=1e-3, size=(len(p.supercell), 3))
                file_IO.write_FORCE_SETS(ds, filename=name)

            def born_file(name, eps, with_factor):
                z = np.array([np.eye(3) * 1.25, -np.eye(3) * 1.25])
                blines = file_IO.get_BORN_lines(ph.primitive, z, np.eye(3) * eps)
                if with_factor:
                    blines[0] = "9.5"
                with open(name, "w") as w:
                    w.write("\n".join(blines))

            kw = dict(is_nac=P["isNac"], produce_fc=P["produceFc"], is_compact_fc=O["isCompactFc"], symmetrize_fc=O["symmetrizeFc"], log_level=0)
            if O["fcCalculator"] is not None:
                kw["fc_calculator"] = O["fcCalculator"]
            if P["argNac"]:
                nacarg = {"born": np.array([np.eye(3) * 1.5, -np.eye(3) * 1.5]), "dielectric": np.eye(3) * emarks["arg"]}
                if P["argNacHasFactor"]:
                    nacarg["factor"] = 8.5
                kw["nac_params"] = nacarg
            if P["argBornFile"]:
                born_file("BORN.arg", emarks["born-arg"], P["argBornFileHasFactor"])
                kw["born_filename"] = "BORN.arg"
            if P["fileBorn"]:
                born_file("BORN", emarks["BORN"], P["fileBornHasFactor"])
            if P["argForceSets"]:
                force_sets_file("FS.arg", dmarks["arg"])
                kw["force_sets_filename"] = "FS.arg"
            if P["fileForceSets"]:
                force_sets_file("FORCE_SETS", dmarks["FORCE_SETS"])
            if P["argFcFile"]:
                if hdf5_arg:
                    file_IO.write_force_constants_to_hdf5(lay(fc0 * marks["arg"], O["argFcCompact"]), filename="fc.arg.hdf5", p2s_map=p2s)
                    kw["force_constants_filename"] = "fc.arg.hdf5"
                else:
                    file_IO.write_FORCE_CONSTANTS(lay(fc0 * marks["arg"], O["argFcCompact"]), filename="FC.arg", p2s_map=p2s)
                    kw["force_constants_filename"] = "FC.arg"
            if P["fileForceConstants"]:
                file_IO.write_FORCE_CONSTANTS(lay(fc0 * marks["FORCE_CONSTANTS"], O["fileFcCompact"]), filename="FORCE_CONSTANTS", p2s_map=p2s)
            if P["fileHdf5"]:
                file_IO.write_force_constants_to_hdf5(lay(fc0 * marks["hdf5"], O["hdf5Compact"]), filename="force_constants.hdf5", p2s_map=p2s)
            if P["argCalculator"] is not None:
                kw["calculator"] = P["argCalculator"]
            if P["argFactor"]:
                kw["factor"] = 123.5
            raised = False
            try:
                ph2 = phonopy.load(fn, **kw)
            except Exception as e:
                if type(e).__name__ != "ForceCalculatorRequiredError":
                    raise
                raised = True
            opt_req = "%d %d %s %d %d %d %d %d" % (int(O["isCompactFc"]), int(O["symmetrizeFc"]), O["fcCalculator"] or "-", int(O["yamlFcCompact"]),
                                                   int(O["argFcCompact"]), int(O["fileFcCompact"]), int(O["hdf5Compact"]), int(O["datasetType2"]))
            if raised:
                lines.append("recompute " + present_tokens(P) + " " + opt_req)
                meta.append(("recompute", case, "- 0 0 0 %s 1" % (O["fcCalculator"] or "traditional")))
                run.case(("priority-raise", present_tokens(P), opt_req), nontrivial=True)
                run.count("priority cases (load raises ForceCalculatorRequiredError)")
                continue

            # ---- which source won
            got = {}
            got["calculator"] = CALC[ph2.calculator]
            got["factor"] = "arg" if abs(ph2.unit_conversion_factor - 123.5) < 1e-9 else (
                "default" if abs(ph2.unit_conversion_factor - units_y["factor"]) < 1e-9 * units_y["factor"] else "?%r" % ph2.unit_conversion_factor)
            nacp = ph2.nac_params
            if nacp is None:
                got["nac"], got["nacFactor"] = "none", "na"
            else:
                e = float(nacp["dielectric"][0, 0])
                src = "?"
                for kname, mark in emarks.items():
                    if mark is not None and abs(e - mark) < 1e-6:
                        src = kname
                if src == "?" and yeps is not None and abs(e - yeps) < 1e-9:
                    src = "yaml"
                got["nac"] = src
                fexp = {"arg": 8.5, "born-arg": 9.5, "BORN": 9.5, "yaml": 3.25}.get(src)
                fnac = nacp.get("factor")
                if fnac is not None and fexp is not None and abs(fnac - fexp) < 1e-5:
                    got["nacFactor"] = "params"
                elif fnac is not None and abs(fnac - units_y["nac_factor"]) < 1e-9 * abs(units_y["nac_factor"]):
                    got["nacFactor"] = "default"
                else:
                    got["nacFactor"] = "?%r" % fnac
            ds = ph2.dataset
            if ds is None:
                got["dataset"], got["datasetForces"] = "none", "0"
            elif "first_atoms" not in ds:
                # type 2: only the yaml file carries one in these cases
                got["dataset"] = "yaml"
                got["datasetForces"] = "1" if "forces" in ds else "0"
            else:
                dist = float(np.linalg.norm(ds["first_atoms"][0]["displacement"]))
                src = "?"
                for kname, mark in dmarks.items():
                    if abs(dist - mark) < 1e-6:
                        src = kname
                got["dataset"] = src
                got["datasetForces"] = "1" if all("forces" in d for d in ds["first_atoms"]) else "0"
            fc = ph2.force_constants
            if fc is None:
                got["fc"] = "none"
            else:
                if fc.shape[0] != fc.shape[1]:
                    from phonopy.harmonic.force_constants import compact_fc_to_full_fc

                    fc = compact_fc_to_full_fc(ph2.primitive, fc)
                ratio = float(np.sum(fc * fc0) / np.sum(fc0 * fc0))
                src = "?%.4f" % ratio
                for kname, mark in marks.items():
                    if abs(ratio - mark) < 1e-6 and maxdiff(fc, fc0 * mark) < 1e-8 * mark * np.abs(fc0).max() + 1e-12:
                        src = kname
                symd = 0
                if src.startswith("?") or (src == "yaml" and not P["yamlFc"]):
                    # produced from the dataset that won: which of the two recipes?
                    for sym_ in (False, True):
                        pr = make_object(rng, rs, dict(v0))
                        pr.dataset = ph2.dataset
                        pr.produce_force_constants()
                        if sym_:
                            pr.symmetrize_force_constants()
                        if maxdiff(fc, pr.force_constants) < 1e-9:
                            src, symd = "produced", int(sym_)
                            if not sym_:
                                pr.symmetrize_force_constants()
                                if maxdiff(fc, pr.force_constants) < 1e-9:
                                    src = "produced (symmetrisation invisible)"
                            break
                got["fc"] = src
                layout = "compact" if ph2.force_constants.shape[0] != ph2.force_constants.shape[1] else "full"
                src_layout = {"yaml": O["yamlFcCompact"], "arg": O["argFcCompact"], "FORCE_CONSTANTS": O["fileFcCompact"], "hdf5": O["hdf5Compact"]}.get(src)
                conv = 0 if src_layout is None else int(("compact" if src_layout else "full") != layout)
                got["recompute"] = "%s %d %d %d %s 0" % (layout, conv, int(src == "produced"), symd,
                                                        (O["fcCalculator"] or "traditional") if src == "produced" else "-")
            if ph2.force_constants is None:
                got["recompute"] = "- 0 0 0 - 0"
            lines.append("recompute " + present_tokens(P) + " " + opt_req)
            meta.append(("recompute", case, got.pop("recompute")))
        req = present_tokens(P)
        lines.append("load " + req)
        meta.append(("load", case, got))
        run.case(("priority", req), nontrivial=True)
        run.count("priority cases")


# --------------------------------------------------------------------------
# part A: file_IO writers / parsers
# --------------------------------------------------------------------------

def part_fileio(run, rng, rs, lines, meta):
    from phonopy import file_IO
    from phonopy.harmonic.force_constants import full_fc_to_compact_fc

    thorough = run.tier == "thorough"
    n = 200 if thorough else 40
    scales = [1.0, 1e-12, 1e-8, 1e-3, 10.0, 1e3, 99999.0, 1e5, 1e6, 1e8]
    v0 = dict(crystal="nacl_prim", smat=[2, 1, 1], dataset=None, fc=None, settings={}, nac=None, calculator=None)
    ph = make_object(rng, rs, v0)
    ns, npa = len(ph.supercell), len(ph.primitive)
    p2s = np.array(ph.primitive.p2s_map, dtype="intc")
    for i in range(n):
        scale = scales[i % len(scales)]
        case = dict(scale=scale, index=i)
        with TmpDir():
            # ---- FORCE_SETS type 1: displacement %20.16f, forces %15.10f (blank-separated)
            nd = rng.randint(1, 3)
            ds1 = {"natom": ns, "first_atoms": [
                {"number": rng.randrange(ns), "displacement": scaled_values(rs, 3, min(scale, 1.0) * 0.05),
                 "forces": scaled_values(rs, (ns, 3), scale)} for _ in range(nd)]}
            file_IO.write_FORCE_SETS(ds1, filename="FORCE_SETS")
            back = file_IO.parse_FORCE_SETS(natom=ns, filename="FORCE_SETS")
            bad = []
            if len(back["first_atoms"]) != nd or back["natom"] != ns:
                bad.append("shape")
            else:
                for x, y in zip(ds1["first_atoms"], back["first_atoms"]):
                    if x["number"] != y["number"] or not within_decimals(x["displacement"], y["displacement"], 16) or not within_decimals(x["forces"], y["forces"], 10):
                        bad.append("entry differs: displacement %.3g forces %.3g" % (maxdiff(x["displacement"], y["displacement"]), maxdiff(x["forces"], y["forces"])))
            for t in bad:
                run.violation("file_IO.write_FORCE_SETS/parse_FORCE_SETS", "type1-not-reproduced", t, dict(case, dataset=ds1))
            # through to_type2
            b2 = file_IO.parse_FORCE_SETS(natom=ns, filename="FORCE_SETS", to_type2=True)
            from phonopy.structure.dataset import get_displacements_and_forces

            dd, ff = get_displacements_and_forces(back)
            if maxdiff(dd, b2["displacements"]) != 0 or maxdiff(ff, b2["forces"]) != 0:
                run.violation("file_IO.parse_FORCE_SETS(to_type2=True)", "conversion", "differs from get_displacements_and_forces of the parsed dataset", case)

            # ---- FORCE_SETS type 2: ("%15.8f" * 6), no separator
            nsnap = rng.randint(1, 3)
            D = scaled_values(rs, (nsnap, ns, 3), min(scale, 1.0) * 0.05)
            Fv = scaled_values(rs, (nsnap, ns, 3), scale)
            ds2 = {"displacements": D, "forces": Fv}
            file_IO.write_FORCE_SETS(ds2, filename="FORCE_SETS2")
            allvals = np.concatenate([D.ravel(), Fv.ravel()])
            for x in (float(np.abs(allvals).max()) * np.sign(allvals[np.abs(allvals).argmax()]),):
                lines.append("fits 15 8 %s" % q(x))
                txt = "%15.8f" % x
                meta.append(("fits", dict(W=15, k=8, x=x), txt[0] == " "))
            try:
                b = file_IO.parse_FORCE_SETS(natom=ns, filename="FORCE_SETS2")
                ok = within_decimals(b["displacements"], D, 8) and within_decimals(b["forces"], Fv, 8)
                err = None if ok else "values differ: displacements %.3g forces %.3g" % (maxdiff(b["displacements"], D), maxdiff(b["forces"], Fv))
            except Exception as e:
                err = "%s: %s" % (type(e).__name__, str(e)[:120])
            if err:
                big = any(("%15.8f" % x)[0] != " " for x in allvals)
                run.violation("file_IO.write_FORCE_SETS/parse_FORCE_SETS", "type2-fields-fused" if big else "type2-not-reproduced",
                              "type-2 FORCE_SETS written by phonopy does not parse back (%s)" % err,
                              dict(case, max_abs=float(np.abs(allvals).max()), first_line=open("FORCE_SETS2").readline().rstrip("\n")))
            run.count("FORCE_SETS round trips", section="oracle")

            # ---- FORCE_CONSTANTS full and compact: ("%22.15f" * 3)
            fcf = scaled_values(rs, (ns, ns, 3, 3), scale)
            for kind in ("full", "compact"):
                fc = fcf if kind == "full" else np.array(fcf[p2s], dtype="double", order="C")
                file_IO.write_FORCE_CONSTANTS(fc, filename="FORCE_CONSTANTS", p2s_map=p2s)
                x = float(fc.ravel()[np.abs(fc).argmax()])
                lines.append("fits 22 15 %s" % q(x))
                meta.append(("fits", dict(W=22, k=15, x=x), ("%22.15f" % x)[0] == " "))
                try:
                    b = file_IO.parse_FORCE_CONSTANTS(filename="FORCE_CONSTANTS", p2s_map=p2s)
                    err = None if within_decimals(b, fc, 15) else "values differ by %.3g" % maxdiff(b, fc)
                except Exception as e:
                    err = "%s: %s" % (type(e).__name__, str(e)[:120])
                if err:
                    big = any(("%22.15f" % x)[0] != " " for x in fc.ravel())
                    run.violation("file_IO.write_FORCE_CONSTANTS/parse_FORCE_CONSTANTS", "fields-fused" if big else "not-reproduced",
                                  "%s FORCE_CONSTANTS written by phonopy does not parse back (%s)" % (kind, err), dict(case, kind=kind, max_abs=float(np.abs(fc).max())))
                # ---- hdf5 (lossless), with compression filters and physical unit
                comp = rng.choice([None, "gzip", "lzf", 4])
                unit = rng.choice([None, "eV/angstrom^2"])
                file_IO.write_force_constants_to_hdf5(fc, filename="fc.hdf5", p2s_map=p2s, physical_unit=unit, compression=comp)
                b, u = file_IO.read_force_constants_hdf5(filename="fc.hdf5", p2s_map=p2s, return_physical_unit=True)
                if b.shape != fc.shape or maxdiff(b, fc) != 0 or u != unit:
                    run.violation("file_IO.write_force_constants_to_hdf5/read_force_constants_hdf5", "not-reproduced",
                                  "hdf5 %s force constants (compression=%r, unit=%r) differ by %.3g, unit %r" % (kind, comp, unit, maxdiff(b, fc), u), case)
                run.count("FORCE_CONSTANTS/hdf5 round trips", section="oracle")

            # ---- BORN: %13.8f, symmetrised, independent atoms only
            z = 1.0 + rs.uniform(0, 1)
            bs = min(scale, 1e3) if scale >= 1 else max(scale, 1e-6)
            born = np.array([np.eye(3) * z * bs, -np.eye(3) * z * bs])
            eps = np.eye(3) * (2.0 + rs.uniform(0, 1)) * bs
            blines = file_IO.get_BORN_lines(ph.primitive, born, eps)
            nb = file_IO.parse_BORN_from_strings("\n".join(blines), ph.primitive)
            if nb is None or not within_decimals(nb["born"], born, 8) or not within_decimals(nb["dielectric"], eps, 8):
                run.violation("file_IO.get_BORN_lines/parse_BORN", "not-reproduced", "BORN text does not parse back to the tensors written", dict(case, born=born, epsilon=eps))
            run.count("BORN round trips", section="oracle")
        run.case(("fileio", i, scale), nontrivial=True)
        run.count("fileio scale=%g" % scale)


# --------------------------------------------------------------------------
# part F: BORN files on crystals whose dependent atoms are reached by 3-/4-/6-fold operations
# --------------------------------------------------------------------------

def quartz_cell():
    """alpha-quartz-like cell (P3_1 2 1): Si on 3a, O on the general position 6c"""
    from phonopy.structure.atoms import PhonopyAtoms

    a, c = 4.91, 5.40
    lat = np.array([[a, 0, 0], [-a / 2, a * np.sqrt(3) / 2, 0], [0, 0, c]])
    u = 0.4697
    x, y, z = 0.4135, 0.2669, 0.1191
    si = [[u, 0, 0], [0, u, 1 / 3], [-u, -u, 2 / 3]]
    ox = [[x, y, z], [-y, x - y, z + 1 / 3], [-x + y, -x, z + 2 / 3], [y, x, -z], [x - y, -y, -z + 2 / 3], [-x, -x + y, -z + 1 / 3]]
    return PhonopyAtoms(cell=lat, symbols=["Si"] * 3 + ["O"] * 6, scaled_positions=np.mod(np.array(si + ox), 1.0))


def part_born(run, rng, rs, lines, meta):
    import phonopy
    from phonopy import Phonopy, file_IO
    from phonopy.structure.symmetry import Symmetry, symmetrize_borns_and_epsilon

    thorough = run.tier == "thorough"
    names = ["perovskite", "rutile", "quartz", "wurtzite", "hcp", "nacl_prim", "zincblende_prim", "cscl"]
    # the same crystals described by left-handed / sheared lattice vectors (own random stream: the tensors of the
    # cases above stay what they were): the expansion of the independent atoms' tensors by symmetry must not depend on it
    import random as _random

    rr = _random.Random(16016 + 7919 * run.seed)
    det_minus, det_plus = ["swap12", "negate3", "invert"], ["shear", "cyclic"]
    dependent = ["perovskite", "rutile", "quartz", "wurtzite"]
    names += ["%s~%s" % (rr.choice(dependent), rr.choice(det_minus)), "%s~%s" % (rr.choice(dependent), rr.choice(det_minus + det_plus))]
    if thorough:
        names += ["%s~%s" % (c, m) for c in dependent for m in det_minus + det_plus]
    reps = 4 if thorough else 1
    for name in names:
        base, _, mname = name.partition("~")
        cell = quartz_cell() if base == "quartz" else gen.make_cell(base)[0]
        if mname:
            cell = gen.relabelled_cell(cell, gen.UNIMODULAR[mname])[0]
        ph = Phonopy(cell, supercell_matrix=np.eye(3, dtype=int), primitive_matrix="P", log_level=0)
        prim = ph.primitive
        npa = len(prim)
        sym = Symmetry(prim, symprec=1e-5)
        indep = list(sym.get_independent_atoms())
        rots = sym.symmetry_operations["rotations"]
        mapop = sym.get_map_operations()

        def order(r):
            m, k = np.array(r), 1
            while not np.array_equal(m, np.eye(3, dtype=int)) and k < 12:
                m = m @ np.array(r)
                k += 1
            return k
        dep_orders = sorted({order(rots[mapop[i]]) for i in range(npa) if i not in indep})
        for rep in range(reps):
            born0 = rs.normal(size=(npa, 3, 3))
            eps0 = rs.normal(size=(3, 3)) * 0.3 + np.eye(3) * 3
            born, eps = symmetrize_borns_and_epsilon(born0, eps0, prim, symprec=1e-5)
            # the symmetrised tensors are a fixed point: the expected values after any round trip
            b2, e2 = symmetrize_borns_and_epsilon(born, eps, prim, symprec=1e-5)
            if maxdiff(b2, born) > 1e-12 or maxdiff(e2, eps) > 1e-12:
                # not part of C16's statement; it only means the expected values below are not a fixed point
                run.count("symmetrize_borns_and_epsilon not idempotent on %s (observation, not a verdict)" % name, section="oracle")
            aniso = float(max(np.abs(born[i] - np.eye(3) * np.trace(born[i]) / 3).max() for i in range(npa)))
            case = dict(crystal=name, n_atoms=npa, independent_atoms=[int(i) for i in indep], orders_of_mapping_operations=dep_orders,
                        born=born.tolist(), epsilon=eps.tolist())
            tol = 6  # %13.8f, and rotation of rounded values: compare to 6 decimals ...
            def check(nb, how):
                if nb is None:
                    run.violation("file_IO.get_BORN_lines/parse_BORN", "born-not-reproduced", "%s: BORN text written by phonopy is rejected by the parser" % how, case)
                    return
                db, de = maxdiff(nb["born"], born), maxdiff(nb["dielectric"], eps)
                if db > 5e-8 or de > 5e-8:   # ... i.e. a few units of the 8th printed decimal
                    bad = [int(i) for i in range(npa) if maxdiff(nb["born"][i], born[i]) > 5e-8]
                    run.violation("file_IO.get_BORN_lines/parse_BORN", "born-not-reproduced",
                                  "%s: Born charges differ by %.3g (atoms %s; independent atoms %s), dielectric by %.3g" % (how, db, bad, [int(i) for i in indep], de), case)
            with TmpDir():
                text = "\n".join(file_IO.get_BORN_lines(prim, born, eps))
                check(file_IO.parse_BORN_from_strings(text, prim), "parse_BORN_from_strings")
                file_IO.write_BORN(prim, born, eps, filename="BORN.test")
                check(file_IO.parse_BORN(prim, filename="BORN.test"), "write_BORN/parse_BORN")
                if rep == 0:
                    fn = ph.save("cell.yaml")
                    p2 = phonopy.load(fn, born_filename="BORN.test", produce_fc=False, log_level=0)
                    check(p2.nac_params, "phonopy.load(born_filename=...)")
                    file_IO.write_BORN(prim, born, eps, filename="BORN")
                    p3 = phonopy.load(fn, produce_fc=False, log_level=0)
                    check(p3.nac_params, "phonopy.load with BORN in the current directory")
            run.case(("born", name, rep, born.tobytes()), nontrivial=len(indep) < npa and aniso > 1e-3)
            run.count("BORN crystal %s (dependent atoms mapped by operations of order %s)" % (name, dep_orders))
            run.count("BORN symmetric-crystal round trips", 4 if rep == 0 else 2, section="oracle")


# --------------------------------------------------------------------------
# part G: the generated format table vs what the writers print
# --------------------------------------------------------------------------

def part_formats(run, rng, rs, fmts):
    """every number a file_IO writer prints equals '%.kf' % x with the precision k the table lists for that writer"""
    from phonopy import file_IO

    def prec(site):
        ks = sorted({f["prec"] for f in fmts if f["site"] == site})
        return ks

    ph = make_object(rng, rs, dict(crystal="nacl_prim", smat=[2, 1, 1], dataset=None, fc=None, settings={}, nac=None, calculator=None))
    ns = len(ph.supercell)

    def check(site, lines, values, k):
        toks = [t for ln in lines for t in ln.split() if re.fullmatch(r"-?\d+\.\d+", t)]
        exp = [("%%.%df" % k) % v for v in values]
        if toks != exp:
            run.broke("correspondence", "format table: %s does not print its numbers as %%.%df" % (site, k), dict(first=toks[:3], expected=exp[:3]))
        run.count("format sites checked against real output", section="correspondence")

    D = scaled_values(rs, (1, ns, 3), 0.05)
    Fv = scaled_values(rs, (1, ns, 3), 30.0)
    for site_ in ("file_IO._get_FORCE_SETS_lines_type2", "file_IO.get_FORCE_CONSTANTS_lines", "file_IO._get_FORCE_SETS_lines_type1"):
        if not prec(site_):
            run.count("intermediate hook unavailable: format-table site %s (renamed?); formats judged by the round trips only" % site_, section="correspondence")
    ks = prec("file_IO._get_FORCE_SETS_lines_type2")
    if ks:
        check("file_IO._get_FORCE_SETS_lines_type2", file_IO.get_FORCE_SETS_lines({"displacements": D, "forces": Fv}),
              [v for d, f in zip(D[0], Fv[0]) for v in list(d) + list(f)], ks[0])
    fc = scaled_values(rs, (2, 2, 3, 3), 12.0)
    ks = prec("file_IO.get_FORCE_CONSTANTS_lines")
    if ks:
        check("file_IO.get_FORCE_CONSTANTS_lines", [ln for ln in file_IO.get_FORCE_CONSTANTS_lines(fc) if "." in ln], list(fc.ravel()), ks[0])
    ks = prec("file_IO._get_FORCE_SETS_lines_type1")
    if len(ks) == 2:
        ds1 = {"natom": ns, "first_atoms": [{"number": 0, "displacement": D[0, 0], "forces": Fv[0]}]}
        lines = [ln for ln in file_IO.get_FORCE_SETS_lines(ds1) if "." in ln]
        check("file_IO._get_FORCE_SETS_lines_type1 (displacement)", lines[:1], list(D[0, 0]), max(ks))
        check("file_IO._get_FORCE_SETS_lines_type1 (forces)", lines[1:], list(Fv[0].ravel()), min(ks))


# --------------------------------------------------------------------------
# part H: the yaml blocks written by Phonopy.save vs the abstract-syntax model
# --------------------------------------------------------------------------

def _fr(x):
    return str(Fraction(float(x)))


def _L(v):
    return "[" + ",".join(_fr(x) for x in v) + "]"


def _LL(m):
    return "[" + ",".join(_L(r) for r in m) + "]"


def part_yaml(run, rng, rs, lines, meta):
    """Phonopy.save -> yaml.safe_load: the parsed mapping must be, key by key, the abstract syntax the model's writer
    produces (dyadic values, so that the decimal text is exact)."""
    import yaml
    from phonopy import Phonopy
    from phonopy.structure.atoms import PhonopyAtoms

    thorough = run.tier == "thorough"
    lat, sym, pos, _ = gen.PROTOTYPES["nacl_prim"]
    for rep in range(24 if thorough else 6):
        ext = rep % 2 == 1
        mag = [None, "collinear", "noncollinear"][rep % 3]
        kw = {}
        symbols = ["Na", "Cl1" if ext else "Cl"]
        kw["masses"] = [rng.randint(8, 800) / 4.0, rng.randint(8, 800) / 4.0]
        if mag == "collinear":
            kw["magnetic_moments"] = [rng.randint(-8, 8) / 4.0, rng.randint(-8, 8) / 4.0]
        elif mag == "noncollinear":
            kw["magnetic_moments"] = [[0.0, rng.randint(-4, 4) / 4.0, 1.0], [0.5, 0.0, -1.0]]
        cell = PhonopyAtoms(cell=np.array(lat, dtype=float), symbols=symbols, scaled_positions=np.array(pos, dtype=float), **kw)
        ph = Phonopy(cell, supercell_matrix=np.diag([2, 1, 1]), primitive_matrix="P", log_level=0)
        ns = len(ph.supercell)
        kind = ["t1", "t1-noforces", "t1-energy", "t2", "t2-energy", "t2-noforces"][rep % 6]
        m = rng.randint(1, 3)
        dy = lambda shape: gen.rand_rational_array(rng, shape, den=64, lim=256)
        if kind.startswith("t1"):
            ents = []
            for i in range(m):
                e = {"number": rng.randrange(ns), "displacement": dy((3,))}
                if kind != "t1-noforces":
                    e["forces"] = dy((ns, 3))
                if kind == "t1-energy":
                    e["supercell_energy"] = rng.randint(-4096, 4096) / 64.0
                ents.append(e)
            ph.dataset = {"natom": ns, "first_atoms": ents}
            req = "yaml1 %d %d " % (ns, m) + " ".join(
                entry_text(ns, e) + (" 1 %s" % q(e["supercell_energy"]) if "supercell_energy" in e else " 0") for e in ents)
        else:
            dset = {"displacements": dy((m, ns, 3))}
            if kind != "t2-noforces":
                dset["forces"] = dy((m, ns, 3))
            if kind == "t2-energy":
                dset["supercell_energies"] = np.array([rng.randint(-4096, 4096) / 64.0 for _ in range(m)])
            ph.dataset = dset
            req = "yaml2 %d %d %s %s %s" % (ns, m, flat(dset["displacements"]), ("1 " + flat(dset["forces"])) if "forces" in dset else "0",
                                            ("1 " + flat(dset["supercell_energies"])) if "supercell_energies" in dset else "0")
        with TmpDir():
            fn = ph.save("y.yaml")
            y = yaml.safe_load(open(fn))
        # ---- the dataset block as abstract syntax
        block = "displacements" if kind.startswith("t1") else "dataset"
        if not isinstance(y, dict) or block not in y or "supercell" not in y:
            # which blocks a file contains is representation; the reload comparisons of the other parts judge the effect
            run.count("default save() of an object with a %s dataset wrote no '%s' block (observation, not a verdict)" % (kind, block), section="oracle")
            continue
        if kind.startswith("t1"):
            items = []
            for it in y["displacements"]:
                extra = set(it) - {"atom", "displacement", "forces", "supercell_energy"}
                if extra:
                    run.broke("correspondence", "yaml type-1 item has keys the model does not know: %s" % sorted(extra))
                items.append("atom=%d displacement=%s forces=%s supercell_energy=%s" % (
                    it["atom"], _L(it["displacement"]), _LL(it["forces"]) if "forces" in it else "-",
                    _fr(it["supercell_energy"]) if "supercell_energy" in it else "-"))
            ast_impl = " ; ".join(items)
            back = " ; ".join(entry_text(ns, e) + (" 1 %s" % q(e["supercell_energy"]) if "supercell_energy" in e else " 0") for e in ph.dataset["first_atoms"])
        else:
            d = y["dataset"]
            extra = set(d) - {"displacements", "forces", "supercell_energies"}
            if extra:
                run.broke("correspondence", "yaml type-2 block has keys the model does not know: %s" % sorted(extra))
            ast_impl = "displacements=[%s] forces=%s supercell_energies=%s" % (
                ",".join(_LL(s_) for s_ in d["displacements"]),
                ("[" + ",".join(_LL(s_) for s_ in d["forces"]) + "]") if "forces" in d else "-",
                _L(d["supercell_energies"]) if "supercell_energies" in d else "-")
            ds = ph.dataset
            back = "%s / %s / %s" % (flat(ds["displacements"]), flat(ds["forces"]) if "forces" in ds else "-",
                                     _L(ds["supercell_energies"]) if "supercell_energies" in ds else "-")
        lines.append(req)
        meta.append(("yaml", dict(kind=kind, request=req[:200]), ast_impl + " | " + " ".join(back.split())))
        # ---- the atoms of the supercell
        from phonopy.structure.atoms import atom_data

        # send each atom of the supercell to the model
        sc = ph.supercell
        for j in range(ns):
            num = int(sc.numbers[j])
            formal = atom_data[num][1]
            mtxt = "0"
            if sc.magnetic_moments is not None:
                mv = np.atleast_1d(sc.magnetic_moments[j])
                mtxt = ("1 %s" % q(mv[0])) if mv.size == 1 else ("3 " + flat(mv))
            reqp = "ypoint %s %s %s 1 %s %s" % (sc.symbols[j], formal, flat(sc.scaled_positions[j]), q(sc.masses[j]), mtxt)
            pt = y["supercell"]["points"][j]
            mm = pt.get("magnetic_moment")
            impl = "symbol=%s extended_symbol=%s coordinates=%s mass=%s magnetic_moment=%s | %s %s" % (
                pt["symbol"], pt.get("extended_symbol", "-"), _L(pt["coordinates"]), _fr(pt["mass"]) if "mass" in pt else "-",
                "-" if mm is None else (_L(mm) if isinstance(mm, list) else _fr(mm)), sc.symbols[j], formal)
            lines.append(reqp)
            meta.append(("yaml", dict(kind="point", request=reqp), impl))
        run.case(("yaml", kind, ext, mag, req[:300]), nontrivial=True)
        run.count("yaml abstract syntax: %s" % kind)


# --------------------------------------------------------------------------
# part I: several dumps in one process (settings of one dump must not leak into the next)
# --------------------------------------------------------------------------

def part_multidump(run, rng, rs, lines, meta):
    thorough = run.tier == "thorough"
    base = dict(crystal="nacl_prim", smat=[2, 1, 1], nac="default", nac_factor=14.4, nac_method=None, compression=False,
                extended=False, masses=False, magmoms=None, calculator=None, scale=1.0, fc_noise=False)
    objs = {"A": dict(base, dataset="t1", fc="produced"), "B": dict(base, dataset="t2-energy", fc="full", crystal="cscl", smat=[1, 1, 2])}
    phs = {k: make_object(rng, rs, dict(v, settings={})) for k, v in objs.items()}
    settings_list = [{}, {"force_sets": False}, {"force_constants": True}, {"force_constants": False}, {"displacements": False, "force_sets": False},
                     {"born_effective_charge": False}, {"dielectric_constant": False}, {"force_sets": False, "force_constants": True}]
    seqs = [[("A", {"force_sets": False}), ("A", {}), ("B", {})],
            [("B", {}), ("A", {"force_constants": True}), ("B", {}), ("A", {})],
            [("A", {"displacements": False, "force_sets": False}), ("B", {}), ("A", {})],
            [("B", {"born_effective_charge": False}), ("A", {}), ("B", {})]]
    for _ in range(12 if thorough else 3):
        seqs.append([(rng.choice("AB"), rng.choice(settings_list)) for _ in range(rng.randint(3, 6))])
    # ---- ONE caller-owned settings dict reused across saves (of one and of two objects, both orders)
    objs["C"] = dict(base, dataset=None, fc="full")
    objs["D"] = dict(base, dataset="t1-disp", fc="compact")
    phs["C"] = make_object(rng, rs, dict(objs["C"], settings={}))
    phs["D"] = make_object(rng, rs, dict(objs["D"], settings={}))
    shared_seqs = [(["A", "C"], {}), (["C", "A"], {}), (["A", "D", "B"], {"born_effective_charge": True}), (["B", "C", "A", "D"], {}),
                   (["A", "A-nodataset"], {}), (["D", "A", "C"], {"force_sets": True})]
    for order, start in shared_seqs:
        shared = dict(start)
        for i, k in enumerate(order):
            if k == "A-nodataset":     # the same object after ph.dataset = None
                pobj = make_object(rng, rs, dict(objs["A"], settings={}))
                pobj.dataset = None
                vv = dict(objs["A"], dataset=None, settings=dict(start), settings_object=shared)
            else:
                pobj = phs[k]
                vv = dict(objs[k], settings=dict(start), settings_object=shared)
            case = dict(sequence_of_saves=[dict(object=o) for o in order[: i + 1]], shared_settings_dict_initially=dict(start),
                        shared_settings_dict_now=dict(shared),
                        objects={n: dict(dataset=o["dataset"], fc=o["fc"]) for n, o in objs.items()},
                        note="every save of the sequence is handed the SAME caller-owned settings dict; each reload is compared with the object saved")
            vv_case = {kk: x for kk, x in vv.items() if kk != "settings_object"}
            roundtrip(run, lines, meta, pobj, vv, dict(case, variant=vv_case))
        run.case(("multidump-shared", repr(order), repr(start)), nontrivial=True)
        run.count("multi-dump sequences with one shared settings dict")
    for seq in seqs:
        for i, (k, st) in enumerate(seq):
            v = dict(objs[k], settings=dict(st))
            case = dict(sequence_of_saves=[dict(object=o, settings=s_) for o, s_ in seq[: i + 1]],
                        objects={n: dict(dataset=o["dataset"], fc=o["fc"], crystal=o["crystal"]) for n, o in objs.items()},
                        note="all dumps in one process; each reload is compared with the object that was saved")
            roundtrip(run, lines, meta, phs[k], v, case)
        run.case(("multidump", repr(seq)), nontrivial=True)
        run.count("multi-dump sequences")


# --------------------------------------------------------------------------
# part J: description invariance — round trips of objects on left-handed / sheared / permuted unit cells
# --------------------------------------------------------------------------

def part_relabel(run, rng, rs, lines, meta):
    from phonopy import file_IO
    from phonopy.structure.symmetry import symmetrize_borns_and_epsilon

    thorough = run.tier == "thorough"
    det_minus = ["swap12", "negate3", "invert"]
    det_plus = ["shear", "cyclic"]
    picks = [rng.choice(det_minus), rng.choice(det_plus), rng.choice(det_minus + det_plus)]
    if thorough:
        picks = det_minus + det_plus + [rng.choice(det_minus) for _ in range(3)]
    crystals = [("nacl", [1, 1, 1], "auto"), ("nacl_prim", [2, 1, 1], "P"), ("cscl", [1, 1, 2], "P"), ("bcc", [1, 1, 1], "auto")]
    for i, mname in enumerate(picks):
        cr = crystals[0] if i == 0 else crystals[rng.randrange(len(crystals))]   # always one centred left-handed cell with 'auto'
        polar = cr[0] != "bcc"
        v = dict(crystal=cr[0], smat=cr[1], pmat=cr[2], relabel=mname, dataset=rng.choice(["t1", "t1-energy", "t2"]), fc=rng.choice(["full", "compact", "produced"]),
                 settings=rng.choice([{}, {"force_constants": True}]), nac=("default" if polar else None), nac_factor=14.4, nac_method=rng.choice([None, "wang"]),
                 compression=rng.choice([False, True]), extended=False, masses=rng.random() < 0.5, magmoms=None, calculator=None, scale=1.0, fc_noise=False)
        if v["fc"] == "produced":
            v["dataset"] = "t1"
        case = dict(v, note="unit cell relabelled by gen.UNIMODULAR[%r] (det %+d): %s" % (
            mname, int(round(np.linalg.det(np.array(gen.UNIMODULAR[mname])))), "left-handed" if mname in det_minus else "right-handed"))
        try:
            ph = make_object(rng, rs, v)
        except Exception as e:  # noqa: BLE001
            # not a clause of this property (nothing was saved yet), but nothing can be checked either: raise the alarm as such
            run.broke("precondition", "a valid crystal described by relabelled lattice vectors (%s, det %+d) could not be set up as a Phonopy object: %s: %s"
                      % (mname, -1 if mname in det_minus else 1, type(e).__name__, str(e)[:200]), case)
            continue
        if ph.unitcell.volume * (1 if mname in det_plus else -1) <= 0:
            run.broke("harness", "relabelled cell has the wrong handedness", case)
        roundtrip(run, lines, meta, ph, v, case)
        # ---- BORN on the (left-handed) primitive cell: symmetry expansion of the independent atoms
        if polar:
            prim = ph.primitive
            npa = len(prim)
            born, eps = symmetrize_borns_and_epsilon(rs.normal(size=(npa, 3, 3)), rs.normal(size=(3, 3)) * 0.3 + np.eye(3) * 3, prim, symprec=1e-5)
            with TmpDir():
                file_IO.write_BORN(prim, born, eps, filename="BORN")
                nb = file_IO.parse_BORN(prim, filename="BORN")
                fn = ph.save("cell.yaml", settings={"force_constants": True})
                import phonopy

                p2 = phonopy.load(fn, produce_fc=False, log_level=0)    # BORN in the current directory
            for how, got in (("write_BORN/parse_BORN", nb), ("phonopy.load with BORN in the current directory", p2.nac_params if ph.nac_params is None else nb)):
                if got is None or maxdiff(got["born"], born) > 5e-8 or maxdiff(got["dielectric"], eps) > 5e-8:
                    run.violation("file_IO.get_BORN_lines/parse_BORN", "born-not-reproduced",
                                  "%s on a relabelled (%s) cell: Born charges differ by %.3g" % (how, mname, float("inf") if got is None else maxdiff(got["born"], born)),
                                  dict(case, born=born.tolist(), epsilon=eps.tolist()))
        # ---- FORCE_CONSTANTS / hdf5 in the compact layout of this description
        if ph.force_constants is not None:
            p2s = np.array(ph.primitive.p2s_map, dtype="intc")
            with TmpDir():
                file_IO.write_FORCE_CONSTANTS(ph.force_constants, filename="FORCE_CONSTANTS", p2s_map=p2s)
                b = file_IO.parse_FORCE_CONSTANTS(filename="FORCE_CONSTANTS", p2s_map=p2s)
                file_IO.write_force_constants_to_hdf5(ph.force_constants, filename="fc.hdf5", p2s_map=p2s)
                h = file_IO.read_force_constants_hdf5(filename="fc.hdf5", p2s_map=p2s)
            if not within_decimals(b, ph.force_constants, 15) or maxdiff(h, ph.force_constants) != 0:
                run.violation("file_IO.write_FORCE_CONSTANTS/parse_FORCE_CONSTANTS", "not-reproduced", "force constants of a relabelled (%s) cell do not parse back" % mname, case)
        run.case(("relabel", mname, repr(sorted((k, str(x)) for k, x in v.items()))), nontrivial=True)
        run.count("relabelled descriptions: %s on %s (primitive_matrix=%s)" % (mname, cr[0], cr[2]))


# --------------------------------------------------------------------------
# part K: unit cells whose atoms are not listed inside [0, 1)
# --------------------------------------------------------------------------

def part_unwrapped(run, lines, meta):
    """load() rebuilds supercell and primitive cell from the written unit cell, and the ORDER of the supercell atoms depends on
    which lattice image of each atom the unit cell lists: the unit cell must come back as it was given (coordinates
    1.5, -0.5, exactly 1.0, -1e-17 ...), or force constants / datasets end up on other atoms."""
    import random as _random

    thorough = run.tier == "thorough"
    rng = _random.Random(16116 + 7919 * run.seed)          # own streams: the other parts of a seed stay what they were
    rs = np.random.RandomState(16116 + 7919 * run.seed)
    crystals = [("cscl", [2, 2, 1], "P"), ("nacl_prim", [2, 1, 2], "P"), ("nacl", [2, 1, 1], "auto"), ("nacl", [1, 1, 2], "F"), ("cscl", [1, 3, 2], "P")]
    modes = ["shift", "edge", "mixed", "shift", "mixed"]
    n = 40 if thorough else 5
    for i in range(n):
        cr = crystals[i % len(crystals)] if i < len(crystals) else rng.choice(crystals)
        ds, fc = [("t1", "full"), ("t2", "compact"), ("t1", "produced"), ("t1-energy", "compact"), ("t2", "full")][i % 5] if i < 5 else rng.choice(
            [("t1", "full"), ("t1", "compact"), ("t1", "produced"), ("t2", "full"), ("t2", "compact"), (None, "full"), ("t1-disp", "compact")])
        v = dict(crystal=cr[0], smat=cr[1], pmat=cr[2], unwrap=modes[i % len(modes)], dataset=ds, fc=fc,
                 settings=rng.choice([{"force_constants": True}, {"force_constants": True}, {}]), nac=rng.choice([None, "default", "custom"]), nac_factor=14.4,
                 nac_method=rng.choice([None, "wang"]), compression=rng.choice([False, True]), extended=False, masses=rng.random() < 0.3, magmoms=None,
                 calculator=None, scale=1.0, fc_noise=True, relabel=(rng.choice(sorted(gen.UNIMODULAR)) if (i % 5 == 4 and cr[2] == "P") else None))
        ph = make_object(rng, rs, v)
        up = np.array(ph.unitcell.scaled_positions)
        case = dict(v, unit_cell_scaled_positions=[[repr(float(x)) for x in r] for r in up],
                    note="unit cell atoms listed outside [0, 1) / on its boundary (harness/props/c16.py: unwrapped_cell)")
        roundtrip(run, lines, meta, ph, v, case)
        run.case(("unwrapped", up.tobytes(), repr(sorted((k, str(x)) for k, x in v.items()))), nontrivial=True)
        run.count("unit cells with atoms outside [0, 1) (%s)" % v["unwrap"])


# --------------------------------------------------------------------------
# main
# --------------------------------------------------------------------------

def main(run):
    import warnings

    warnings.simplefilter("ignore")
    rng = run.rng
    rs = np.random.RandomState(run.seed + 1234)
    common.setup_phonopy("omp")
    thorough = run.tier == "thorough"
    # T-formats: regenerate Gen/Formats.lean from the writers' sources (the theorems formats_* are about this table)
    import subprocess
    import sys

    env = dict(os.environ, VERIF_REPO=common.REPO)
    r = subprocess.run([sys.executable, os.path.join(common.VERIF, "tools", "formats2lean.py")], capture_output=True, text=True, env=env, timeout=120)
    if r.returncode != 0:
        run.broke("proof", "tools/formats2lean.py failed", r.stderr[-1500:])
    fmts = json.loads(subprocess.run([sys.executable, os.path.join(common.VERIF, "tools", "formats2lean.py"), "--json"],
                                     capture_output=True, text=True, env=env, timeout=120).stdout or "[]")
    run.cov["formats_table"] = dict(entries=len(fmts), adjacent=[f["site"] for f in fmts if f["adjacent"]])
    run.proof_step(leancheck=thorough)
    part_formats(run, rng, rs, fmts)
    run.cov["rule"] = (
        "(A) file_IO writers/parsers on values of magnitude 1e-12 .. 1e8 (FORCE_SETS type 1 and 2, FORCE_CONSTANTS full/compact, "
        "hdf5 with compression filters, BORN); (B) Phonopy.save -> phonopy.load over {no dataset, type-1, type-2} x {displacements only, "
        "forces, forces+energies} x {no fc, full, compact, produced} x save settings x NAC {none, default/custom/no factor, method} x "
        "compression {False, True, 'xz'} x extended symbols x custom masses x (non-)collinear moments x calculator x value scale; "
        "(C) get_displacements_and_forces / forces_in_dataset vs the Lean model on random small datasets incl. partial forces and zero "
        "displacements; (D) '%.kf' vs printK/printedLen; (E) phonopy.load in directories populated with distinguishable sources vs the "
        "decision model. Non-trivial = the case carries data (dataset or force constants or a populated directory).")
    run.cov["trusted_base"] = [
        "Lean 4.33 kernel; Mathlib v4.33; axioms per theorem in coverage.theorems",
        "hand-written models Model/Dataset.lean, Model/LoadPriority.lean, Model/Precision.lean tied to dataset.py, load.py, load_helper.py, "
        "api_phonopy.py:save and the '%f' formats by this correspondence run",
        "PyYAML, h5py, lzma, numpy.loadtxt and the text grammars are not modelled: covered by the differential round trips only",
        "symfc/alm unavailable: force constants are produced from type-1 datasets only (type-2 forces are reloaded with produce_fc=False)",
    ]
    run.assumptions += [
        "binary64 rounding of float(text) is outside the model: comparisons allow half a unit of the last printed decimal plus 4 ulp",
        "a FORCE_SETS file always carries forces (decision model)",
    ]

    lines, meta = [], []
    t0 = time.time()
    part_precision(run, rng, lines, meta)
    part_dataset(run, rng, lines, meta)
    t1 = time.time()
    part_fileio(run, rng, rs, lines, meta)
    t2 = time.time()
    part_multidump(run, rng, rs, lines, meta)
    part_relabel(run, rng, rs, lines, meta)
    part_unwrapped(run, lines, meta)
    part_saveload(run, rng, rs, lines, meta)
    t3 = time.time()
    part_priority(run, rng, rs, lines, meta)
    t4 = time.time()
    part_born(run, rng, rs, lines, meta)
    part_yaml(run, rng, rs, lines, meta)
    run.cov["wall_born_s"] = round(time.time() - t4, 1)
    run.cov["wall_parts_s"] = dict(precision_dataset=round(t1 - t0, 1), fileio=round(t2 - t1, 1), saveload=round(t3 - t2, 1), priority=round(t4 - t3, 1))

    # ---------------- correspondence with the Lean models
    out = common.lean_run_driver("C16", lines)
    if len(out) != len(lines):
        run.broke("correspondence", "driver answered %d lines for %d requests" % (len(out), len(lines)))
    nbad = 0

    def broke(what, detail):
        nonlocal nbad
        nbad += 1
        if nbad <= 4:
            run.broke("correspondence", what, detail)

    for (kind, info, impl), req, ans in zip(meta, lines, out):
        run.count(kind, section="correspondence")
        if ans == "bad-op":
            broke("model rejected request (%s)" % kind, req[:300])
            continue
        if kind == "print":
            if int(ans) != impl:
                broke("'%%.%df' %% %r prints %d, model printK gives %s" % (info["k"], info["x"], impl, ans), info)
        elif kind == "len":
            if int(ans) != impl:
                broke("len('%%.%df' %% %r) = %d, model printedLen gives %s" % (info["k"], info["x"], impl, ans), info)
        elif kind == "fits":
            if (ans == "true") != bool(impl):
                broke("'%%%d.%df' %% %r %s with a blank, model fits = %s" % (info["W"], info["k"], info["x"], "starts" if impl else "does not start", ans), info)
        elif kind == "fid":
            if (ans == "true") != bool(impl):
                broke("forces_in_dataset = %r, model %s" % (impl, ans), info)
        elif kind == "t2":
            d, f = impl
            left, right = ans.split(" | ")
            md = np.array([float(Fraction(t)) for t in left.split()]).reshape(np.shape(d)) if left.strip() else np.zeros(np.shape(d))
            if maxdiff(md, d) != 0:
                broke("get_displacements_and_forces: displacements differ from the model", info)
            rt = right.split()
            if (rt[0] == "1") != (f is not None):
                broke("get_displacements_and_forces: forces %s, model %s" % ("None" if f is None else "array", rt[0]), info)
            elif f is not None:
                mf = np.array([float(Fraction(t)) for t in rt[1:]]).reshape(np.shape(f))
                if maxdiff(mf, f) != 0:
                    broke("get_displacements_and_forces: forces differ from the model", info)
        elif kind == "t1":
            # "without loss": the inverse recovers the original entries exactly when the dataset is well-formed
            def canon(txt):
                return " ; ".join(" ".join(str(Fraction(t)) for t in e.split()) for e in txt.split(" ; ")) if txt and txt != "none" else txt
            if info["wf"]:
                if canon(ans) != canon(impl):
                    broke("toType1(get_displacements_and_forces(d)) is not d for a well-formed dataset", dict(info, model=ans[:300]))
                    run.violation("get_displacements_and_forces", "conversion-loses-data", "type-1 -> type-2 -> type-1 is not the identity", info)
            run.count("type-1 -> type-2 -> type-1 (%s)" % ("well-formed" if info["wf"] else info["mode"]), section="oracle")
        elif kind == "save":
            if ans != impl:
                broke("Phonopy.save wrote (nac, nac factor, dataset, fc, calculator) = %s, model save = %s" % (impl, ans), info)
        elif kind == "reload":
            mobj = " ".join(ans.split()[:5])
            if mobj != impl:
                broke("after save/load the object is %s, model reload = %s" % (impl, ans), info)
        elif kind == "yaml":
            if " ".join(ans.split()) != " ".join(str(impl).split()):
                broke("yaml block written by Phonopy.save differs from the abstract-syntax model", dict(info, implementation=str(impl)[:400], model=ans[:400]))
        elif kind == "recompute":
            if ans != impl and "invisible" not in str(impl):
                broke("what phonopy.load recomputed (layout converted produced symmetrised solver raises) = %s, model recompute = %s" % (impl, ans), info)
        elif kind == "load":
            cal, fac, nac, nacf, dsrc, dsf, fc, doc = ans.split()
            model = dict(calculator=cal, factor=fac, nac=nac, nacFactor=nacf, dataset=dsrc, datasetForces=dsf, fc=fc)
            diff = {k: (impl[k], model[k]) for k in model if impl[k] != model[k]}
            if diff:
                broke("phonopy.load chose %s, decision model says %s" % ({k: v[0] for k, v in diff.items()}, {k: v[1] for k, v in diff.items()}), info)
            if doc != fc:
                run.count("cases where the docstring's priority list names another source than the code", section="correspondence")
    run.cov["correspondence"]["compared"] = len(meta)
    run.cov["correspondence"]["disagreeing"] = nbad
    run.cov["programs"] = len(meta)
    run.sample(dict(kind="driver request", request=lines[0], answer=out[0] if out else None))
