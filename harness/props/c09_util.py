"""Helpers of the C09 check (own file: shared harness files are not edited)."""

from __future__ import annotations

import itertools
from fractions import Fraction

import numpy as np

from .. import gen

# extra low-symmetry cells (point groups without inversion, oblique primitive bases)
EXTRA = {
    # space group Cm: in the primitive basis the only non-trivial operation is a' <-> -b'
    "mono_Cm": (gen._c(5.0, 4.0, 3.5, be=110), ["Te", "Te", "Se", "Se"],
                [[0, 0, 0], [0.5, 0.5, 0], [0.3, 0, 0.2], [0.8, 0.5, 0.2]], "C"),
    # space group C2
    "mono_C2": (gen._c(5.0, 4.0, 3.5, be=110), ["Te", "Te", "Se", "Se"],
                [[0, 0.1, 0], [0.5, 0.6, 0], [0, 0.4, 0.5], [0.5, 0.9, 0.5]], "C"),
    # P4 (polar tetragonal, no inversion, no mirrors)
    "tetra_P4": (gen._c(3.0, 3.0, 4.0), ["Ti", "O", "O", "O", "O"],
                 [[0, 0, 0], [0.3, 0.1, 0.4], [0.9, 0.3, 0.4], [0.7, 0.9, 0.4], [0.1, 0.7, 0.4]], "P"),
    # P3 (trigonal, hexagonal axes)
    "trig_P3": (gen._c(3.2, 3.2, 5.0, ga=120), ["Ti", "O", "O", "O"],
                [[0, 0, 0], [0.3, 0.1, 0.4], [0.9, 0.2, 0.4], [0.8, 0.7, 0.4]], "P"),
    # body-centred orthorhombic (primitive cell couples all three axes)
    "bco": (gen._c(3.0, 3.6, 4.4), ["Ga", "Ga"], [[0, 0, 0], [0.5, 0.5, 0.5]], "I"),
    # primitive orthorhombic / monoclinic cells described in a skewed (unimodular) basis: a' = a + b
    "ortho_skew": (np.array([[1, 1, 0], [0, 1, 0], [0, 0, 1]]) @ gen._c(3.0, 3.7, 4.6), ["Ga", "As"], [[0, 0, 0], [0.5, 0.5, 0.5]], "P"),
    "mono_skew": (np.array([[1, 0, 1], [0, 1, 0], [0, 0, 1]]) @ gen._c(3.0, 4.0, 5.0, be=105), ["Se"], [[0, 0, 0]], "P"),
}


def make_cell(name):
    from phonopy.structure.atoms import PhonopyAtoms

    if name in gen.PROTOTYPES:
        return gen.make_cell(name)
    lat, sym, pos, cen = EXTRA[name]
    return PhonopyAtoms(cell=np.array(lat, dtype=float), symbols=list(sym), scaled_positions=np.array(pos, dtype=float)), cen


ALL_NAMES = list(gen.PROTOTYPES) + list(EXTRA)


def point_groups(names=None):
    """{(name, pmat): (rotations (n,3,3) int, primitive lattice rows)} through Phonopy's own Symmetry/Primitive."""
    out = {}
    for name in names or ALL_NAMES:
        cell, cen = make_cell(name)
        for pm in (["P", "auto"] if cen != "P" else ["P"]):
            ph = gen.make_phonopy(cell, np.eye(3, dtype=int), pmat=pm)
            rots = np.array(ph.primitive_symmetry.pointgroup_operations, dtype=int)
            out[(name, pm)] = (rots, np.array(ph.primitive.cell, dtype=float))
    return out


def rec_ops(rots, tr):
    """Reciprocal operations acting on reduced q coordinates: transposes (a group: the set of R^-T), +/- with time reversal."""
    ops = [np.array(r, dtype=int).T for r in rots]
    if tr:
        ops = ops + [-o for o in ops]
    out = []
    for o in ops:
        if not any((o == p).all() for p in out):
            out.append(o)
    return out


class TestFunction:
    """f(q) = sum_{R in ops} h(R q), h(q) = sum_j c_j cos(2 pi k_j.q + phi_j), k_j integer: periodic and invariant
    under every R in `ops` (a group). With phases phi_j != 0 it is *not* even in q unless -1 is among the ops."""

    def __init__(self, rng, ops, nterms=3):
        self.ops = [np.array(o, dtype=float) for o in ops]
        self.k = np.array([[rng.randint(-2, 2) for _ in range(3)] for _ in range(nterms)], dtype=float)
        if not self.k.any():
            self.k[0] = [1, 0, 1]
        self.c = np.array([rng.randint(1, 8) / 4.0 for _ in range(nterms)])
        self.phi = np.array([rng.randint(0, 7) / 8.0 * 2 * np.pi for _ in range(nterms)])

    def __call__(self, q):
        q = np.atleast_2d(np.asarray(q, dtype=float))
        tot = np.zeros(len(q))
        for R in self.ops:
            rq = q @ R.T
            tot += (self.c[None, :] * np.cos(2 * np.pi * rq @ self.k.T + self.phi[None, :])).sum(axis=1)
        return tot

    def check_invariance(self, rng):
        q0 = np.array([rng.random() for _ in range(3)])
        f0 = self(q0)[0]
        worst = 0.0
        for R in self.ops:
            worst = max(worst, abs(self(R @ q0)[0] - f0))
        n = np.array([rng.randint(-3, 3) for _ in range(3)], dtype=float)
        worst = max(worst, abs(self(q0 + n)[0] - f0))
        return worst


def expected_full_qpoints(mesh, shift, gamma):
    """The mesh the documentation promises: (g + s/2 + delta)/m, s = half-shift flag (Gamma centre) or
    half-shift XOR even (Monkhorst-Pack); for a shift that is not a multiple of 1/2, s is the flag of the unshifted
    mesh and delta the shift. Exact rationals -> float."""
    mesh = [int(v) for v in mesh]
    sh = [Fraction(0)] * 3 if shift is None else [Fraction(float(v)) for v in shift]
    generic = any((2 * v).denominator != 1 for v in sh)
    s = []
    for k in range(3):
        half = (not generic) and (sh[k] - (sh[k].numerator // sh[k].denominator)) == Fraction(1, 2)
        if gamma:
            s.append(1 if half else 0)
        else:
            s.append(1 if (half != (mesh[k] % 2 == 0)) else 0)
    delta = sh if generic else [Fraction(0)] * 3
    pts = []
    for g in itertools.product(range(mesh[2]), range(mesh[1]), range(mesh[0])):
        gz, gy, gx = g
        pts.append([float((Fraction(a) + Fraction(sk, 2) + d) / m) for a, sk, d, m in zip((gx, gy, gz), s, delta, mesh)])
    return np.array(pts), generic


def mats_line(rots):
    return "%d %s" % (len(rots), " ".join(str(int(v)) for v in np.asarray(rots).ravel()))


def bz_setup(reclat):
    """The integer change of basis of BrillouinZone (`_tmat`, public ingredients only) and its certificate."""
    from phonopy.structure.cells import get_reduced_bases

    red = get_reduced_bases(reclat.T)
    tmat = np.linalg.inv(reclat) @ red.T
    T = np.rint(tmat).astype(int)
    ok = bool(np.abs(tmat - T).max() < 1e-8 and abs(int(round(np.linalg.det(T)))) == 1)
    return T, ok


def bz_line(reclat, T, qs):
    from ..common import q

    qs = np.asarray(qs, dtype=float)
    return "bz %s %s 1/100 %d %s" % (" ".join(q(float(x)) for x in np.asarray(reclat).ravel()), " ".join(str(int(x)) for x in T.ravel()),
                                     len(qs), " ".join(q(float(x)) for x in qs.ravel()))


def bz_parse(line):
    out = []
    for part in line.split(" ; "):
        t = part.split()
        if len(t) != 9:
            out.append(None)
            continue
        out.append(dict(point=np.array([float(Fraction(x)) for x in t[:3]]), dmin=float(Fraction(t[6])), tol=float(Fraction(t[7])), nshort=int(t[8])))
    return out


def bz_compare(reclat, q0, impl_set, m):
    """'' if the implementation's shortest set starts with the model's point (same size), 'tie' if it differs only by
    how an exact tie of np.rint / of the tolerance threshold was broken, else a description of the disagreement."""
    if m is None:
        return "model error"
    p = np.asarray(impl_set[0], dtype=float)
    if np.abs(p - m["point"]).max() <= 1e-12 and len(impl_set) == m["nshort"]:
        return ""
    d = p - np.asarray(q0, dtype=float)
    if np.abs(d - np.rint(d)).max() > 1e-9:
        return "relocated point is not a lattice translate of the q-point"
    dist = float(((reclat @ p) ** 2).sum())
    if dist < m["dmin"] + m["tol"] * (1 + 1e-9) + 1e-12:
        return "tie"
    return "relocated point %s has squared length %.12g, window minimum %.12g + tolerance %.3g (model point %s)" % (p.tolist(), dist, m["dmin"], m["tol"], m["point"].tolist())
