"""C10 helper: argument-TYPE stream, run in a CHILD process.

The public thermal-property entry points take array-like arguments (temperatures, band_indices) and numbers (cutoff_frequency,
t_min/t_max/t_step).  Whatever the dtype / container of a legal argument, the result must be the closed form for the VALUES given.
A wrong dtype reaching the compiled kernel is read there as `double*` (the harness shim hands over raw pointers exactly as the
nanobind glue does), i.e. possibly past the end of the buffer — therefore these calls run in a child process
(`python -m harness.props.c10_util < spec.json`), and a crash of the child is itself reported.
"""
import json
import sys
import warnings

import numpy as np


def make_array(values, kind):
    v = list(values)
    if kind == "list":
        return v
    if kind == "tuple":
        return tuple(v)
    if kind == "list-of-numpy-scalars":
        return [np.float32(x) for x in v]
    if kind == "range":
        return range(int(v[0]), int(v[-1]) + 1, int(v[1] - v[0])) if len(v) > 1 else range(int(v[0]), int(v[0]) + 1)
    if kind == "strided":
        big = np.zeros(2 * len(v) + 1, dtype="double")
        big[::2][: len(v)] = v
        return big[::2][: len(v)]
    if kind == "fortran-column":
        big = np.asfortranarray(np.zeros((len(v), 3)))
        big[:, 1] = v
        return big[:, 1]
    if kind == "reversed-view":
        return np.array(v[::-1], dtype="double")[::-1]
    return np.array(v, dtype=kind)  # a numpy dtype name: float32, float16, longdouble, int32, int64, uint16, float64


def make_scalar(x, kind):
    if x is None or kind == "python":
        return x
    return getattr(np, kind)(x)


def make_band_indices(bi, kind):
    if bi is None:
        return None
    if kind == "list":
        return [list(b) for b in bi]
    if kind == "tuple":
        return tuple(tuple(b) for b in bi)
    if kind == "list-of-numpy-ints":
        return [[np.int64(i) for i in b] for b in bi]
    return [np.array(b, dtype=kind) for b in bi]  # int32, int64, intc, uint8 ...


def clean(a):
    return [float(x) for x in np.asarray(a, dtype="double").ravel()]


def main():
    spec = json.load(sys.stdin)
    sys.path.insert(0, spec["verif"])
    from harness import common, gen
    from harness.props.c10 import FakeMesh

    common.setup_phonopy("omp")
    from phonopy.phonon.thermal_properties import ThermalProperties

    out = []
    api_ph = None
    for c in spec["cases"]:
        res = dict(id=c["id"])
        try:
            with warnings.catch_warnings():
                warnings.simplefilter("ignore")
                with np.errstate(all="ignore"):
                    cutoff = make_scalar(c["cutoff"], c["cutoff_kind"])
                    bi = make_band_indices(c["band_indices"], c["band_indices_kind"])
                    if c["route"] == "api":
                        if api_ph is None:
                            cell, _ = gen.make_cell("nacl_prim")
                            api_ph = gen.make_phonopy(cell, np.diag([2, 2, 2]), pmat="P")
                            api_ph.force_constants = gen.pair_fc(api_ph.supercell, cutoff=0.9 * gen.min_lattice_vector(api_ph.supercell.cell) / 2 * 1.2)
                            api_ph.run_mesh([3, 3, 3], is_gamma_center=True)
                        kw = dict(cutoff_frequency=cutoff, band_indices=bi, classical=c["classical"])
                        if c["grid"] is None:
                            api_ph.run_thermal_properties(temperatures=make_array(c["temps"], c["temps_kind"]), **kw)
                        else:
                            g = [make_scalar(x, c["grid_kind"]) for x in c["grid"]]
                            api_ph.run_thermal_properties(t_min=g[0], t_max=g[1], t_step=g[2], **kw)
                        d = api_ph.get_thermal_properties_dict()
                        res.update(frequencies=np.array(api_ph.mesh.frequencies).tolist(), weights=[int(w) for w in api_ph.mesh.weights],
                                   t=clean(d["temperatures"]), F=clean(d["free_energy"]), S=clean(d["entropy"]), Cv=clean(d["heat_capacity"]))
                    else:
                        tp = ThermalProperties(FakeMesh(c["frequencies"], c["weights"]), cutoff_frequency=cutoff, band_indices=bi, classical=c["classical"])
                        if c["grid"] is None:
                            tp.temperatures = make_array(c["temps"], c["temps_kind"])
                        else:
                            g = [make_scalar(x, c["grid_kind"]) for x in c["grid"]]
                            tp.set_temperature_range(t_min=g[0], t_max=g[1], t_step=g[2])
                        tp.run(lang=c["lang"])
                        t, F, S, Cv = tp.thermal_properties
                        res.update(t=clean(t), F=clean(F), S=clean(S), Cv=clean(Cv))
        except Exception as e:  # reported by the parent as a failing input: a legal argument type is rejected
            res["exception"] = "%s: %s" % (type(e).__name__, e)
        out.append(res)
        sys.stdout.write(json.dumps(res) + "\n")
        sys.stdout.flush()


if __name__ == "__main__":
    main()
