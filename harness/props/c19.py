"""C19 — thermal and random displacements follow harmonic canonical statistics."""

import os
import re
import warnings
from fractions import Fraction

import numpy as np

from .. import common, gen
from ..common import q as Q
from .c12 import atom_map, make_cell

TOL = 1e-9
PI = 3.14159265358979323846


def _flat(a):
    return " ".join(Q(x) for x in np.asarray(a, dtype="double").ravel())


def _flatc(a):
    a = np.asarray(a, dtype=complex).ravel()
    return " ".join("%s %s" % (Q(z.real), Q(z.imag)) for z in a)


def parse_guard():
    """Translator: the guard temperature of ThermalMotion._get_population as it stands in the source."""
    src = open(os.path.join(common.REPO, "phonopy", "phonon", "thermal_displacement.py")).read()
    m = re.search(r"def _get_population\(self, freq, t\):.*?(?=\n    def |\nclass )", src, re.S)
    if not m:
        return None, "ThermalMotion._get_population not found"
    body = m.group(0)
    g = re.findall(r"condition = t > ([0-9.eE+-]+)\n", body)
    if len(g) != 1 or "return 0.0" not in body or "vals = np.zeros(len(t)" not in body:
        return None, "ThermalMotion._get_population has a shape the model does not cover"
    return float(g[0]), None


def mode_counts(rd):
    """(number of self-conjugate points, number of pair representatives, number of bands) from the public attributes:
    `qpoints` lists the self-conjugate points first, then one representative of every conjugate pair."""
    qp = np.array(rd.qpoints, dtype="double")
    fr = np.array(rd.frequencies)
    selfc = [bool((np.abs(2 * q_ - np.rint(2 * q_)) < 1e-8).all()) for q_ in qp]
    nii = sum(selfc)
    if selfc != [True] * nii + [False] * (len(qp) - nii):
        raise RuntimeError("RandomDisplacements.qpoints: self-conjugate points are not listed first")
    return nii, len(qp) - nii, fr.shape[1]


def unit_randn(rd):
    nii, nij, nb = mode_counts(rd)
    ncol = nii * nb + 2 * nij * nb
    rii = np.zeros((nii, ncol, nb))
    rij = np.zeros((nij, 2, ncol, nb))
    c = 0
    for a in range(nii):
        for b in range(nb):
            rii[a, c, b] = 1
            c += 1
    for a in range(nij):
        for t in range(2):
            for b in range(nb):
                rij[a, t, c, b] = 1
                c += 1
    return rii, rij, ncol, nij


def linmap(rd, T):
    """Read the sampler's linear map column by column through the `randn` argument (unit vectors)."""
    rii, rij, ncol, _ = unit_randn(rd)
    rd.run(T, number_of_snapshots=ncol, randn=(rii, rij))
    return rd.u.reshape(ncol, -1).T.copy()  # (3 ns, ncol)


class _BasisGen:
    """Stand-in for numpy's Generator: the k-th standard-normal variate requested (in request order, flattened) is 1, all
    others 0.  Makes no assumption on how many arrays are requested or on their shapes."""

    def __init__(self, k):
        self.k = k
        self.offset = 0

    def standard_normal(self, size=None):
        shape = () if size is None else (tuple(size) if hasattr(size, "__len__") else (int(size),))
        n = int(np.prod(shape)) if shape else 1
        a = np.zeros(n)
        if self.offset <= self.k < self.offset + n:
            a[self.k - self.offset] = 1.0
        self.offset += n
        return a.reshape(shape) if shape else float(a[0])


def generator_linear_map(call):
    """The linear map (outputs x variates) of `call()` -> flat output, seen through numpy's generator, whatever the internal layout.
    None when the call does not draw through Generator.standard_normal."""
    saved = np.random.default_rng

    def one(k):
        g = _BasisGen(k)
        np.random.default_rng = lambda *a, **kw: g
        try:
            out = np.array(call(), dtype="double").ravel().copy()
        finally:
            np.random.default_rng = saved
        return out, g.offset

    try:
        u0, K = one(-1)
    except AttributeError:
        return None
    if K == 0 or np.abs(u0).max() > 0:
        return None
    G = np.zeros((len(u0), K))
    for k in range(K):
        G[:, k], _ = one(k)
    return G


class _FakeGen:
    """Stand-in for numpy's Generator: hands out prepared arrays in call order, checking the requested shapes."""

    def __init__(self, arrays):
        self.arrays = list(arrays)
        self.bad = False

    def standard_normal(self, size=None):
        if not self.arrays:
            self.bad = True
            return np.zeros(size)
        a = self.arrays.pop(0)
        if tuple(size) != a.shape:
            self.bad = True
            return np.zeros(size)
        return a


def linmap_via_generator(rd, T):
    rii, rij, ncol, nij = unit_randn(rd)
    fake = _FakeGen([rii] + ([rij] if nij else []))
    saved = np.random.default_rng
    np.random.default_rng = lambda *a, **k: fake
    try:
        rd.run(T, number_of_snapshots=ncol, random_seed=7)
    finally:
        np.random.default_rng = saved
    if fake.bad or fake.arrays:
        return None
    return rd.u.reshape(ncol, -1).T.copy()


def sigma_raw(mode, factor, cut, eigvals, T):
    """sigma of every mode before the cutoff mask, from the documented formulas and phonopy.units (masked modes use freq = 1):
    quantum sqrt(hbar (1/2 + n) / omega), classical sqrt(kB T) / omega, omega = 2 pi f, f = sqrt|lambda| * factor in THz."""
    from phonopy.units import AMU, EV, Angstrom, Hbar, Kb, THz, THzToEv

    eigvals = np.asarray(eigvals, dtype="double")
    freqs = np.sqrt(np.abs(eigvals)) * factor
    cond = freqs > cut
    fr = np.where(cond, freqs, 1)
    with np.errstate(all="ignore"):
        if mode == "classical":
            sig = np.sqrt(T * (Kb * EV / AMU / (THz * (2 * np.pi)) ** 2 / Angstrom ** 2)) / fr
        else:
            n = 1.0 / (np.exp(THzToEv * fr / (Kb * T)) - 1)
            sig = np.sqrt(Hbar * EV / AMU / THz / (2 * np.pi) / Angstrom ** 2 / fr * (0.5 + n))
    return freqs, sig


def dense_oracle(ph, T, cutoff, mode, factor=None):
    """Canonical displacement covariance (Angstrom^2) of the supercell, computed from the supercell force constants only;
    `factor` converts sqrt(eigenvalue of Phi/sqrt(m m')) in the units of `ph` to THz."""
    from phonopy.units import AMU, EV, Angstrom, Hbar, Kb, THz, THzToEv, VaspToTHz

    if factor is None:
        factor = VaspToTHz
    sc = ph.supercell
    fc = ph.force_constants
    n = len(sc)
    m = np.repeat(sc.masses, 3)
    Phi = fc.transpose(0, 2, 1, 3).reshape(3 * n, 3 * n)
    Dm = Phi / np.sqrt(np.outer(m, m))
    Dm = (Dm + Dm.T) / 2
    lam, E = np.linalg.eigh(Dm)
    f = np.sqrt(np.abs(lam)) * factor
    ok = f > cutoff
    var = np.zeros_like(f)
    if mode == "classical":
        var[ok] = Kb * T * EV / AMU / (2 * np.pi * f[ok] * THz) ** 2 / Angstrom ** 2
    else:
        with np.errstate(all="ignore"):
            x = THzToEv * f[ok] / (Kb * T) if T > 0 else np.full(ok.sum(), np.inf)
            nn = 1.0 / np.expm1(x)
        var[ok] = Hbar * EV / AMU / (2 * np.pi * f[ok] * THz) / Angstrom ** 2 * (0.5 + nn)
    C = (E * var) @ E.T
    return C / np.sqrt(np.outer(m, m)), int(ok.sum()), f


def d2f_phases(prim, qpoints):
    """(cos + i sin)(-2 pi q.svec(j,i)) averaged over the multiplicity, as transform_dynmat_to_fc_ij computes them."""
    from phonopy.structure.cells import sparse_to_dense_svecs

    svecs, multi = prim.get_smallest_vectors()
    if not prim.store_dense_svecs:
        svecs, multi = sparse_to_dense_svecs(svecs, multi)
    ns, npa = multi.shape[0], multi.shape[1]
    out = np.zeros((len(qpoints), ns, npa), dtype=complex)
    for k, qp in enumerate(qpoints):
        for j in range(ns):
            for i in range(npa):
                cnt, st = multi[j, i]
                cs = sn = 0.0
                for l in range(cnt):
                    ph = 0.0
                    for m in range(3):
                        ph -= qp[m] * svecs[st + l][m]
                    cs += np.cos(ph * 2 * PI)
                    sn += np.sin(ph * 2 * PI)
                out[k, j, i] = (cs / cnt) + 1j * (sn / cnt)
    return out


SMATS = {
    "ii-diag": [np.diag(d) for d in ([2, 2, 2], [2, 1, 2], [2, 2, 1], [1, 1, 2], [2, 1, 1])],
    "ij-diag": [np.diag(d) for d in ([3, 1, 1], [1, 3, 1], [1, 1, 3], [3, 2, 1], [4, 1, 1])],
    # non-symmetric supercell matrices (S != S^T): only self-conjugate commensurate points ...
    "ii-nonsym": [np.array(m) for m in ([[1, 1, 0], [-1, 1, 0], [0, 0, 1]], [[1, 1, 0], [-1, 1, 0], [0, 0, 2]], [[2, 0, 0], [2, 2, 0], [0, 0, 1]],
                                        [[1, 0, 1], [0, 1, 0], [-1, 0, 1]], [[2, 0, 0], [0, 1, 1], [0, -1, 1]])],
    # ... and with conjugate pairs
    "ij-nonsym": [np.array(m) for m in ([[2, 1, 0], [0, 2, 0], [0, 0, 1]], [[1, 1, 0], [-1, 2, 0], [0, 0, 1]], [[1, 0, 1], [0, 1, 0], [-1, 0, 2]],
                                        [[2, 0, 0], [1, 2, 0], [0, 0, 1]], [[1, 2, 0], [-1, 1, 0], [0, 0, 1]], [[1, 0, 0], [1, 3, 0], [0, 0, 1]])],
}
SMAT_CLASSES = ["ii-diag", "ij-nonsym", "ii-nonsym", "ij-diag"]


def main(run):
    rng = run.rng
    common.setup_phonopy("omp")
    warnings.simplefilter("ignore")
    np.seterr(all="ignore")
    from phonopy import Phonopy
    from phonopy.phonon.random_displacements import RandomDisplacements
    from phonopy.phonon.thermal_displacement import ThermalMotion
    from phonopy.units import AMU, EV, Angstrom, Hbar, Kb, THzToEv

    thorough = run.tier == "thorough"
    run.proof_step(leancheck=thorough)
    tguard, err = parse_guard()
    if tguard is None:
        run.broke("proof", "translator(thermal_displacement.py): " + err)
        tguard = 1.0
    run.cov["population_guard_from_source_K"] = tguard
    run.cov["rule"] = (
        "random displacements: prototype crystals (1-3 atoms/primitive cell) x supercells with only self-conjugate commensurate "
        "points and with conjugate pairs, each with diagonal and with non-symmetric supercell matrices (four classes cycled, so every quick run has all four) x {quantum, classical} x cutoff {0.01, 0.5, 3} "
        "x T {0, 0.3, 1, 10, 300, 1000}; the implementation's linear map is read column by column through `randn` (unit vectors) "
        "and compared with the Lean model fed with the implementation's eigen-solutions (A, A.A^T, uu, uu_inv, run_d2f rows; "
        "1e-9*scale); oracle = dense canonical covariance from the supercell force constants. Thermal displacements: crystals x "
        "meshes (<= 27 points) x supercells (diagonal and non-symmetric) x force-constant scale {1, 1e-4, 1e-6} x frequency windows (incl. additivity of adjacent windows) x projection directions x T sweep "
        "including T <= 1 K; oracle = independent hbar(1/2+n)/omega sum, symmetry, PSD, diagonal, CIF convention. "
        "Description invariance: part of the sampler cases and 2 (thorough 4) extra cases per run use relabelled lattice vectors (gen.UNIMODULAR, at least one left-handed): sampler oracle on the relabelled supercell, Cartesian covariance per atom pair and mean-square displacement matrices equal between descriptions. API sequences on one Phonopy instance: generate_displacements(temperature) -> {masses, symmetrize_force_constants, symmetrize_force_constants_by_space_group, set_force_constants_zero_with_radius, new force constants, nac_params} -> generate again; after every step the RandomDisplacements object in use and the generated (seeded) displacements are compared with a fresh Phonopy object in the current state and with the dense oracle. "
        "Non-trivial = supercell larger than the primitive cell and at least one unmasked mode.")
    run.cov["trusted_base"] = [
        "Lean 4.33 kernel; Mathlib v4.33; axioms per theorem in coverage.theorems",
        "hand-written models Model/RandomDisp.lean, Model/ThermalDisp.lean tied to random_displacements.py, dynmat_to_fc.py, "
        "c/dynmat.c (transform_dynmat_to_fc), thermal_displacement.py by this correspondence run; the population guard temperature is "
        "read from the source text on every run",
        "eigh, cos/exp phase factors, sigma(lambda,T) before masking, the Bose factor, sqrt are parameters: the harness passes the "
        "floats the code used (or recomputes them with numpy in the code's order) as exact rationals",
        "nanobind replaced by harness/nbstub (c/_phonopy.cpp itself is compiled unchanged)",
        "float rounding outside the model: comparison tolerance 1e-9*max|entry|",
    ]
    run.assumptions += [
        "normality/independence of numpy's generator is outside the model: only the linear map z -> u is verified",
        "IEEE rounding is not modelled",
        "character orthogonality of the commensurate points and D(-q) = conj D(q) are hypotheses of d2f_identity (checked numerically per case; proved by C06/C03)",
        "max_distance clipping of RandomDisplacements.run is not part of the linear map and not covered",
    ]

    lines, meta = [], []

    # =========================================================== random displacements
    from phonopy.interface.calculator import get_default_physical_units
    from phonopy.units import Bohr, Hartree, Rydberg, VaspToTHz

    # the same crystal in three unit systems: (label, length unit in Angstrom, energy unit in eV, frequency factor to THz)
    UNITSYS = [("eV/Angstrom (default factor)", 1.0, 1.0, VaspToTHz),
               ("Ry/bohr (factor=PwscfToTHz)", Bohr, Rydberg, get_default_physical_units("qe")["factor"]),
               ("hartree/bohr (factor of cp2k)", Bohr, Hartree, get_default_physical_units("cp2k")["factor"])]
    nrd = 96 if thorough else 12
    max_ns = 18 if thorough else 10
    made = attempts = 0
    while made < nrd and attempts < 30 * nrd:
        attempts += 1
        name = rng.choice(["sc1", "tri1", "cscl", "nacl_prim", "zincblende_prim", "hcp", "bct", "mono_P", "triclinic"])
        cell = make_cell(name)
        sclass = SMAT_CLASSES[made % 4]
        want_pairs = sclass.startswith("ij")
        smat = rng.choice(SMATS[sclass])
        ns = len(cell) * int(round(abs(np.linalg.det(smat))))
        if ns > max_ns or ns < 2:
            continue
        relabel = None
        if made % 4 in (1, 2):  # the whole oracle and correspondence on a relabelled description; made % 4 == 1: left-handed
            relabel = rng.choice(["swap12", "negate3", "invert"]) if made % 4 == 1 else rng.choice(["shear", "cyclic"])
            cell, _, smapf_ = gen.relabelled_cell(cell, gen.UNIMODULAR[relabel])
            smat = smapf_(smat)
        ulabel, ulen, uen, factor = UNITSYS[made % 3]
        mode = ["quantum", "classical"][(made // 3) % 2]  # every unit system meets both statistics within 6 cases
        try:
            phA = Phonopy(cell, supercell_matrix=smat, primitive_matrix="P", log_level=0)
            fcA = gen.pair_fc(phA.supercell, rng.choice([3.5, 4.5]))  # eV/Angstrom^2
            cellu = cell.copy()
            cellu.cell = cell.cell / ulen
            ph = Phonopy(cellu, supercell_matrix=smat, primitive_matrix="P", log_level=0, factor=factor)
        except Exception:
            run.count("constructor-rejected")
            continue
        fc = fcA * ulen ** 2 / uen
        ph.force_constants = fc.copy()
        cutoff = rng.choice([None, 0.5, 3.0])
        cut = 0.01 if cutoff is None else cutoff
        if made % 2 == 0:
            rd = RandomDisplacements(ph.supercell, ph.primitive, ph.force_constants, dist_func=mode, cutoff_frequency=cutoff, factor=factor)
        else:  # through the public API (passes the unit factor and the OpenMP flag)
            ph.init_random_displacements(dist_func=mode, cutoff_frequency=cutoff)
            rd = ph.random_displacements
        T = rng.choice([0.0, 0.3, 1.0, 10.0, 300.0, 1000.0])
        nii, nij, nb = mode_counts(rd)
        has_pairs = nij > 0
        if want_pairs != has_pairs:
            run.count("rd: smat class differs from expectation")
        info0 = dict(cell=name, smat=np.array(smat).tolist(), relabelling=relabel, signed_cell_volume=float(np.linalg.det(cell.cell)),
                     units=ulabel, factor=float(factor), dist_func=mode, cutoff=cutoff, T=T)
        info = dict(info0, n_ii=nii, n_ij=nij)
        npa, nsat = len(ph.primitive), len(ph.supercell)
        N = nsat // npa

        # ---------------- oracle on the implementation: public API only
        A = linmap(rd, T)
        covI = A @ A.T
        # the path without `randn`: whatever the layout of the requests to the generator, two snapshots must be two independent
        # copies of the canonical ensemble (covariance kron(1_2, C)); the `randn` layout itself is only a counted observation
        def _two_snapshots():
            rd.run(T, number_of_snapshots=2, random_seed=3)
            return rd.u
        G2 = generator_linear_map(_two_snapshots)
        cov_gen = None if G2 is None else G2 @ G2.T
        if G2 is None:
            run.count("oracle-rd-generator-path: not observable through Generator.standard_normal", section="oracle")
        A_gen = linmap_via_generator(rd, T)
        run.count("observation: generator requests have the layout of `randn`: %s" % (A_gen is not None and np.array_equal(A_gen, A)))
        # frequencies = frequencies must leave the ensemble alone (checked below against the canonical covariance)
        rd.frequencies = rd.frequencies
        A_rt = linmap(rd, T)
        cov_rt = A_rt @ A_rt.T
        rd.run_correlation_matrix(T)
        uu, uui = rd.uu.copy(), rd.uu_inv.copy()
        rd.run_d2f()
        fc_back = rd.force_constants.copy()
        C, rank, fsc = dense_oracle(ph, T, cut, mode, factor)
        scale = max(np.abs(C).max(), 1e-300)
        near_cut = np.abs(fsc - cut).min() < 1e-6
        nontrivial = nsat > npa and rank > 0
        run.case(("rd", name, np.array(smat).tolist(), ulabel, mode, cutoff, T), nontrivial=nontrivial)
        run.count("rd %s" % ("with conjugate pairs" if has_pairs else "self-conjugate points only"))
        run.count("rd supercell matrix %s" % ("non-symmetric" if (np.array(smat) != np.array(smat).T).any() else "symmetric"))
        run.count("rd description: %s" % ("as tabulated" if relabel is None else "relabelled (%s, %s-handed)" % (relabel, "left" if np.linalg.det(cell.cell) < 0 else "right")))
        run.count("rd %s, %s" % (mode, ulabel))
        run.count("rd T=%g" % T)
        run.count("rd cutoff=%s" % cutoff)
        run.sample(dict(info, n_patom=npa, n_satom=nsat, unmasked_modes=rank))
        made += 1
        klass = ("pairs" if has_pairs else "self-conjugate") + "-" + mode + ("" if made % 3 == 1 else "-nondefault-factor")
        if near_cut:
            run.count("oracle-skip: a mode sits on the cutoff", section="oracle")
        else:
            if cov_gen is not None:
                run.count("oracle-rd-generator-path", section="oracle")
                if np.abs(cov_gen - np.kron(np.eye(2), C)).max() > 1e-8 * scale:
                    run.violation("RandomDisplacements.run(randn=None)", "generator-path-covariance",
                                  "two snapshots drawn through the random generator do not have covariance kron(1, C) with the canonical C "
                                  "(max deviation %.3g, scale %.3g)" % (np.abs(cov_gen - np.kron(np.eye(2), C)).max(), scale), info0)
            run.count("oracle-rd-frequencies-roundtrip", section="oracle")
            if np.abs(cov_rt - C).max() > 1e-8 * scale:
                run.violation("RandomDisplacements.frequencies", "setter-getter-roundtrip",
                              "after frequencies = frequencies the sampler's covariance differs from the canonical one by %.3g (scale %.3g)" % (
                                  np.abs(cov_rt - C).max(), scale), info0)
            run.count("oracle-rd-covariance", section="oracle")
            if np.abs(covI - C).max() > 1e-8 * scale:
                run.violation("RandomDisplacements.run", klass, "covariance A.A^T of the sampler differs from the canonical covariance by %.3g (scale %.3g; units %s)" % (
                    np.abs(covI - C).max(), scale, ulabel), info)
            U = uu.transpose(0, 2, 1, 3).reshape(3 * nsat, 3 * nsat)
            Ui = uui.transpose(0, 2, 1, 3).reshape(3 * nsat, 3 * nsat)
            if np.abs(U - C).max() > 1e-8 * scale:
                run.violation("RandomDisplacements.run_correlation_matrix", klass, "uu differs from the canonical covariance by %.3g (scale %.3g; units %s)" % (
                    np.abs(U - C).max(), scale, ulabel), info)
            if rank > 0 and T > 0 and np.isfinite(Ui).all():
                P = U @ Ui
                e1 = np.abs(U @ Ui @ U - U).max() / scale
                e2 = np.abs(Ui @ U @ Ui - Ui).max() / max(np.abs(Ui).max(), 1e-300)
                e3 = abs(np.trace(P) - rank)
                m3 = np.sqrt(np.outer(np.repeat(ph.supercell.masses, 3), np.repeat(ph.supercell.masses, 3)))
                Ci = np.linalg.pinv(C * m3, rcond=1e-10, hermitian=True) * m3  # M^1/2 (M^1/2 C M^1/2)^+ M^1/2
                e4 = np.abs(Ui - Ci).max() / max(np.abs(Ci).max(), 1e-300)
                run.count("oracle-rd-uu_inv", section="oracle")
                if e1 > 1e-7 or e2 > 1e-7 or e3 > 1e-6 * max(1, rank) or e4 > 1e-6:
                    run.violation("RandomDisplacements.run_correlation_matrix", klass + "-uu_inv",
                                  "uu_inv is not the inverse of the canonical covariance on the unmasked subspace (|UVU-U|=%.3g, |VUV-V|=%.3g, "
                                  "tr(UV)-rank=%.3g, |V - M^1/2 pinv(M^1/2 C M^1/2) M^1/2|=%.3g)" % (e1, e2, e3, e4), info)
            run.count("oracle-rd-d2f", section="oracle")
            if np.abs(fc_back - fc).max() > 1e-9 * max(1.0, np.abs(fc).max()):
                run.violation("RandomDisplacements.run_d2f", klass, "force constants rebuilt from unmodified eigen-solutions differ by %.3g" % np.abs(fc_back - fc).max(), info)

        # ---------------- model inputs (private eigen-solutions of the object): a refactoring that removes them must not
        # abort the oracle above; it makes the correspondence unavailable, which is reported as such
        try:
            eii = np.array(rd._eigvecs_ii, dtype="double")
            cosii = np.array([p.ravel() for p in rd._phase_ii], dtype="double")
            eij = np.array(rd._eigvecs_ij, dtype=complex) if nij else np.zeros((0, nb, nb), dtype=complex)
            phij = np.array([p.ravel() for p in rd._phase_ij], dtype=complex) if nij else np.zeros((0, nsat), dtype=complex)
            lam_ii = np.array(rd._eigvals_ii, dtype="double")
            lam_ij = np.array(rd._eigvals_ij, dtype="double") if nij else np.zeros((0, nb))
            s2pp = np.array(rd._s2pp, dtype=int)
            comm = np.array(rd._comm_points)
            ii_idx, ij_idx = list(rd._ii), list(rd._ij)
            qpts, _, _ = rd._collect_eigensolutions()
        except AttributeError as e:
            run.broke("correspondence", "private eigen-solutions of RandomDisplacements are not accessible (%s): model inputs unavailable" % e, info)
            continue
        fii, sii = sigma_raw(mode, factor, cut, lam_ii, T)
        fij, sij = sigma_raw(mode, factor, cut, lam_ij, T) if nij else (np.zeros((0, nb)), np.zeros((0, nb)))
        sii = np.nan_to_num(sii, nan=0.0, posinf=0.0, neginf=0.0)
        sij = np.nan_to_num(sij, nan=0.0, posinf=0.0, neginf=0.0)
        mass = ph.supercell.masses
        rm = np.sqrt(mass * N)
        lines.append("rd %d %d %d %d %s %s %s %s %s %s %s %s %s %s %s %s" % (
            npa, nsat, nii, nij, Q(cut), " ".join(map(str, s2pp)), _flat(eii), _flat(cosii), _flatc(eij), _flatc(phij),
            _flat(fii), _flat(sii), _flat(fij), _flat(sij), _flat(rm), Q(np.sqrt(2))))
        nsat3 = 3 * nsat
        uu_full = uu.transpose(0, 2, 1, 3).reshape(nsat3, nsat3)
        uui_full = uui.transpose(0, 2, 1, 3).reshape(nsat3, nsat3)
        sig_ok = np.isfinite(uui_full).all()
        meta.append(("rd", info, dict(A=A, cov=covI, uu=uu_full, uui=uui_full if sig_ok else None)))
        # character orthogonality of the sampler's phase tables over every sublattice (hypothesis `ModesOrthonormal.char`)
        allph = np.vstack([cosii.astype(complex)] + ([phij, phij.conj()] if nij else []))
        hyp3 = 0.0
        for p_ in range(npa):
            sel = np.where(s2pp == p_)[0]
            g_ = allph[:, sel].conj() @ allph[:, sel].T
            hyp3 = max(hyp3, np.abs(g_ - N * np.eye(len(allph))).max() / N)
        run.count("hypotheses-checked(character orthogonality of the phase tables per sublattice)", section="correspondence")
        if hyp3 > 1e-8:
            run.broke("correspondence", "hypothesis ModesOrthonormal.char fails numerically (%.3g)" % hyp3, info)
        # correlation matrices
        qpts = np.array(qpts, dtype="double")
        pd = d2f_phases(ph.primitive, qpts)
        ppos = ph.primitive.scaled_positions
        vd = np.array([np.exp(-2j * np.pi * np.dot(ppos, qq)) for qq in qpts[:nii]])
        pm = ph.primitive.masses
        ms = np.array([[np.sqrt(pm[i] * pm[j]) for j in range(npa)] for i in range(npa)])
        head = "%d %d %d %d %s %s %s %s %s %s %s %s %s %s %s" % (
            npa, nsat, nii, nij, Q(cut), " ".join(map(str, s2pp)), _flat(eii), _flatc(vd), _flatc(eij),
            _flatc(pd[:nii]), _flatc(pd[nii:nii + nij]), _flatc(pd[nii + nij:]), _flat(ms), _flat(pm), _flat(mass))
        p2s = np.array(ph.primitive.p2s_map)
        lines.append("corr " + head + " %s %s %s %s" % (_flat(fii), _flat(sii), _flat(fij), _flat(sij)))
        meta.append(("corr", info, dict(uu=uu[p2s], uui=uui[p2s])))
        lines.append("d2f " + head + " %s %s %s %s" % (_flat(fii), _flat(lam_ii), _flat(fij), _flat(lam_ij) if nij else ""))
        meta.append(("d2f", info, dict(fc=fc_back[p2s])))
        lines.append("part %d %s %d %s %d %s" % (len(comm), " ".join(map(str, comm.ravel())), nii, " ".join(map(str, ii_idx)),
                                              nij, " ".join(map(str, ij_idx))))
        meta.append(("part", info, None))

        # ---- hypotheses of the theorems, checked numerically
        hyp = 0.0
        for E in list(eii) + list(eij):
            hyp = max(hyp, np.abs(E.conj().T @ E - np.eye(nb)).max())
        hyp = max(hyp, np.abs(np.abs(phij) - 1).max() if nij else 0.0, np.abs(np.abs(cosii) - 1).max())
        run.count("hypotheses-checked(orthonormal eigenvectors, unit phases)", section="correspondence")
        hyp2 = 0.0
        for q_ in range(nij):
            for i_ in range(npa):
                hyp2 = max(hyp2, np.abs(pd[nii + q_, :, i_] - phij[q_, p2s[i_]] * phij[q_].conj()).max(),
                           np.abs(pd[nii + nij + q_, :, i_] - pd[nii + q_, :, i_].conj()).max())
        for q_ in range(nii):
            for i_ in range(npa):
                hyp2 = max(hyp2, np.abs(vd[q_, i_] * vd[q_, s2pp].conj() * pd[q_, :, i_] - cosii[q_, p2s[i_]] * cosii[q_]).max())
        for i_ in range(npa):
            hyp2 = max(hyp2, np.abs(ms[i_, s2pp] / N / (pm[i_] * mass) * (rm[p2s[i_]] * rm) - 1).max())
            for j_ in range(nsat):
                same = np.where(s2pp == s2pp[j_])[0]
                g = (pd[:, same, i_].conj() * pd[:, [j_], i_]).sum(axis=0)
                want = np.where(same == j_, N, 0)
                hyp2 = max(hyp2, np.abs(g - want).max() / N)
        run.count("hypotheses-checked(d2f phases = sampler phases, character orthogonality, mass factor)", section="correspondence")
        if hyp2 > 1e-8:
            run.broke("correspondence", "hypothesis of uu_eq_cov/d2f_identity fails numerically (%.3g)" % hyp2, info)
        if hyp > 1e-8:
            run.broke("correspondence", "hypothesis of cov_eq_canonical fails numerically (%.3g)" % hyp, info)

    # =========================================================== description invariance (relabelled, also left-handed, lattice vectors)
    det_minus = ["swap12", "negate3", "invert"]
    rl_keys = [rng.choice(det_minus), rng.choice(["shear", "cyclic"] + det_minus)] + ([rng.choice(list(gen.UNIMODULAR))] * 2 if thorough else [])
    for ir_, key in enumerate(rl_keys):
        name = rng.choice(["cscl", "nacl_prim", "hcp", "mono_P", "zincblende_prim", "triclinic"])
        cell = make_cell(name)
        smat = rng.choice([np.diag([2, 2, 1]), np.diag([2, 1, 2]), np.diag([3, 1, 1]), np.array([[2, 1, 0], [0, 2, 0], [0, 0, 1]]), np.diag([2, 2, 2])])
        if len(cell) * int(round(abs(np.linalg.det(smat)))) > 12:
            smat = np.diag([2, 1, 1])
        M_ = np.array(gen.UNIMODULAR[key])
        cell2, qmap, smapf = gen.relabelled_cell(cell, M_)
        phA = Phonopy(cell, supercell_matrix=smat, primitive_matrix="P", log_level=0)
        phB = Phonopy(cell2, supercell_matrix=smapf(smat), primitive_matrix="P", log_level=0)
        for p_ in (phA, phB):
            p_.force_constants = gen.pair_fc(p_.supercell, 4.5)  # central pair potential: the same physical model
        mode = ["quantum", "classical"][ir_ % 2]
        T = rng.choice([50.0, 300.0, 800.0])
        info = dict(cell=name, smat=np.array(smat).tolist(), relabelling=key, det=int(round(np.linalg.det(M_))), dist_func=mode, T=T,
                    signed_volume_relabelled=float(phB.primitive.volume))
        tag = "description-dependence" + ("-left-handed" if info["det"] < 0 else "")
        run.case(("relabel", name, np.array(smat).tolist(), key, mode, T), nontrivial=True)
        run.count("relabelled description: %s (det %+d)" % (key, info["det"]))
        covs = []
        for p_ in (phA, phB):
            p_.init_random_displacements(dist_func=mode, cutoff_frequency=0.05)
            A_ = linmap(p_.random_displacements, T)
            covs.append(A_ @ A_.T)
        # sampler oracle on the relabelled supercell
        C, rank, fsc = dense_oracle(phB, T, 0.05, mode)
        scale = max(np.abs(C).max(), 1e-300)
        if np.abs(fsc - 0.05).min() > 1e-6:
            run.count("oracle-relabelled-covariance", section="oracle")
            if np.abs(covs[1] - C).max() > 1e-8 * scale:
                run.violation("RandomDisplacements.run", "relabelled-description" + ("-left-handed" if info["det"] < 0 else ""),
                              "covariance of the sampler on a relabelled supercell differs from the canonical covariance by %.3g (scale %.3g)" % (
                                  np.abs(covs[1] - C).max(), scale), info)
            # covariance per atom pair (Cartesian), atoms mapped by position
            pm_ = atom_map(phA.supercell, phB.supercell)
            idx = np.array([[3 * k_ + a_ for a_ in range(3)] for k_ in pm_]).ravel()
            run.count("oracle-relabelled-vs-original-covariance", section="oracle")
            if np.abs(covs[1][np.ix_(idx, idx)] - covs[0]).max() > 1e-8 * scale:
                run.violation("RandomDisplacements.run", tag, "Cartesian displacement covariance between the same atom pairs differs between two descriptions of the "
                              "same supercell by %.3g (scale %.3g)" % (np.abs(covs[1][np.ix_(idx, idx)] - covs[0]).max(), scale), info)
        # thermal displacement matrices (Gamma-centred mesh with equal odd numbers: the same set of q-points in both descriptions)
        temps = [0.0, 100.0, 700.0]
        Us = []
        for p_ in (phA, phB):
            p_.run_mesh([3, 3, 3], with_eigenvectors=True, is_mesh_symmetry=False, is_gamma_center=True)
            p_.run_thermal_displacement_matrices(temperatures=temps, freq_min=0.05)
            Us.append(p_.thermal_displacement_matrices.thermal_displacement_matrices.copy())
        pp_ = atom_map(phA.primitive, phB.primitive)
        run.count("oracle-relabelled-vs-original-thermal-displacement-matrices", section="oracle")
        if np.abs(Us[1][:, pp_] - Us[0]).max() > 1e-9 * max(np.abs(Us[0]).max(), 1e-300):
            run.violation("ThermalDisplacementMatrices.run", tag, "Cartesian mean-square displacement matrices of the same atoms differ between two descriptions of "
                          "the same crystal by %.3g (scale %.3g)" % (np.abs(Us[1][:, pp_] - Us[0]).max(), np.abs(Us[0]).max()), info)

    # =========================================================== API sequences on ONE Phonopy instance
    # generate at T -> mutate the state (masses / force constants in place / new force constants / NAC) -> generate again:
    # every generation must be the canonical one of the CURRENT state (reference: a fresh Phonopy object in that state)
    from phonopy.harmonic.force_constants import compact_fc_to_full_fc, full_fc_to_compact_fc

    seq_cases = [("cscl", np.diag([2, 2, 1]))]
    if thorough:
        seq_cases += [("nacl_prim", np.array([[2, 1, 0], [0, 2, 0], [0, 0, 1]])), ("hcp", np.diag([2, 1, 1])), ("zincblende_prim", np.diag([3, 1, 1]))]
    for (name, smat) in seq_cases:
        cell = make_cell(name)
        ph = Phonopy(cell, supercell_matrix=smat, primitive_matrix="P", log_level=0)
        fc0 = gen.pair_fc(ph.supercell, 4.5)
        # translationally periodic, but neither index-permutation symmetric nor obeying the sum rule (so the symmetrisers act)
        fcc = full_fc_to_compact_fc(ph.primitive, fc0)
        fcc = fcc + gen.rand_rational_array(rng, fcc.shape, den=256, lim=8)
        ph.force_constants = compact_fc_to_full_fc(ph.primitive, fcc)
        npa = len(ph.primitive)
        steps = [
            ("initial", lambda: None),
            ("masses", lambda: setattr(ph, "masses", ph.masses * np.array([rng.choice([0.5, 2.0, 3.0]) if i % 2 == 0 else 1.0 for i in range(npa)]))),
            ("symmetrize_force_constants", lambda: ph.symmetrize_force_constants(level=2)),
            ("symmetrize_force_constants_by_space_group", lambda: ph.symmetrize_force_constants_by_space_group()),
            ("set_force_constants_zero_with_radius", lambda: ph.set_force_constants_zero_with_radius(3.9)),
            ("new force constants", lambda: setattr(ph, "force_constants", gen.pair_fc(ph.supercell, 3.5))),
            ("nac_params", lambda: setattr(ph, "nac_params", {"born": np.array([np.eye(3) * (1.0 if i % 2 == 0 else -1.0) for i in range(npa)]),
                                                             "dielectric": np.eye(3) * 2.5, "factor": 14.399652, "method": "wang"})),
            ("masses again", lambda: setattr(ph, "masses", ph.masses * 1.5)),
        ]
        for k_, (label, act) in enumerate(steps):
            act()
            T = [300.0, 150.0, 600.0, 50.0, 900.0, 300.0, 20.0, 450.0][k_ % 8]
            def _gen_with(obj):
                def call():
                    obj.generate_displacements(number_of_snapshots=1, temperature=T)
                    return obj.displacements
                return call
            G_api = generator_linear_map(_gen_with(ph))
            # fresh object in the current state
            fresh = Phonopy(cell, supercell_matrix=smat, primitive_matrix="P", log_level=0)
            fresh.masses = ph.masses
            if ph.nac_params is not None:
                fresh.nac_params = ph.nac_params
            fresh.force_constants = np.array(ph.force_constants).copy()
            G_fresh = generator_linear_map(_gen_with(fresh))
            info = dict(cell=name, smat=np.array(smat).tolist(), step=k_, after=label, T=T, history=[st[0] for st in steps[:k_ + 1]])
            run.case(("seq", name, np.array(smat).tolist(), k_, label), nontrivial=k_ > 0)
            run.count("api-sequence step: %s" % label)
            if G_api is None or G_fresh is None:
                run.count("oracle-api-sequence: generate_displacements not observable through Generator.standard_normal", section="oracle")
                continue
            cov_api, cov_fresh = G_api @ G_api.T, G_fresh @ G_fresh.T
            scale = max(np.abs(cov_fresh).max(), 1e-300)
            run.count("oracle-api-sequence-vs-fresh-object", section="oracle")
            if np.abs(cov_api - cov_fresh).max() > 1e-9 * scale:
                dg = np.diag(cov_api).reshape(-1, 3).sum(axis=1) / np.maximum(np.diag(cov_fresh).reshape(-1, 3).sum(axis=1), 1e-300)
                run.violation("Phonopy.generate_displacements(temperature)", "after-" + label,
                              "the displacements generate_displacements produces (as a linear image of the generator's variates) have covariance "
                              "differing from that of a fresh Phonopy object in the current state by %.3g (scale %.3g); MSD ratio per atom %s" % (
                                  np.abs(cov_api - cov_fresh).max(), scale, np.round(dg, 3).tolist()), info)
            # independent dense oracle whenever the current force constants are symmetric (then D(q) needs no Hermitisation)
            fcn = np.array(ph.force_constants)
            if np.abs(fcn - fcn.transpose(1, 0, 3, 2)).max() < 1e-10 * max(1.0, np.abs(fcn).max()):
                C, rank, fsc = dense_oracle(ph, T, 0.01, "quantum")
                if np.abs(fsc - 0.01).min() > 1e-6:
                    run.count("oracle-api-sequence-vs-dense-covariance", section="oracle")
                    if np.abs(cov_api - C).max() > 1e-8 * max(np.abs(C).max(), 1e-300):
                        run.violation("Phonopy.generate_displacements(temperature)", "after-" + label + "-dense",
                                      "covariance of the displacements generate_displacements produces differs from the canonical covariance of the "
                                      "current supercell by %.3g (scale %.3g)" % (np.abs(cov_api - C).max(), np.abs(C).max()), info)

    # ---- the same through calculators whose length unit is not Angstrom: generate_displacements(temperature) hands the
    # displacements back in the calculator's length unit (units["distance_to_A"]), so their covariance is the canonical one of the
    # supercell expressed in that unit  (seeded change r7-c19: the division by distance_to_A was dropped)
    for calc, uen in (("qe", Rydberg), ("elk", Hartree), ("vasp", 1.0)) if not thorough else (("qe", Rydberg), ("elk", Hartree), ("wien2k", Rydberg / 1000), ("turbomole", Hartree), ("vasp", 1.0), ("crystal", 1.0)):
        units_ = get_default_physical_units(calc)
        d2A, fac_ = float(units_["distance_to_A"]), float(units_["factor"])
        name = rng.choice(["cscl", "nacl_prim", "tri1"])
        smat = rng.choice([np.diag([2, 2, 1]), np.array([[2, 1, 0], [0, 2, 0], [0, 0, 1]])])
        cell = make_cell(name)
        try:
            phA_ = Phonopy(cell, supercell_matrix=smat, primitive_matrix="P", log_level=0)
            fcA_ = gen.pair_fc(phA_.supercell, 4.5)
            cellu = cell.copy()
            cellu.cell = cell.cell / d2A
            phu = Phonopy(cellu, supercell_matrix=smat, primitive_matrix="P", log_level=0, factor=fac_, calculator=calc)
        except Exception:
            run.count("constructor-rejected")
            continue
        phu.force_constants = fcA_ * d2A ** 2 / uen
        T = rng.choice([50.0, 300.0, 900.0])
        def _gen_u():
            phu.generate_displacements(number_of_snapshots=1, temperature=T)
            return phu.displacements
        G_u = generator_linear_map(_gen_u)
        info = dict(cell=name, smat=np.array(smat).tolist(), calculator=calc, distance_to_A=d2A, factor=fac_, T=T)
        run.case(("calc-units", name, np.array(smat).tolist(), calc, T), nontrivial=d2A != 1.0)
        run.count("api calculator units: %s" % calc)
        if G_u is None:
            run.count("oracle-api-sequence: generate_displacements not observable through Generator.standard_normal", section="oracle")
            continue
        C_, rank_, fsc_ = dense_oracle(phu, T, 0.01, "quantum", fac_)
        if np.abs(fsc_ - 0.01).min() <= 1e-6:
            continue
        cov_u = G_u @ G_u.T * d2A ** 2  # Angstrom^2
        run.count("oracle-api-calculator-units-vs-dense-covariance", section="oracle")
        if np.abs(cov_u - C_).max() > 1e-8 * max(np.abs(C_).max(), 1e-300):
            tr = float(np.trace(cov_u) / max(np.trace(C_), 1e-300))
            run.violation("Phonopy.generate_displacements(temperature)", "calculator-length-unit",
                          "covariance of the generated displacements (calculator %s, length unit %.6g Angstrom) differs from the canonical covariance "
                          "of the supercell by %.3g (scale %.3g); trace ratio %.4g" % (calc, d2A, np.abs(cov_u - C_).max(), np.abs(C_).max(), tr), info)

    # =========================================================== thermal displacements
    ntd = 72 if thorough else 8
    f13_hits = 0
    for t in range(ntd):
        name = rng.choice(["sc1", "tri1", "cscl", "nacl_prim", "zincblende_prim", "hcp", "bct", "mono_P"])
        cell = make_cell(name)
        smat = rng.choice([np.diag([2, 2, 2]), np.diag([2, 2, 1]), np.diag([3, 1, 2]), np.array([[2, 1, 0], [0, 2, 0], [0, 0, 1]]),
                           np.array([[1, 1, 0], [-1, 2, 0], [0, 0, 2]])])
        if len(cell) * int(round(abs(np.linalg.det(smat)))) > 32:
            smat = np.diag([2, 2, 1])
        ph = Phonopy(cell, supercell_matrix=smat, primitive_matrix="P", log_level=0)
        fcscale = [1.0, 1e-4, 1e-6][t % 3]
        ph.force_constants = gen.pair_fc(ph.supercell, 4.5) * fcscale
        mesh = rng.choice([[2, 2, 2], [3, 3, 3], [3, 2, 2], [2, 3, 1]])
        gamma = rng.choice([True, False])
        ph.run_mesh(mesh, with_eigenvectors=True, is_mesh_symmetry=False, is_gamma_center=gamma)
        md = ph.get_mesh_dict()
        use_iter = t % 4 == 3
        fr, ev = md["frequencies"], md["eigenvectors"]
        fs = np.sqrt(fcscale)
        fmin = rng.choice([1e-3, 0.5, 2.0]) * fs
        fmax = rng.choice([None, None, 8.0 * fs])
        temps = [0.0, rng.choice([0.2, 0.5, 0.9]), 1.0, rng.choice([1.5, 3.0]), rng.choice([10.0, 50.0]), 300.0]
        if fcscale < 1e-5:
            # amplitudes grow like T / fc-scale; the implementation asserts |Im U| < 1e-10 ABSOLUTE, which rounding noise of very
            # large U would trip: keep the soft-lattice cases at low temperatures (they exist for the T <= 1 K range)
            temps = temps[:4] + [5.0, 10.0]
        if use_iter:  # the iterator form of the mesh must give the same numbers
            ph.init_mesh(mesh, with_eigenvectors=True, is_mesh_symmetry=False, is_gamma_center=gamma, use_iter_mesh=True)
            run.count("td through IterMesh")
        ph.run_thermal_displacement_matrices(temperatures=temps, freq_min=fmin, freq_max=fmax)
        tdm = ph.thermal_displacement_matrices
        U, Uc = tdm.thermal_displacement_matrices, tdm.thermal_displacement_matrices_cif
        ph.run_thermal_displacements(temperatures=temps, freq_min=fmin, freq_max=fmax)
        td = ph.thermal_displacements.thermal_displacements
        direction = np.array([rng.randint(-3, 3) for _ in range(3)], dtype=float)
        if not direction.any():
            direction = np.array([1.0, 2.0, 3.0])
        ph.run_thermal_displacements(temperatures=temps, freq_min=fmin, freq_max=fmax, direction=direction)
        tdp = ph.thermal_displacements.thermal_displacements
        # `direction` is given in reduced coordinates of the primitive cell; the class gets the Cartesian unit vector
        pdir = np.dot(direction, ph.primitive.cell)  # documented: direction in reduced coordinates -> Cartesian, normalised
        pdir = pdir / np.linalg.norm(pdir)
        npa = len(ph.primitive)
        nb = 3 * npa
        nq = len(fr)
        m_amu = ph.primitive.masses * AMU
        info = dict(cell=name, smat=np.array(smat).tolist(), mesh=list(map(int, mesh)), gamma_center=bool(gamma), fc_scale=fcscale, fmin=float(fmin),
                    fmax=None if fmax is None else float(fmax), direction=direction.tolist())
        Amat = ph.primitive.cell.T
        Nn = np.diag([np.linalg.norm(x) for x in np.linalg.inv(Amat)])
        AN = Amat @ Nn
        valid = fr > fmin
        if fmax is not None:
            valid = valid & (fr < fmax)
        run.case(("td", name, np.array(smat).tolist(), tuple(mesh), gamma, fcscale, float(fmin), fmax, direction.tolist()), nontrivial=bool(valid.any()))
        run.count("td fc-scale=%g" % fcscale)
        run.count("td %s" % name)
        run.sample(dict(info, temperatures=temps, n_qpoints=nq, lowest_included_THz=float(fr[valid].min()) if valid.any() else None))
        unit = Hbar * EV / Angstrom ** 2
        w = 1e12 * 2 * np.pi
        # adjacent (open) windows add up when no sampled frequency sits on the common edge
        fhi = float(fmax) if fmax is not None else float(fr.max() * 1.1 + 1.0)
        inside = np.sort(fr[(fr > fmin) & (fr < fhi)])
        if len(inside) >= 2 and fcscale >= 1e-5:
            k_ = rng.randrange(len(inside) - 1)
            if inside[k_ + 1] - inside[k_] > 1e-6 * max(1.0, abs(inside[k_])):
                fmid = float((inside[k_] + inside[k_ + 1]) / 2)
                outs = []
                for (lo_, hi_) in ((fmin, fhi), (fmin, fmid), (fmid, fhi)):
                    ph.run_thermal_displacement_matrices(temperatures=temps, freq_min=lo_, freq_max=hi_)
                    outs.append(ph.thermal_displacement_matrices.thermal_displacement_matrices.copy())
                run.count("oracle-td-window-additivity", section="oracle")
                if np.abs(outs[0] - outs[1] - outs[2]).max() > 1e-9 * max(np.abs(outs[0]).max(), 1e-300):
                    run.violation("ThermalDisplacementMatrices.run", "window-additivity",
                                  "U(fmin,fmax) != U(fmin,fmid) + U(fmid,fmax) (%.3g)" % np.abs(outs[0] - outs[1] - outs[2]).max(),
                                  dict(info, fmid=fmid, fhi=fhi))
        tm = ThermalMotion.__new__(ThermalMotion)
        for it, T in enumerate(temps):
            # ---- reference (independent): hbar (1/2 + n) / omega
            with np.errstate(all="ignore"):
                x = fr * THzToEv / (Kb * T) if T > 0 else np.full(fr.shape, np.inf)
                nref = np.where(np.isfinite(x), 1.0 / np.expm1(x), 0.0) if T > 0 else np.zeros(fr.shape)
            Q2 = unit * (nref + 0.5) / (np.where(valid, fr, 1.0) * w)
            R = np.zeros((npa, 3, 3))
            for iq in range(nq):
                for nu in range(nb):
                    if valid[iq, nu]:
                        v = ev[iq][:, nu].reshape(-1, 3)
                        for i in range(npa):
                            R[i] += Q2[iq, nu] * np.outer(v[i], v[i].conj()).real / m_amu[i]
            R /= nq
            sc = max(np.abs(R).max(), 1e-300)
            klass = "T<=guard" if 0 < T <= tguard else ("T=0" if T == 0 else "T>guard")
            run.count("oracle-td-%s" % klass, section="oracle")
            if np.abs(U[it] - R).max() > 1e-9 * sc:
                if 0 < T <= tguard:
                    f13_hits += 1
                run.violation("ThermalDisplacementMatrices.run", klass,
                              "mean-square displacement matrices differ from (hbar/2Nm) sum (1+2n)/omega e e* by %.3g relative at T=%g K "
                              "(lowest included frequency %.4g THz, n(f,T)=%.3g is dropped)" % (
                                  np.abs(U[it] - R).max() / sc, T, fr[valid].min() if valid.any() else float("nan"),
                                  nref[valid].max() if valid.any() else 0.0), dict(info, T=T))
            # structural properties on the implementation's own output
            su = max(np.abs(U[it]).max(), 1e-300)
            if np.abs(U[it] - U[it].transpose(0, 2, 1)).max() > 1e-12 * su:
                run.violation("ThermalDisplacementMatrices.run", "not-symmetric", "U != U^T", dict(info, T=T))
            if min(np.linalg.eigvalsh(xx).min() for xx in U[it]) < -1e-10 * su:
                run.violation("ThermalDisplacementMatrices.run", "not-psd", "negative eigenvalue", dict(info, T=T))
            dg = np.array([np.diag(xx) for xx in U[it]]).ravel()
            if np.abs(dg - td[it]).max() > 1e-9 * su:
                run.violation("ThermalDisplacements.run", "diag-mismatch", "MSD differ from the diagonal of the MSD matrices by %.3g" % np.abs(dg - td[it]).max(), dict(info, T=T))
            pr = np.array([pdir @ xx @ pdir for xx in U[it]])
            if np.abs(pr - tdp[it]).max() > 1e-9 * su:
                run.violation("ThermalDisplacements.run(projection_direction)", "projection-mismatch",
                              "projected MSD differ from n^T U n by %.3g" % np.abs(pr - tdp[it]).max(), dict(info, T=T))
            cif_err = max(np.abs(AN @ Uc[it][i] @ AN.T - U[it][i]).max() for i in range(npa))
            if cif_err > 1e-9 * su:
                run.violation("ThermalDisplacementMatrices.run", "cif-convention", "A N U_cif N^T A^T != U_cart (%.3g)" % cif_err, dict(info, T=T))
            # mass-weighted trace: sum_i m_i tr U_i = (1/Nq) sum over the sampled modes of Q2 (normalised eigenvectors)
            trm = float((m_amu[:, None] * np.array([np.diag(xx) for xx in U[it]])).sum())
            q2s = float(Q2[valid].sum() / nq) if valid.any() else 0.0
            if klass != "T<=guard" and abs(trm - q2s) > 1e-9 * max(abs(q2s), 1e-300):
                run.violation("ThermalDisplacementMatrices.run", "mass-weighted-trace", "sum_i m_i tr U_i = %.12g, (1/Nq) sum Q2 = %.12g" % (trm, q2s), dict(info, T=T))
            run.count("oracle-td-structure", section="oracle")
            # ---- model request: the Bose factor is a parameter; the model applies the guard read from the source
            with np.errstate(all="ignore"):
                if T > tguard:
                    try:
                        nbe = np.array([[tm._get_population(fr[iq, nu], T) if fr[iq, nu] > 0 else 0.0 for nu in range(nb)] for iq in range(nq)])
                    except AttributeError:
                        nbe = nref  # the code's own Bose factor is not accessible: the documented one
                else:
                    nbe = nref
            nbe = np.nan_to_num(np.where(valid, nbe, 0.0), nan=0.0, posinf=0.0, neginf=0.0)
            if it in (1, 2, 3, 5):
                lines.append("tdm %d %d %s %s %s %s %s %d %s %s %s %s %s %s %s %s" % (
                    npa, nq, Q(unit), Q(w), Q(tguard), Q(T), Q(fmin), 0 if fmax is None else 1, Q(0.0 if fmax is None else fmax),
                    Q(1e-10), _flat(fr), _flatc(np.array(ev)), _flat(m_amu), _flat(nbe), _flat(np.linalg.inv(AN)), _flat(pdir)))
                meta.append(("tdm", dict(info, T=T), dict(U=U[it], Uc=Uc[it], td=td[it], tdp=tdp[it])))

    # =========================================================== correspondence with the Lean model
    out = common.lean_run_driver("C19", lines)
    if len(out) != len(lines):
        run.broke("correspondence", "driver answered %d lines for %d requests" % (len(out), len(lines)))
    ncmp = 0

    def vec(sx):
        return np.array([float(Fraction(tk)) for tk in sx.split()]) if sx.strip() else np.zeros(0)

    def cmp(kind, name_, ref, mod, info):
        nonlocal ncmp
        ncmp += 1
        run.count("%s-%s" % (kind, name_), section="correspondence")
        ref = np.asarray(ref, dtype="double").ravel()
        if ref.shape != mod.shape:
            run.broke("correspondence", "%s/%s: shape %s vs %s" % (kind, name_, ref.shape, mod.shape), info)
            return
        sc = max(np.abs(ref).max(), 1e-300) if ref.size else 1.0
        if ref.size and np.abs(ref - mod).max() > TOL * sc:
            run.broke("correspondence", "%s/%s: implementation differs from model by %.3g (scale %.3g)" % (kind, name_, np.abs(ref - mod).max(), sc), info)

    for (kind, info, ref), line in zip(meta, out):
        if line == "bad-op":
            run.broke("correspondence", "model rejected input (%s)" % kind, info)
            continue
        if kind == "rd":
            flag, rest = line.split(" ", 1) if " " in line else (line, "")
            a_s, c_s, v_s = rest.split("|")
            if flag != "same":
                run.broke("correspondence", "model: displ on unit vectors differs from the coefficient matrix", info)
            cmp(kind, "A", ref["A"], vec(a_s), info)
            cmp(kind, "AAt", ref["cov"], vec(c_s), info)
            cmp(kind, "uu-full(all supercell rows)", ref["uu"], vec(c_s), info)
            if ref["uui"] is not None:
                cmp(kind, "uu_inv-full(all supercell rows)", ref["uui"], vec(v_s), info)
        elif kind == "corr":
            u_s, v_s = line.split("|")
            cmp(kind, "uu", ref["uu"], vec(u_s), info)
            cmp(kind, "uu_inv", ref["uui"], vec(v_s), info)
        elif kind == "d2f":
            cmp(kind, "fc", ref["fc"], vec(line), info)
        elif kind == "part":
            run.count("partition-certificates", section="correspondence")
            if line != "true":
                run.broke("correspondence", "partition certificate fails on categorize_commensurate_points output", info)
        elif kind == "tdm":
            if line == "assert-imag":
                run.broke("correspondence", "model: imaginary-part assertion fails where the implementation passed", info)
                continue
            p = line.split("|")
            cmp(kind, "U", ref["U"], vec(p[0]), info)
            cmp(kind, "Ucif", ref["Uc"], vec(p[1]), info)
            cmp(kind, "msd", ref["td"], vec(p[2]), info)
            cmp(kind, "msd-projected", ref["tdp"], vec(p[3]), info)
    run.cov["correspondence"]["compared"] = ncmp
    run.cov["oracle"]["population-dropped-at-T<=guard(cases)"] = f13_hits
    run.cov["partial"] = [
        "d2f_identity: eigh exactness, D(-q)=conj D(q) and character orthogonality are hypotheses; the end-to-end statement is carried by the oracle (run_d2f returns the input force constants)",
        "uu_eq_cov: theorem under phase-table hypotheses that are checked numerically per case",
    ]
