"""C18: the per-key value parsers (DIM, MESH/MP, BAND, PRIMITIVE_AXES, PDOS, temperatures, booleans, fracval)
of cui/settings.py against their Lean models (Model/SettingsKeys.lean), on generated value strings:
valid ones (ints / fractions / decimals / letters / spacing variants) and malformed ones (wrong counts, zero
denominators, garbage tokens, empty).  The real side is PhonopyConfParser on a conf file `TAG = value` (and the
option route where one exists); `setting_error` (SystemExit) is `exit`, an uncaught exception is `exc`."""

from __future__ import annotations

import os
from fractions import Fraction

import numpy as np

from .. import common
from . import c18_util as U

SITE = "PhonopyConfParser"

INTS = ["0", "1", "2", "3", "4", "5", "7", "12", "-1", "-2", "+3", "007"]
FLOATS = ["0.5", ".5", "5.", "1e-3", "-2.5E2", "33.5", "100", "0.0", "1.25e+1", "-0.125", "+1.5", "20"]
FRACS = ["1/2", "-1/3", "2/4", "1/4", "3/8", "0.5/2", "1/2/3", "-1/-2", "+1/3", "0/5", "1e0/4"]
GARBAGE = ["x", "1x", "--1", "1/", "/2", "1.2.3", "e5", "1e", ".", "+", "1//2", "a/b", "1/0", "1/0.0", "0/0", "2.0.", "3-"]
SEPS = [" ", " ", "  ", "\t", " \t "]


def _join(rng, toks):
    out = ""
    for i, t in enumerate(toks):
        if i:
            out += rng.choice(SEPS)
        out += t
    return out


def _hex(s):
    return s.encode("ascii").hex() or "-"


def _pick(rng, pool, n):
    return [rng.choice(pool) for _ in range(n)]


def gen_dim(rng):
    k = rng.random()
    if k < 0.35:
        return _join(rng, _pick(rng, ["1", "2", "3", "4", "+2", "01"], 3))
    if k < 0.6:
        return _join(rng, _pick(rng, ["0", "1", "1", "2", "-1", "-2", "3"], 9))
    if k < 0.7:
        return _join(rng, _pick(rng, INTS, 3))
    if k < 0.85:
        return _join(rng, _pick(rng, INTS, rng.choice([0, 1, 2, 4, 6, 8, 10])))
    toks = _pick(rng, INTS, rng.choice([3, 9]))
    toks[rng.randrange(len(toks))] = rng.choice(GARBAGE + ["2.0", "1/2"])
    return _join(rng, toks)


def gen_mesh(rng):
    k = rng.random()
    if k < 0.2:
        return rng.choice(FLOATS + ["8", "50"])
    if k < 0.5:
        return _join(rng, _pick(rng, ["1", "2", "3", "4", "8", "11"], 3))
    if k < 0.65:
        return _join(rng, _pick(rng, ["0", "1", "2", "-1", "3"], 9))
    if k < 0.85:
        return _join(rng, _pick(rng, INTS, rng.choice([0, 2, 4, 5, 8, 10])))
    toks = _pick(rng, INTS, rng.choice([1, 3, 9]))
    toks[rng.randrange(len(toks))] = rng.choice(GARBAGE + ["4.0", "1/2"])
    return _join(rng, toks)


def gen_band(rng):
    k = rng.random()
    if k < 0.1:
        return rng.choice(["auto", "AUTO", "Auto", " auto", "auto ", "aUtO"])
    nsec = rng.choice([1, 1, 2, 3])
    secs = []
    for _ in range(nsec):
        n = rng.choice([6, 6, 9, 12]) if k < 0.75 else rng.choice([0, 3, 5, 6, 7, 9, 10])
        toks = _pick(rng, FRACS[:7] + FLOATS[:6] + ["0", "0", "1", "1/2", "1/2"], n)
        if k > 0.9 and toks:
            toks[rng.randrange(len(toks))] = rng.choice(GARBAGE)
        secs.append(_join(rng, toks))
    s = rng.choice([",", ", ", " ,", " , "]).join(secs)
    if rng.random() < 0.07:
        s += ","
    return s


def gen_pa(rng):
    k = rng.random()
    if k < 0.12:
        return rng.choice(["auto", "AUTO", "Auto"])
    if k < 0.35:
        return rng.choice(["P", "F", "I", "A", "C", "R", "p", "f", "i", "a", "c", "r", "Q", "B", "PF", "x"])
    if k < 0.55:
        return rng.choice(["0 1/2 1/2 1/2 0 1/2 1/2 1/2 0", "1 0 0 0 1 0 0 0 1", "-1/2 1/2 1/2 1/2 -1/2 1/2 1/2 1/2 -1/2",
                           "0.5 0.5 0 0 0.5 0.5 0.5 0 0.5", "1 0 0 0 1/2 -1/2 0 1/2 1/2", "2/3 -1/3 -1/3 1/3 1/3 -2/3 1/3 1/3 1/3",
                           "1 0 0 0 1 0 0 0 0", "0 1 0 1 0 0 0 0 1", "1 0 0 0 1 0 0 0 1e-9", "1 0 0 0 1 0 0 0 1e-7"])
    if k < 0.75:
        return _join(rng, _pick(rng, ["0", "1", "1/2", "-1/2", "0.5", "1/3", "2/3", "-1/3"], 9))
    if k < 0.88:
        return _join(rng, _pick(rng, ["0", "1", "1/2"], rng.choice([0, 2, 3, 8, 10])))
    toks = _pick(rng, ["0", "1", "1/2"], 9)
    toks[rng.randrange(9)] = rng.choice(GARBAGE)
    return _join(rng, toks)


def gen_pdos(rng):
    k = rng.random()
    if k < 0.12:
        return rng.choice(["auto", "AUTO", " Auto"])
    groups = []
    for _ in range(rng.choice([1, 2, 2, 3])):
        toks = _pick(rng, ["1", "2", "3", "4", "10", "0", "+5"], rng.choice([1, 2, 3, 0 if k > 0.8 else 2]))
        if k > 0.9 and toks:
            toks[rng.randrange(len(toks))] = rng.choice(GARBAGE + ["1.0"])
        groups.append(_join(rng, toks))
    return rng.choice([",", ", ", " , "]).join(groups)


def gen_float(rng):
    k = rng.random()
    if k < 0.7:
        return rng.choice(FLOATS + INTS)
    return rng.choice(GARBAGE + FRACS[:3] + ["", "1 2"])


# integer matrices of determinant exactly 1 whose float determinant (LU) is 0.9999999999999998
DIM_FIXED = ["3 -2 1 0 0 1 -2 1 1", "0 0 1 2 1 0 3 2 1", "1 0 0 0 1 0 0 0 1", "2 0 0 0 2 0 0 0 2"]

BOOLS = [".TRUE.", ".true.", ".True.", ".tRuE.", ".FALSE.", ".false.", ".False.", ".fAlSe.", "TRUE", ".T.", "true", "1", ".true", "true.", ".truee.", "", ".FALSE"]


# ---- real values -> canonical

def _fl(x):
    return float(x)


def canon_real(key, settings):
    if key == "dim":
        m = settings["supercell_matrix"]
        return None if m is None else ("dim", [int(x) for x in np.asarray(m).ravel()])
    if key == "mesh":
        m = settings["mesh_numbers"]
        if m is None:
            return None
        if isinstance(m, float):
            return ("L", [m])
        a = np.asarray(m)
        return ("3" if a.size == 3 else "9", [int(x) for x in a.ravel()])
    if key == "band":
        b = settings["band_paths"]
        if b is None:
            return None
        if isinstance(b, str):
            return ("auto", [])
        return ("P", [[_fl(x) for x in np.asarray(sec).ravel()] for sec in b])
    if key == "pa":
        p = settings["primitive_matrix"]
        if p is None:
            return None
        if isinstance(p, str):
            return ("auto", []) if p == "auto" else ("letter", p)
        return ("M", [_fl(x) for x in np.asarray(p).ravel()])
    if key == "pdos":
        p = settings["pdos_indices"]
        if p is None:
            return None
        if isinstance(p, str):
            return ("auto", [])
        return ("G", [[int(x) for x in g] for g in p])
    raise KeyError(key)


def canon_model(key, ans):
    """`ok …` answer of the driver -> the same canonical form (rationals as Fractions)"""
    body = ans[3:]
    if key == "dim":
        return ("dim", [int(x) for x in body.split()])
    if key == "mesh":
        kind, _, rest = body.partition(" ")
        return (kind, [Fraction(x) for x in rest.split()] if kind == "L" else [int(x) for x in rest.split()])
    if key == "band":
        if body == "auto":
            return ("auto", [])
        return ("P", [[Fraction(x) for x in sec.split()] for sec in body[2:].split("|")])
    if key == "pa":
        if body == "auto":
            return ("auto", [])
        if body.startswith("letter "):
            return ("letter", body[7:])
        return ("M", [Fraction(x) for x in body[2:].split()])
    if key == "pdos":
        if body == "auto":
            return ("auto", [])
        return ("G", [[int(x) for x in g.split()] for g in body[2:].split("|")])
    raise KeyError(key)


def _same(a, b):
    """canonical forms equal; Fractions vs floats within 1e-12 relative"""
    if type(a) is not type(b) and not (isinstance(a, (int, float, Fraction)) and isinstance(b, (int, float, Fraction))):
        return False
    if isinstance(a, (list, tuple)):
        return len(a) == len(b) and all(_same(x, y) for x, y in zip(a, b))
    if isinstance(a, str):
        return a == b
    return abs(float(a) - float(b)) <= 1e-12 * max(1.0, abs(float(b)))


KEYS = {
    # model op : (conf tag, generator, option flag per variant or None)
    "dim": ("DIM", gen_dim, {"phonopy": "--dim"}),
    "mesh": ("MESH", gen_mesh, {"phonopy": "--mesh", "load": "--mesh"}),
    "band": ("BAND", gen_band, {"phonopy": "--band", "load": "--band"}),
    "pa": ("PRIMITIVE_AXES", gen_pa, {"phonopy": "--pa", "load": "--pa"}),
    "pdos": ("PDOS", gen_pdos, {"phonopy": "--pdos", "load": "--pdos"}),
}
MESH_TAGS = ["MESH", "MP", "MESH_NUMBERS"]
PA_TAGS = ["PRIMITIVE_AXES", "PRIMITIVE_AXIS"]
FLOAT_TAGS = [("TMIN", "min_temperature", "--tmin"), ("TMAX", "max_temperature", "--tmax"), ("TSTEP", "temperature_step", "--tstep"),
              ("CUTOFF_FREQUENCY", "cutoff_frequency", "--cutoff-freq"), ("FPITCH", "frequency_pitch", "--fpitch")]
BOOL_TAGS = [("TPROP", "is_thermal_properties"), ("EIGENVECTORS", "is_eigenvectors"), ("NAC", "is_nac"), ("GAMMA_CENTER", "is_gamma_center")]


def key_checks(run, tmp):
    rng = run.rng
    thorough = run.tier == "thorough"
    n_per_key = 1000 if thorough else 36
    conf = os.path.join(tmp, "key.conf")
    lines, meta = [], []

    def real_file(tag, value, variant="phonopy"):
        U.write_conf(conf, ["%s = %s" % (tag, value)])
        r = U.real_parse(variant, conf_path=conf, argv=[])
        os.remove(conf)
        return r

    def route_check(key, tag, value, flag, variant, rf, attr_of):
        """the option route on the same value string"""
        if flag is None or not value.strip() or value.strip().startswith("-"):
            return
        toks = value.split()
        argv = [flag] + (toks if rng.random() < 0.5 and not any(t.startswith("-") for t in toks) else [value])
        ro = U.real_parse(variant, argv=argv)
        run.count("key parsers: option route", section="oracle")
        fa = attr_of(rf) if rf.kind == "ok" else None
        oa = attr_of(ro) if ro.kind == "ok" else None
        if (rf.kind == "ok") != (ro.kind == "ok") or (rf.kind == "ok" and U.canon(fa) != U.canon(oa)):
            run.violation(SITE, "option-and-tag-differ", "`%s = %s` gives %s, `%s` gives %s" % (
                tag, value, U.plain(fa) if rf.kind == "ok" else rf.kind + ": " + str(rf.detail), " ".join(argv),
                U.plain(oa) if ro.kind == "ok" else ro.kind + ": " + str(ro.detail)), dict(variant=variant, conf=["%s = %s" % (tag, value)], argv=argv))

    # ---- structured keys
    for key, (tag0, gen, flags) in KEYS.items():
        fixed = DIM_FIXED if key == "dim" else []
        for i in range(n_per_key + len(fixed)):
            value = fixed[i] if i < len(fixed) else gen(rng)
            tag = rng.choice(MESH_TAGS) if key == "mesh" else (rng.choice(PA_TAGS) if key == "pa" else tag0)
            variant = rng.choice([v for v in ("phonopy", "load")])
            rf = real_file(tag, value, variant)
            lines.append("key %s %s" % (key, _hex(value.strip())))
            meta.append((key, tag, value, rf))
            run.case(("key", key, value), nontrivial=True)
            run.count("key parsers: %s %s" % (key, rf.kind), section="correspondence")
            if i % 3 == 0:
                attr = {"dim": "supercell_matrix", "mesh": "mesh_numbers", "band": "band_paths", "pa": "primitive_matrix", "pdos": "pdos_indices"}[key]
                route_check(key, tag0, value, flags.get(variant), variant, rf, lambda r, attr=attr: r.settings[attr])
    # ---- floats
    for i in range(n_per_key):
        tag, attr, flag = rng.choice(FLOAT_TAGS)
        value = gen_float(rng)
        rf = real_file(tag, value)
        lines.append("key float %s" % _hex(value.strip()))
        meta.append(("float:" + attr, tag, value, rf))
        run.case(("key", "float", tag, value), nontrivial=True)
        run.count("key parsers: float %s" % rf.kind, section="correspondence")
    # ---- fracval through Q_DIRECTION (three fractions)
    for i in range(n_per_key):
        toks = _pick(rng, FRACS + FLOATS + INTS if rng.random() < 0.8 else GARBAGE + FRACS, 3)
        value = _join(rng, toks)
        rf = real_file("Q_DIRECTION", value)
        for t in toks:
            lines.append("key frac %s" % _hex(t))
        meta.append(("frac3", "Q_DIRECTION", toks, rf))
        run.case(("key", "frac3", value), nontrivial=True)
        run.count("key parsers: fracval %s" % rf.kind, section="correspondence")
    # ---- booleans
    for tag, attr in BOOL_TAGS:
        for value in BOOLS:
            for variant in ("phonopy", "load"):
                rf = real_file(tag, value, variant)
                dflt = U.real_parse(variant, argv=[])
                lines.append("key bool %s" % _hex(value))
                meta.append(("bool:" + attr, tag, value, (rf, dflt)))
                run.case(("key", "bool", tag, value, variant), nontrivial=True)
                run.count("key parsers: bool", section="correspondence")
    # ---- centring letters (get_primitive_matrix_by_centring)
    from phonopy.structure.cells import get_primitive_matrix_by_centring

    for c in "PFIACRXQ":
        lines.append("key centring %s" % _hex(c))
        meta.append(("centring", c, c, get_primitive_matrix_by_centring(c)))

    out = common.lean_run_driver("C18", lines)
    if len(out) != len(lines):
        run.broke("correspondence", "key parsers: driver answered %d lines for %d requests" % (len(out), len(lines)))
        return
    it = iter(out)
    nbad = 0

    def bad(what, detail):
        nonlocal nbad
        nbad += 1
        if nbad <= 8:
            run.broke("correspondence", "key parser: " + what, detail)

    for key, tag, value, rf in meta:
        if key == "frac3":
            answers = [next(it) for _ in value]
            kinds = [a if a in ("exit", "exc") else "ok" for a in answers]
            model_kind = next((k for k in kinds if k != "ok"), "ok")
            info = dict(tag=tag, value=value, model=answers, impl=rf.kind if rf.kind != "ok" else U.plain(rf.settings["nac_q_direction"]))
            if rf.kind != model_kind:
                bad("Q_DIRECTION (fracval): model %s, implementation %s (%s)" % (model_kind, rf.kind, rf.detail), info)
            elif rf.kind == "ok" and not _same([Fraction(a[3:]) for a in answers], [float(x) for x in rf.settings["nac_q_direction"]]):
                bad("Q_DIRECTION (fracval): values differ", info)
            continue
        ans = next(it)
        if key == "centring":
            want = "ok none" if rf is None else None
            if rf is None:
                if ans != want:
                    bad("centring letter %s: model %s, implementation None" % (tag, ans), dict(letter=tag))
            elif not ans.startswith("ok ") or ans == "ok none" or not _same([Fraction(x) for x in ans[3:].split()], [float(x) for x in np.asarray(rf).ravel()]):
                bad("centring letter %s: model %s, implementation %s" % (tag, ans, np.asarray(rf).tolist()), dict(letter=tag))
            continue
        if key.startswith("bool:"):
            r, dflt = rf
            attr = key[5:]
            if r.kind != "ok" or not ans.startswith("ok "):
                bad("boolean `%s = %s`: model %s, implementation %s" % (tag, value, ans, r.kind), dict(tag=tag, value=value))
                continue
            expect = {"ok T": True, "ok F": False}.get(ans, dflt.settings[attr])  # unset: the default stays
            if r.settings[attr] is not expect:
                bad("boolean `%s = %s`: model %s, implementation sets %s = %r (default %r)" % (tag, value, ans, attr, r.settings[attr], dflt.settings[attr]),
                    dict(tag=tag, value=value))
            continue
        model_kind = ans if ans in ("exit", "exc") else "ok"
        info = dict(tag=tag, value=value, model=ans[:200], impl=rf.kind + ("" if rf.kind == "ok" else ": " + str(rf.detail)))
        if key.startswith("float:"):
            attr = key[6:]
            if rf.kind != model_kind:
                bad("`%s = %s`: model %s, implementation %s" % (tag, value, model_kind, rf.kind), info)
            elif rf.kind == "ok" and not _same(Fraction(ans[3:]), rf.settings[attr]):
                bad("`%s = %s`: model %s, implementation %r" % (tag, value, ans, rf.settings[attr]), info)
            continue
        if key == "dim" and model_kind == "ok" and rf.kind == "exit":
            # the exact determinant is >= 1 (model accepts) and the parser rejects: float rounding of np.linalg.det
            m = np.array([int(x) for x in ans[3:].split()]).reshape(3, 3)
            lib = "?"
            try:
                from phonopy import Phonopy

                from .. import gen as G

                Phonopy(G.make_cell("nacl_prim")[0], supercell_matrix=m, log_level=0)
                lib = "accepts"
            except Exception as e:  # the library rejects as well: then it is not a front-end defect
                lib = "raises %s" % type(e).__name__
            if lib == "accepts":
                run.count("failing inputs: DIM of determinant 1 rejected", section="oracle")
                run.violation(SITE, "dim-unimodular-rejected",
                              "`DIM = %s` (integer determinant %d) is rejected: %s; np.linalg.det gives %r; Phonopy(supercell_matrix=...) %s it" % (
                                  " ".join(value.split()), int(round(float(np.linalg.det(m)))), str(rf.detail)[:80], float(np.linalg.det(m)), lib),
                              dict(variant="phonopy", conf=["DIM = " + " ".join(value.split())], argv=[]))
                continue
        if rf.kind != model_kind:
            bad("`%s = %s`: model %s, implementation %s" % (tag, value, model_kind, rf.kind), info)
            continue
        if rf.kind == "ok":
            cr = canon_real(key, rf.settings)
            cm = canon_model(key, ans)
            if cr is None or cr[0] != cm[0] or not _same(cm[1], cr[1]):
                info["impl_value"] = U.plain(cr)
                bad("`%s = %s`: parsed values differ" % (tag, value), info)
    run.cov["correspondence"]["key parser cases compared"] = len(meta)
    run.cov["correspondence"]["key parser cases disagreeing"] = nbad
