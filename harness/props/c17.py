"""C17 — calculator interfaces preserve the crystal and the physical units."""

import contextlib
import io
import math
import os
import shutil
import sys
import tempfile
import traceback
from fractions import Fraction

import numpy as np

from .. import common, gen
from . import c17_foreign as FG
from . import c17_forces as FO
from . import c17_util as U

REL = 1e-11


# --------------------------------------------------------------------------
# small helpers
# --------------------------------------------------------------------------

@contextlib.contextmanager
def quiet():
    buf = io.StringIO()
    with contextlib.redirect_stdout(buf):
        yield buf


def _site_of(exc):
    """innermost frame inside /repo of a traceback: 'interface/fleur.py:get_fleur_structure'"""
    tb = traceback.extract_tb(exc.__traceback__)
    fr = [f for f in tb if os.path.abspath(f.filename).startswith(os.path.abspath(common.REPO) + os.sep)]
    if not fr:
        return None
    f = fr[-1]
    return "%s:%s" % (os.path.relpath(f.filename, os.path.join(common.REPO, "phonopy")), f.name)


def _mono_value(text, symval):
    """float value of a normal form 'k^q k^q' printed by the driver"""
    if text == "1":
        return 1.0
    v = 1.0
    for tok in text.split():
        k, q = tok.split("^")
        v *= symval[int(k)] ** float(Fraction(q))
    return v


def _cell_case(cell):
    return (cell.cell.tobytes(), tuple(cell.symbols), cell.scaled_positions.tobytes(),
            None if cell.magnetic_moments is None else cell.magnetic_moments.tobytes())


def _cell_dict(cell):
    d = dict(lattice=cell.cell.tolist(), symbols=list(cell.symbols), scaled_positions=cell.scaled_positions.tolist())
    if cell.magnetic_moments is not None:
        d["magnetic_moments"] = np.asarray(cell.magnetic_moments).tolist()
    return d


# --------------------------------------------------------------------------
# units: translator validation, model vs implementation, oracle on the implementation
# --------------------------------------------------------------------------

def _unit_value(name, PU):
    """value in eV, Angstrom of a unit name of get_default_physical_units — written out independently
    of calculator.py (the statement of the property), from the constants of phonopy.units"""
    atom = {"eV": 1.0, "Ry": PU.Rydberg, "mRy": PU.Rydberg / 1000, "hartree": PU.Hartree, "angstrom": 1.0, "au": PU.Bohr}
    name = name.replace("Angstrom", "angstrom")
    top, _, bot = name.partition("/")
    v = atom[top]
    if bot:
        for part in bot.split("."):
            base, _, pw = part.partition("^")
            v /= atom[base] ** (int(pw) if pw else 1)
    return v


def check_units(run):
    import phonopy.units as PU
    from phonopy.interface import calculator as C

    names = [n for n, v in vars(PU).items() if not n.startswith("_") and isinstance(v, (int, float)) and not isinstance(v, bool) and n != "pi"]
    calcs = list(C.calculator_info)
    lines = ["syms", "calcs", "table", "default"] + ["norm " + n for n in names] + ["calc " + c for c in calcs]
    out = common.lean_run_driver("C17", lines)
    if len(out) != len(lines):
        run.broke("correspondence", "driver answered %d lines for %d requests" % (len(out), len(lines)))
        return
    it = iter(out)
    symval = {2: 2.0, 3: 3.0, 5: 5.0}
    for tok in next(it).split():
        k, nm, n, e = tok.split(":")
        if n == "-":
            symval[int(k)] = math.pi
        else:
            symval[int(k)] = float(Fraction(int(n)) * Fraction(10) ** int(e))
            # the symbol's exact value is the source literal
            if nm in vars(PU) and float(vars(PU)[nm]) != symval[int(k)]:
                run.broke("correspondence", "T-units: symbol %s has value %r in units.py, %r in Gen/Units.lean" % (nm, vars(PU)[nm], symval[int(k)]))
    lcalcs = next(it).split()
    if lcalcs != calcs:
        run.broke("correspondence", "calculator_info keys %r != generated Calc.all %r" % (calcs, lcalcs))
    table_line = next(it)
    default_line = next(it)

    def close(a, b):
        return abs(a - b) <= REL * max(abs(a), abs(b), 1e-300)

    # every definition of units.py: generated term evaluates to the module's value
    for n in names:
        line = next(it)
        run.count("units.py definitions", section="correspondence")
        if line in ("bad-op", "none"):
            run.broke("correspondence", "T-units: units.py name %s has no normalisable generated definition (%s)" % (n, line))
            continue
        v = _mono_value(line, symval)
        if not close(v, float(vars(PU)[n])):
            run.broke("correspondence", "T-units: %s = %r in units.py but its generated term evaluates to %r (%s)" % (n, vars(PU)[n], v, line))
        run.case(("units", n, line), nontrivial=("^" in line and " " in line))
    run.sample(dict(kind="units.py definition", name="VaspToTHz", normal_form=out[lines.index("norm VaspToTHz")], symbols="0=pi 2,3,5=primes 14=AMU 15=EV"))

    # per calculator
    fc_table = None
    for c in calcs:
        line = next(it)
        parts = [p.strip() for p in line.split(";")]
        if len(parts) != 7:
            run.broke("correspondence", "calc %s: driver answered %r" % (c, line))
            continue
        verdict = [b == "true" for b in parts[0].split()]
        units = C.get_default_physical_units(c)
        dd = C.get_default_displacement_distance(c)
        run.count("calculators", section="correspondence")
        for key, txt in (("factor", parts[1]), ("nac_factor", parts[2]), ("distance_to_A", parts[4]), ("force_to_eVperA", parts[5])):
            impl = units[key]
            if txt == "None" or impl is None:
                if not (txt == "None" and impl is None):
                    run.broke("correspondence", "%s[%s]: implementation %r, generated table %s" % (c, key, impl, txt))
                continue
            if not close(_mono_value(txt, symval), float(impl)):
                run.broke("correspondence", "%s[%s]: implementation %r, generated term evaluates to %r" % (c, key, impl, _mono_value(txt, symval)))
        if not close(_mono_value(parts[6], symval), dd):
            run.broke("correspondence", "%s: default displacement distance %r vs generated %s" % (c, dd, parts[6]))

        # ---- oracle on the implementation: the property's statement in floats
        fcu = _unit_value(units["force_constants_unit"], PU)
        lenu = _unit_value(units["length_unit"], PU)
        want_f2 = fcu * PU.EV / PU.Angstrom ** 2 / PU.AMU / (2 * math.pi) ** 2 / 1e24
        ok_f = close(units["factor"] ** 2, want_f2)
        want_nac = PU.Hartree * PU.Bohr / (fcu * lenu ** 3)
        ok_n = units["nac_factor"] is None or close(units["nac_factor"], want_nac)
        ok_c = close(units["distance_to_A"], lenu) and close(fcu, _unit_value(units["force_unit"], PU) / lenu)
        if units["force_to_eVperA"] is not None:
            ok_c = ok_c and close(units["force_to_eVperA"], _unit_value(units["force_unit"], PU))
        try:
            conv = C.get_force_constant_conversion_factor("eV/angstrom^2", c)
            ok_c = ok_c and close(conv, 1.0 / fcu)
        except NotImplementedError:
            ok_c = False
        run.count("oracle-units", section="oracle")
        if not ok_f:
            run.violation("get_default_physical_units", "%s-factor" % c,
                          "%s: factor^2 = %.12g but force-constant unit/AMU/(2pi)^2/1e24 = %.12g" % (c, units["factor"] ** 2, want_f2), dict(calculator=c))
        if not ok_n:
            run.violation("get_default_physical_units", "%s-nac_factor" % c,
                          "%s: nac_factor = %.12g but e^2/(4 pi eps0) in %s x %s^3 is %.12g (normal forms: %s vs %s)" % (
                              c, units["nac_factor"], units["force_constants_unit"], units["length_unit"], want_nac, parts[2], parts[3]),
                          dict(calculator=c, nac_factor=units["nac_factor"], expected=want_nac, monomials=[parts[2], parts[3]]))
        if not ok_c:
            run.violation("get_default_physical_units", "%s-conversion" % c, "%s: unit names / distance_to_A / force_to_eVperA / conversion table disagree" % c, dict(calculator=c))
        if verdict != [ok_f, ok_n, ok_c]:
            run.broke("correspondence", "%s: model verdict (factor, nac, conv) = %r, float oracle on the implementation = %r" % (c, verdict, [ok_f, ok_n, ok_c]))
        run.case(("calc", c, line), nontrivial=True)
    run.sample(dict(kind="calculator", name="qe", answer=out[lines.index("calc qe")]))

    # conversion function on every (unit, calculator) pair against the model's table
    tparts = [p.strip() for p in table_line.split(";")]
    src_units = ["eV/angstrom^2", "eV/angstrom.au", "Ry/au^2", "mRy/au^2", "hartree/au^2", "hartree/angstrom.au"]
    if tparts[0] != "true":
        run.broke("proof", "tableOK false on the generated factor_to_eVperA2")
    if len(tparts) - 1 == len(src_units):
        tv = {u: _mono_value(t, symval) for u, t in zip(src_units, tparts[1:])}
        for c in calcs:
            du = C.get_default_physical_units(c)["force_constants_unit"]
            for u in src_units:
                impl = C.get_force_constant_conversion_factor(u, c)
                model = tv[u] / tv[du]
                run.count("conversion pairs", section="correspondence")
                if not close(impl, model):
                    run.broke("correspondence", "get_force_constant_conversion_factor(%s, %s) = %r, model %r" % (u, c, impl, model))
                if not close(impl, _unit_value(u, PU) / _unit_value(du, PU)):
                    run.violation("get_force_constant_conversion_factor", "%s-from-%s" % (c, u), "conversion factor %r, expected %r" % (impl, _unit_value(u, PU) / _unit_value(du, PU)), dict(calculator=c, unit=u))
    else:
        run.broke("correspondence", "factor_to_eVperA2 has %d rows, expected the %d documented units" % (len(tparts) - 1, len(src_units)))
    if not default_line.startswith("true true true"):
        run.broke("proof", "default (None) unit set inconsistent: " + default_line)


# --------------------------------------------------------------------------
# writer formats: generated table, render/tokenise model vs Python's own formatting, directed inputs
# --------------------------------------------------------------------------

def check_formats(run, rng, thorough):
    out = common.lean_run_driver("C17", ["formats"])
    U.set_formats(out[0])
    run.cov["writer_formats"] = {k: dict(v) for k, v in U.FORMATS.items()}
    missing = [m for m in U.INTERFACES if m != "cp2k" and m not in U.FORMATS]
    if missing:
        run.broke("correspondence", "format table has no row for %r" % missing)
    # model of "%W.Df" and of str.split() against Python itself
    lines, want = [], []
    for _ in range(120 if thorough else 40):
        d = rng.choice([0, 2, 5, 6, 8, 10, 12, 16])
        x = rng.choice([rng.uniform(-30, 30), rng.randint(-400, 400) / 16.0, rng.uniform(-1, 1) * 10 ** rng.randint(-9, 3), -0.0 + rng.randint(-3, 3)])
        if x == 0:
            x = 0.0
        lines.append("render %d %s" % (d, U.fr(x)))
        want.append("%.*f" % (d, x))
    for _ in range(60 if thorough else 20):
        w, d = rng.choice([(12, 8), (16, 12), (21, 16), (10, 8), (19, 16), (10, 6), (0, 10)])
        sep = rng.choice([0, 1])
        xs = [rng.choice([rng.uniform(-150, 150), rng.randint(-200, 200) / 8.0, rng.uniform(-1, 1)]) for _ in range(3)]
        lines.append("line %d %d %d 3 %s" % (w, d, sep, " ".join(U.fr(x) for x in xs)))
        want.append("|".join((((" " if sep else "") + "%*.*f") * 3 % tuple(v for x in xs for v in (w, d, x))).split()))
    got = common.lean_run_driver("C17", lines)
    for ln, a, b in zip(lines, got, want):
        run.count("printf/split model", section="correspondence")
        run.case(("fmt", ln), nontrivial=ln.startswith("line"))
        if a != b:
            run.broke("correspondence", "format model: %s -> %r, Python %r" % (ln[:80], a, b))
    run.sample(dict(kind="format model", request=lines[-1], tokens=got[-1] if got else None), limit=14)


def _directed_fusion_cells(rng):
    """for every free-format row of the table without separator: a cell with a number whose printed text
    fills the field (so that it touches its left neighbour), if such a number is a plausible input"""
    from phonopy.structure.atoms import PhonopyAtoms

    cases = []
    for m, f in U.FORMATS.items():
        if f["reader"] != "free":
            continue
        # lattice: an entry <= -10^(w-d-3) has w characters; plausible up to 60 Angstrom
        if not f["lat_sep"] and f["lat_kind"] == "fixed" and f["lat_w"] > 0:
            v = -(10.0 ** (f["lat_w"] - f["lat_d"] - 3)) - 0.5
            if abs(v) <= 60:
                lat = np.array([[2 * abs(v) + 1.0, v, 0.0], [0.25, 2 * abs(v), 0.5], [0.125, -0.25, 6.0]])  # v has a left neighbour
                cell = PhonopyAtoms(cell=lat, symbols=["Na", "Cl"], scaled_positions=[[0.0625, 0.125, 0.25], [0.5, 0.5625, 0.75]])
                cases.append((m, "lattice", cell, dict(interleaved=False, outside=False, moments=False, fine=False, wide_lattice=True)))
            else:
                cases.append((m, "lattice", None, "needs |entry| >= %g" % abs(v)))
        if not f["pos_sep"] and f["pos_kind"] == "fixed" and f["pos_w"] > 0:
            v = -(10.0 ** (f["pos_w"] - f["pos_d"] - 3)) - 0.25
            lim = 60 if f["cart"] else 8
            if abs(v) <= lim:
                cell, meta = U.random_cell(rng, layout="grouped", outside=False)
                pos = cell.scaled_positions
                if f["cart"]:
                    pos[0] = np.linalg.solve(cell.cell.T, np.array([1.0, v, 0.5]))
                    pos[0] = np.round(pos[0] * 16) / 16
                else:
                    pos[0, 1] = v
                cell = PhonopyAtoms(cell=cell.cell, symbols=cell.symbols, scaled_positions=pos)
                meta["outside"] = True
                cases.append((m, "position", cell, meta))
            else:
                cases.append((m, "position", None, "needs |coordinate| >= %g" % abs(v)))
    return cases


# --------------------------------------------------------------------------
# sort_positions_by_symbols vs stableGroup
# --------------------------------------------------------------------------

def check_stable_group(run, rng, n):
    from phonopy.interface.vasp import sort_positions_by_symbols

    lines, impl = [], []
    for _ in range(n):
        k = rng.randint(1, 9)
        syms = [rng.choice([11, 17, 8, 26]) for _ in range(k)]
        counts, reduced, _, perm = sort_positions_by_symbols(syms)
        lines.append("sgroup %d %s" % (k, " ".join(map(str, syms))))
        impl.append("%s ; %s" % (" ".join(map(str, perm)), " ".join(map(str, counts))))
        run.case(("sgroup", tuple(syms)), nontrivial=len(set(syms)) > 1 and syms != sorted(syms, key=syms.index))
        # oracle: a permutation, stable, first-occurrence order
        ok = sorted(perm) == list(range(k)) and [syms[i] for i in perm] == [s for r in reduced for s in [r] * syms.count(r)] \
            and all(perm[i] < perm[i + 1] for i in range(k - 1) if syms[perm[i]] == syms[perm[i + 1]]) and reduced == list(dict.fromkeys(syms))
        run.count("oracle-sort_positions_by_symbols", section="oracle")
        if not ok:
            # a statement about a helper, not about written files: the end effect is judged on the files
            # (class reordered-not-stable-grouping); here only the model comparison below can break
            run.count("sort_positions_by_symbols returned something else than the stable grouping", section="oracle")
    out = common.lean_run_driver("C17", lines)
    for ln, a, b in zip(lines, out, impl):
        run.count("sort_positions_by_symbols", section="correspondence")
        if a.strip() != b.strip():
            run.broke("correspondence", "sort_positions_by_symbols: model %r, implementation %r on %s" % (a, b, ln))
    run.sample(dict(kind="stable grouping", request=lines[0], answer=out[0] if out else None))


# --------------------------------------------------------------------------
# structure round trips
# --------------------------------------------------------------------------

class RoundTrips:
    def __init__(self, run):
        self.run = run
        self.lines = []
        self.meta = []

    def add(self, interface, what, cin, cout, meta, out_moments=None, site=None):
        self.lines.append(U.request(interface, cin, cout, out_moments=out_moments))
        diag = U.python_verdict(interface, cin, cout, out_moments=out_moments)
        order = U.atom_order(cin, cout) if len(cin) == len(cout) else None
        f = U.FORMATS.get(interface)
        if f is not None and order is not None and what.startswith("unit cell") and diag == "ok":
            # the table's `wraps` flag against what the writer did
            sp = np.asarray(cout.scaled_positions)
            inside = bool((sp > -1e-9).all() and (sp < 1 + 1e-9).all())
            same = bool(np.abs(sp - np.asarray(cin.scaled_positions)[order]).max() < 1e-6)
            if meta.get("outside") and (f["wraps"] and not inside or (not f["wraps"]) and not same):
                self.run.broke("correspondence", "format table says wraps=%s for %s, but positions outside [0,1) came back %s" % (
                    f["wraps"], interface, "inside [0,1)" if inside else "unreduced" if same else "changed"))
            self.run.count("wraps flag confirmed on a cell with positions outside [0,1)" if meta.get("outside") else "wraps flag not exercised", section="correspondence")
        self.meta.append((interface, what, cin, meta, diag, site or "write_crystal_structure[%s]" % interface, order))

    def failed(self, interface, what, cin, meta, exc, stage, site=None):
        """writer or reader raised on a well-formed cell"""
        if isinstance(exc, U.Unparsable):
            self.run.violation(site or "write_crystal_structure[%s]" % interface, "fields-run-together" + _suffix(meta),
                               "%s %s: %s" % (interface, what, exc), dict(interface=interface, what=what, cell=_cell_dict(cin), **meta))
            return
        where = _site_of(exc) or "harness"
        if where == "harness":
            raise exc
        klass = "%s-raises-%s" % (stage, type(exc).__name__)
        self.run.violation(site or "write_crystal_structure[%s]" % interface, klass + _suffix(meta),
                           "%s %s: %s: %s at %s" % (interface, what, type(exc).__name__, exc, where),
                           dict(interface=interface, what=what, cell=_cell_dict(cin), **meta))

    def flush(self):
        run = self.run
        if not self.lines:
            return
        out = common.lean_run_driver("C17", self.lines)
        if len(out) != len(self.lines):
            run.broke("correspondence", "driver answered %d lines for %d round-trip requests" % (len(out), len(self.lines)))
            return
        representable = run.cov.setdefault("left_handed_representation", {})
        for (interface, what, cin, meta, diag, site, order), verdict, req in zip(self.meta, out, self.lines):
            run.count("round trips checked by checkEquiv", section="oracle")
            run.count("roundtrip %s" % interface)
            if verdict not in ("true", "false"):
                run.broke("correspondence", "checker rejected request (%s): %s" % (verdict, req[:300]))
                continue
            if verdict == "true" and diag == "handedness changed" and meta.get("left_handed") and U.FORMATS.get(interface, {}).get("latkind") in ("cellpar", "triangular"):
                # the format stores lengths and angles / a triangular cell: a left-handed basis is not representable; what comes
                # back has the same metric and the same reduced positions, i.e. the mirror image (same spectrum)
                run.count("left-handed cell not representable in %s: mirror image (same metric, same reduced positions) comes back" % interface, section="oracle")
                representable.setdefault(interface, "lengths/angles or triangular cell: handedness not representable, mirror image returned")
                continue
            if verdict == "true" and meta.get("left_handed"):
                representable.setdefault(interface, "left-handed lattice comes back as written")
            if verdict == "true" and diag == "handedness changed":
                run.violation(site, "handedness" + _suffix(meta), "%s %s: the lattice read back is a mirror image (improper rotation)" % (interface, what),
                              dict(interface=interface, what=what, cell=_cell_dict(cin), **meta))
                continue
            if (verdict == "true") != (diag == "ok"):
                run.broke("correspondence", "verified checker says %s, float re-statement says %r (%s %s)" % (verdict, diag, interface, what),
                          dict(cell=_cell_dict(cin)))
            if verdict == "true" and order is not None:
                # "up to the documented stable grouping of atoms by species": identity or exactly that grouping
                n = len(order)
                kind = "identity" if order == list(range(n)) else "stable-grouping" if order == U.stable_grouping(list(cin.symbols)) else "other"
                run.count("atom order after round trip: %s" % kind, section="oracle")
                if kind == "other":
                    run.violation(site, "reordered-not-stable-grouping" + _suffix(meta),
                                  "%s %s: atoms come back in order %r (neither the written order nor the stable grouping by species)" % (interface, what, order),
                                  dict(interface=interface, what=what, cell=_cell_dict(cin), order=order, **meta))
            if verdict == "false":
                klass = {"species attached to the wrong positions": "species-mispaired",
                         "moments not attached to the same atoms": "moments-lost-or-mispaired",
                         "atom sets differ": "atoms-differ", "handedness changed": "handedness"}.get(
                             diag, "lattice-differs" if "lattice" in diag else "natom-differs" if "natom" in diag else
                             "positions-rounded" if "agree only" in diag else "not-equivalent")
                run.violation(site, klass + _suffix(meta), "%s %s: read-back crystal is not the written one: %s" % (interface, what, diag),
                              dict(interface=interface, what=what, cell=_cell_dict(cin), **meta))
        self.lines, self.meta = [], []


def _suffix(meta):
    s = ""
    if meta.get("interleaved"):
        s += "-interleaved"
    if meta.get("outside"):
        s += "-outside"
    if meta.get("moments"):
        s += "-moments"
    if meta.get("fine"):
        s += "-fine"
    if meta.get("wide_lattice"):
        s += "-wide-lattice"
    if meta.get("after_foreign"):
        s += "-after-foreign-input"
    if meta.get("left_handed"):
        s += "-left-handed"
    elif meta.get("relabel"):
        s += "-relabelled"
    return s


def _attempt(m, cell, path, direct=False):
    """('ok' | diagnosis | 'raises-<Exc>' | 'unparsable' | 'unreadable', out, exc)"""
    try:
        with quiet():
            out, _ = U.roundtrip(m, cell, path, direct=direct)
    except U.Unparsable as e:
        return "unparsable", None, e
    except (Exception, SystemExit) as e:
        if _site_of(e) is None:
            raise
        return "raises-%s" % type(e).__name__, None, e
    if out is None:
        return "unreadable", None, None
    return U.python_verdict(m, cell, out), out, None


def _needed_features(m, cell, meta, status, path, direct):
    """which of interleaved / outside / moments the failure depends on"""
    need = {}
    for k in ("interleaved", "outside", "moments", "fine"):
        if meta.get(k):
            st, _, _ = _attempt(m, U.simplify(cell, k), path + "_s" + k[0], direct)
            need[k] = (st != status)
    if not any(need.values()):
        need = {k: False for k in need}
    return need


def _judge(run, rt, m, cell, meta, what, path):
    """one unit-cell round trip: hand the pair to the checker, or report why there is no pair"""
    variants = [(False, "write_crystal_structure[%s]" % m, what)]
    for direct, site, label in variants:
        status, out, exc = _attempt(m, cell, path + ("d" if direct else ""), direct)
        if status == "ok":
            rt.add(m, label, cell, out, meta, site=site)
            continue
        fmeta = dict(meta)
        fmeta.update(_needed_features(m, cell, meta, status, path + ("d" if direct else ""), direct))
        if out is not None:
            rt.add(m, label, cell, out, fmeta, site=site)
        elif status == "unreadable":
            run.violation("read_crystal_structure[%s]" % m, "reader-returns-None" + _suffix(fmeta), "%s: file written by the same interface is not readable" % m,
                          dict(interface=m, cell=_cell_dict(cell)))
        else:
            rt.failed(m, label, cell, fmeta, exc, "roundtrip", site=site)
            if m == "fleur" and not direct:  # look behind the dispatcher's failure at the writer itself
                variants.append((True, "get_fleur_structure", what + " (write_fleur called directly)"))


def check_directed_formats(run, rng, rt):
    """inputs aimed at the unseparated fields the generated table lists"""
    skipped = {}
    for k, (m, role, cell, meta) in enumerate(_directed_fusion_cells(rng)):
        if cell is None:
            skipped["%s %s" % (m, role)] = "unseparated field, but fusing %s (not a plausible input)" % meta
            continue
        run.count("directed: unseparated %s field (%s)" % (role, m))
        run.case(("directed", m, role) + _cell_case(cell), nontrivial=True)
        _judge(run, rt, m, cell, meta, "cell aimed at the unseparated %s field" % role, "dir_%s_%s_%d" % (m, role, k))
    run.cov["unseparated_fields_not_exercised"] = skipped


def check_reader_state(run, rng, rt):
    """reader-state sequences: foreign native inputs with optional features first (each twice), then the usual
    round trips in the same process, then the foreign inputs once more"""
    from phonopy.interface.calculator import read_crystal_structure

    work = os.getcwd()
    cov = {}
    observations = []
    for m in U.INTERFACES:
        if m == "cp2k":
            continue
        files = FG.foreign_inputs(common.REPO, m, work)
        rng.shuffle(files)
        seq = []

        def read(label, path, cwd):
            top = os.getcwd()
            if cwd:
                os.chdir(cwd)
            try:
                with quiet():
                    cell, _ = read_crystal_structure(path, interface_mode=m)
                return FG.snapshot(cell)
            except (Exception, SystemExit) as e:
                if _site_of(e) is None:
                    raise
                return ("raises", type(e).__name__)
            finally:
                os.chdir(top)
                seq.append(label)

        first = {}
        for label, path, cwd in files:
            a = read(label, path, cwd)
            b = read(label, path, cwd)
            first[label] = a
            run.case(("foreign", m, label), nontrivial=True)
            run.count("oracle-reader-state: file read twice", section="oracle")
            if a != b:
                # foreign files are outside the statement (it speaks of files phonopy writes): observation; the
                # in-statement effect is the round trip after these reads (class ...-after-foreign-input)
                run.count("observation: same foreign file read twice gave different crystals (%s)" % m, section="oracle")
                observations.append(dict(interface=m, file=label, first=FG.describe(a), second=FG.describe(b), sequence=list(seq)))
        cov[m] = dict(files=[f[0] for f in files], readable=sum(1 for v in first.values() if v[0] == "cell"))
        if not files:
            continue
        # the usual round trips, now with whatever state the foreign inputs left behind
        for t, kw in enumerate([dict(layout="interleaved", outside=False), dict(layout="grouped", outside=True)]):
            cell, meta = U.random_cell(rng, **kw)
            meta = dict(meta, after_foreign=True)
            run.case(("rt-after-foreign", m) + _cell_case(cell), nontrivial=True)
            run.count("round trips after foreign inputs")
            _judge(run, rt, m, cell, meta, "unit cell %d written and read after the inputs %s" % (t, [os.path.basename(x) for x in seq[::2]]),
                   "rtf_%s_%d" % (m, t))
        # and the foreign inputs again: same answer as the first time
        for label, path, cwd in files:
            c = read(label, path, cwd)
            run.count("oracle-reader-state: file re-read at the end of the sequence", section="oracle")
            if c != first[label]:
                run.count("observation: foreign file re-read later gave a different crystal (%s)" % m, section="oracle")
                observations.append(dict(interface=m, file=label, first=FG.describe(first[label]), later=FG.describe(c), reads_between=len(seq) - 1))
    run.cov["reader_state_sequences"] = cov
    run.cov["reader_state_observations"] = observations[:20]


def check_roundtrips(run, rng, rt, ncells):
    not_covered = {}
    for m in U.INTERFACES:
        if m == "cp2k":
            try:
                import cp2k_input_tools  # noqa: F401
            except ImportError:
                not_covered["cp2k"] = "reader needs cp2k-input-tools (not installed): round trip not run, nothing claimed"
                continue
        plan = [dict(layout="interleaved", outside=False), dict(layout="grouped", outside=True), dict(layout="interleaved", outside=True),
                dict(layout="grouped", outside=False, far=True), dict(layout="grouped", outside=False, fine=True)]
        if m in U.MOMENT_RW:
            plan.append(dict(layout="interleaved", outside=False, moments=True, integer_moments=(m == "crystal")))
        if m == "abacus":
            plan.append(dict(layout="grouped", outside=False, moments=True, noncollinear=True))
        while len(plan) < ncells:
            plan.append(dict(moments=(m in U.MOMENT_RW and rng.random() < 0.4), integer_moments=(m == "crystal")))
        # description invariance: the same crystal with relabelled lattice vectors (always one det -1: left-handed)
        relabel = [rng.choice(["swap12", "negate3", "invert"]), rng.choice(["shear", "cyclic"])]
        for t, kw in enumerate(plan + [dict(layout="interleaved", outside=False, relabel=r) for r in relabel]):
            rl = kw.pop("relabel", None) if isinstance(kw, dict) else None
            cell, meta = U.random_cell(rng, **kw)
            if rl:
                cell = gen.relabelled_cell(cell, gen.UNIMODULAR[rl])[0]
                meta = dict(meta, relabel=rl, left_handed=bool(np.linalg.det(cell.cell) < 0))
                run.count("cells: relabelled lattice vectors (%s)" % rl)
                if meta["left_handed"]:
                    run.count("cells: left-handed")
            what = "unit cell %d" % t
            path = "rt_%s_%d" % (m, t)
            run.case(("rt", m) + _cell_case(cell), nontrivial=meta["interleaved"] or meta["outside"] or meta["moments"] or meta["fine"])
            for k in ("interleaved", "outside", "moments"):
                if meta[k]:
                    run.count("cells: %s" % k)
            if t == 0:
                run.sample(dict(kind="round trip", interface=m, cell=_cell_dict(cell), **meta), limit=8)
            _judge(run, rt, m, cell, meta, what, path)
    return not_covered


def check_displaced(run, rng, rt, thorough):
    """every displaced supercell of a small Phonopy run, through write_supercells_with_displacements"""
    from phonopy import Phonopy
    from phonopy.interface.calculator import write_supercells_with_displacements

    nruns = 24 if thorough else 2
    for r in range(nruns):
        layout = "interleaved" if r % 2 == 0 else rng.choice(["interleaved", "grouped"])
        cell, meta = U.random_cell(rng, natom=3 if r == 0 else rng.randint(3, 4), layout=layout, outside=False, moments=True)
        smat = rng.choice([np.diag([2, 1, 1]), np.diag([1, 2, 1]), np.array([[1, 1, 0], [0, 1, 0], [0, 0, 2]])])
        with quiet():
            ph = Phonopy(cell, supercell_matrix=smat, primitive_matrix="P", log_level=0)
            ph.generate_displacements(distance=0.03)
        scell = U.round_positions(ph.supercell)
        dcells = [U.round_positions(c) for c in ph.supercells_with_displacements]
        if thorough is False and len(dcells) > 6:
            dcells = dcells[:6]
        ids = list(range(1, len(dcells) + 1))
        run.count("displaced supercells per interface", len(dcells))
        top = os.getcwd()
        for m in U.INTERFACES:
            if m == "cp2k":
                continue
            sub = os.path.join(top, "disp_%d_%s" % (r, m))
            os.makedirs(sub)
            os.chdir(sub)
            try:
                has_mom = m in U.MOMENT_RW or m in U.MOMENT_FILE
                ucell = cell if has_mom else _strip_moments(cell)
                sc = scell if has_mom else _strip_moments(scell)
                dcs = dcells if has_mom else [_strip_moments(c) for c in dcells]
                if m == "crystal":  # ATOMSPIN carries integers
                    ucell, sc, dcs = _int_moments(ucell), _int_moments(sc), [_int_moments(c) for c in dcs]
                dmeta = dict(interleaved=meta["interleaved"], outside=False, moments=has_mom, displaced=True, supercell_matrix=smat.tolist())
                # optional_structure_info as the reader returns it for a unit cell file with the atoms in this order
                info = U.structure_info(m, ucell, "unitcell")
                try:
                    with quiet():
                        write_supercells_with_displacements(m, sc, dcs, optional_structure_info=info, displacement_ids=np.array(ids),
                                                            additional_info={"supercell_matrix": smat})
                except (Exception, SystemExit) as e:
                    rt.failed(m, "supercells", sc, dmeta, e, "write", site="write_supercells_with_displacements[%s]" % m)
                    continue
                files = [U.perfect_file(m)] + U.displaced_files(m, ids)
                cells = [sc] + dcs
                side_moments = None
                if m in U.MOMENT_FILE and os.path.isfile("MAGMOM"):
                    txt = open("MAGMOM").read().split("=")[1].split()
                    side_moments = np.array([float(x) for x in txt]).reshape(len(sc), -1)
                for i, (f, cin) in enumerate(zip(files, cells)):
                    what = "perfect supercell" if i == 0 else "displaced supercell %d" % i
                    run.case(("disp", m, i) + _cell_case(cin), nontrivial=True)
                    if not os.path.exists(f if m != "crystal" else f + ".ext"):
                        run.broke("correspondence", "write_supercells_with_displacements[%s]: expected file %s (%s) not found; files written: %r" % (
                            m, f, what, sorted(os.listdir("."))[:12]))
                        continue
                    try:
                        with quiet():
                            out, _ = U.read_back(m, f, cin)
                    except (Exception, SystemExit) as e:
                        rt.failed(m, what, cin, dmeta, e, "read", site="write_supercells_with_displacements[%s]" % m)
                        continue
                    if out is None:
                        run.violation("read_crystal_structure[%s]" % m, "reader-returns-None-displaced", "%s: %s not readable" % (m, f), dict(interface=m))
                        continue
                    om = None
                    if m in U.MOMENT_FILE:
                        # MAGMOM lists the moments in the order of the atoms of the structure files
                        om = side_moments if side_moments is not None else np.zeros((len(sc), 0))
                        if side_moments is None:
                            run.count("no MAGMOM side file although the supercell has moments (%s): judged as lost moments by the checker" % m, section="oracle")
                    rt.add(m, what, cin, out, dmeta, out_moments=om, site="write_supercells_with_displacements[%s]" % m)
            finally:
                os.chdir(top)
        run.sample(dict(kind="phonopy run", unitcell=_cell_dict(cell), supercell_matrix=smat.tolist(), n_displaced=len(dcells)), limit=8)


def _strip_moments(cell):
    c = cell.copy()
    c.magnetic_moments = None
    return c


def _int_moments(cell):
    c = cell.copy()
    if c.magnetic_moments is not None:
        m = np.sign(np.asarray(c.magnetic_moments)) * np.ceil(np.abs(np.asarray(c.magnetic_moments)))
        m[m == 0] = 1
        c.magnetic_moments = m
    return c


# --------------------------------------------------------------------------
# create_FORCE_SETS with outputs that carry positions
# --------------------------------------------------------------------------

def _vasprun(path, lattice, points, forces):
    s = ['<?xml version="1.0" encoding="ISO-8859-1"?>', "<modeling>", ' <generator><i name="version" type="string">5.4.4  </i></generator>',
         " <calculation>", "  <structure>", "   <crystal>", '    <varray name="basis" >']
    for r in lattice:
        s.append("     <v> %20.16f %20.16f %20.16f </v>" % tuple(r))
    s += ["    </varray>", '    <i name="volume"> %20.16f </i>' % abs(np.linalg.det(lattice)), "   </crystal>", '   <varray name="positions" >']
    for p in points:
        s.append("    <v> %20.16f %20.16f %20.16f </v>" % tuple(p))
    s += ["   </varray>", "  </structure>", '  <varray name="forces" >']
    for f in forces:
        s.append("   <v> %20.16f %20.16f %20.16f </v>" % tuple(f))
    s += ["  </varray>", '  <energy><i name="e_fr_energy"> -1.0 </i><i name="e_wo_entrp"> -1.0 </i><i name="e_0_energy"> -1.0 </i></energy>',
          " </calculation>", "</modeling>"]
    open(path, "w").write("\n".join(s) + "\n")


def check_force_sets(run, rng):
    from phonopy import Phonopy
    from phonopy.cui.create_force_sets import create_FORCE_SETS
    from phonopy.file_IO import parse_FORCE_SETS
    from phonopy.interface.phonopy_yaml import PhonopyYaml
    from phonopy.interface.vasp import sort_positions_by_symbols

    top = os.getcwd()
    for layout in ("grouped", "interleaved"):
        sub = os.path.join(top, "fs_" + layout)
        os.makedirs(sub)
        os.chdir(sub)
        try:
            cell, meta = U.random_cell(rng, natom=3 if layout == "interleaved" else rng.randint(2, 3), layout=layout, outside=False)
            smat = np.diag([2, 1, 1])
            with quiet():
                ph = Phonopy(cell, supercell_matrix=smat, primitive_matrix="P", log_level=0)
                ph.generate_displacements(distance=0.03)
                ph.save("phonopy_disp.yaml")
            sc = ph.supercell
            n = len(sc)
            fc = gen.pair_fc(sc, cutoff=4.0)
            disps = [c.positions - sc.positions for c in ph.supercells_with_displacements]
            forces = [-np.einsum("ijab,jb->ia", fc, d) for d in disps]
            phy = PhonopyYaml()
            phy.read("phonopy_disp.yaml")
            # VASP numbers the atoms as in the POSCAR phonopy wrote: grouped by species
            _, _, _, perm = sort_positions_by_symbols(sc.symbols, sc.scaled_positions)
            perm = list(perm)
            names = []
            for i, (c, f) in enumerate(zip(ph.supercells_with_displacements, forces)):
                nm = "vasprun-%03d.xml" % (i + 1)
                _vasprun(nm, sc.cell, c.scaled_positions[perm], f[perm])
                names.append(nm)
            run.case(("force_sets", layout) + _cell_case(cell), nontrivial=(perm != list(range(n))))
            run.count("oracle-create_FORCE_SETS", section="oracle")
            case = dict(layout=layout, unitcell=_cell_dict(cell), supercell_matrix=smat.tolist(), vasp_order=perm)
            refused = False
            try:
                with quiet():
                    create_FORCE_SETS("vasp", names, phpy_yaml=phy, disp_filename="phonopy_disp.yaml", force_sets_filename="FORCE_SETS", log_level=0)
            except RuntimeError as e:
                refused = "match" in str(e)
                if not refused:
                    raise
            if refused:
                run.count("create_FORCE_SETS refused (positions in another order)", section="oracle")
                if perm == list(range(n)):
                    # "pairs ... or refuses": a refusal satisfies the statement; it contradicts the generator's notion of a matching output
                    run.broke("correspondence", "create_FORCE_SETS refused vasprun.xml outputs written in supercell order", case)
            else:
                ds = parse_FORCE_SETS(filename="FORCE_SETS")
                got = [np.array(d["forces"]) for d in ds["first_atoms"]]
                # forces must sit on the atoms they were computed for
                bad = [i for i, (g, f) in enumerate(zip(got, forces)) if np.abs(g - f).max() > 1e-8 * max(1, np.abs(f).max())]
                if bad:
                    run.violation("create_FORCE_SETS", "forces-on-wrong-atoms" + ("-interleaved" if layout == "interleaved" else ""),
                                  "FORCE_SETS pairs forces with other atoms than the output's positions say (file %s)" % names[bad[0]], case)
            # a wrong file (positions of another displacement) must be refused
            if len(names) >= 2:
                wrong = [names[1], names[0]] + names[2:]
                run.count("oracle-create_FORCE_SETS", section="oracle")
                try:
                    with quiet():
                        create_FORCE_SETS("vasp", wrong, phpy_yaml=phy, disp_filename="phonopy_disp.yaml", force_sets_filename="FORCE_SETS.wrong", log_level=0)
                    run.violation("create_FORCE_SETS", "accepts-mismatching-positions", "outputs of displacements 2,1 accepted for displacements 1,2", case)
                except RuntimeError as e:
                    if "match" not in str(e):
                        raise
            # QE-like outputs carry no positions: forces are taken in file order, converted by nothing
            qnames = []
            for i, f in enumerate(forces):
                nm = "qe-%03d.out" % (i + 1)
                with open(nm, "w") as w:
                    w.write("     Forces acting on atoms (cartesian axes, Ry/au):\n\n")
                    for a in range(n):
                        w.write("     atom %4d type  1   force = %16.10f %16.10f %16.10f\n" % (a + 1, f[a, 0], f[a, 1], f[a, 2]))
                    w.write("\n     Total force =     0.000000     Total SCF correction =     0.000000\n")
                qnames.append(nm)
            with quiet():
                create_FORCE_SETS("qe", qnames, phpy_yaml=phy, disp_filename="phonopy_disp.yaml", force_sets_filename="FORCE_SETS.qe", log_level=0)
            run.count("oracle-create_FORCE_SETS", section="oracle")
            if os.path.isfile("FORCE_SETS.qe"):
                ds = parse_FORCE_SETS(filename="FORCE_SETS.qe")
                got = [np.array(d["forces"]) for d in ds["first_atoms"]]
                drift = [f - f.mean(axis=0) for f in forces]  # the QE reader removes the drift force
                if any(np.abs(g - f).max() > 1e-8 and np.abs(g - d).max() > 1e-8 for g, f, d in zip(got, forces, drift)):
                    run.violation("create_FORCE_SETS", "qe-forces-changed", "forces of a QE-like output do not arrive in FORCE_SETS atom by atom", case)
            else:
                run.broke("correspondence", "create_FORCE_SETS wrote nothing for QE-like outputs in the layout of example/NaCl-QE", case)
        finally:
            os.chdir(top)


def check_force_sets_zero_mode(run, rng):
    """`--fz` (force_sets_zero_mode) with outputs that carry positions (vasprun.xml): first file = perfect supercell
    (residual forces, subtracted from the others), then one file per displacement.  Pairs forces with the right
    displacement / atoms, or refuses."""
    from phonopy import Phonopy
    from phonopy.cui.create_force_sets import create_FORCE_SETS
    from phonopy.file_IO import parse_FORCE_SETS
    from phonopy.interface.phonopy_yaml import PhonopyYaml

    top = os.getcwd()
    cell, meta = U.random_cell(rng, natom=3, layout="grouped", outside=False)  # grouped: VASP order = supercell order
    smat = np.diag(rng.choice([[2, 1, 1], [1, 2, 1], [1, 1, 2]]))
    with quiet():
        ph = Phonopy(cell, supercell_matrix=smat, primitive_matrix="P", log_level=0)
        ph.generate_displacements(distance=0.03)
    sc = ph.supercell
    n = len(sc)
    nd = min(4, len(ph.dataset["first_atoms"]))
    if nd < 2:
        run.count("fz stream skipped: fewer than 2 displacements", section="oracle")
        return
    ph.dataset = {"natom": n, "first_atoms": ph.dataset["first_atoms"][:nd]}
    dcells = ph.supercells_with_displacements[:nd]
    fc = gen.pair_fc(sc, cutoff=4.0)
    resid = np.array([[rng.randint(-16, 16) / 256.0 for _ in range(3)] for _ in range(n)])  # forces in the perfect supercell
    model = [-np.einsum("ijab,jb->ia", fc, dc.positions - sc.positions) for dc in dcells]
    rot = list(range(n))[1:] + [0]
    # (kind, list of (positions, forces) for the displaced slots)
    good = [(dc.scaled_positions, f + resid) for dc, f in zip(dcells, model)]
    kinds = {
        "ordered": good,
        "two-displaced-files-swapped": [good[1], good[0]] + good[2:],
        "displaced-file-given-twice": [good[0], good[0]] + good[2:],
        "perfect-supercell-among-displaced": [(sc.scaled_positions, resid)] + good[1:],
        "atoms-permuted-in-one-file": good[:-1] + [(good[-1][0][rot], good[-1][1][rot])],
    }
    for kind, files in kinds.items():
        sub = os.path.join(top, "fz_" + kind)
        os.makedirs(sub)
        os.chdir(sub)
        try:
            with quiet():
                ph.save("phonopy_disp.yaml")
            phy = PhonopyYaml()
            phy.read("phonopy_disp.yaml")
            _vasprun("vasprun-000.xml", sc.cell, sc.scaled_positions, resid)
            names = ["vasprun-000.xml"]
            for i, (pos, f) in enumerate(files):
                nm = "vasprun-%03d.xml" % (i + 1)
                _vasprun(nm, sc.cell, pos, f)
                names.append(nm)
            case = dict(kind=kind, unitcell=_cell_dict(cell), supercell_matrix=smat.tolist(), n_displacements=nd, force_sets_zero_mode=True)
            run.case(("fz", kind) + _cell_case(cell), nontrivial=kind != "ordered")
            run.count("oracle-create_FORCE_SETS --fz", section="oracle")
            refused = False
            try:
                with quiet():
                    create_FORCE_SETS("vasp", names, phpy_yaml=phy, force_sets_zero_mode=True, disp_filename="phonopy_disp.yaml",
                                      force_sets_filename="FORCE_SETS", log_level=0)
            except RuntimeError as e:
                if "match" not in str(e):
                    raise
                refused = True
            if refused or not os.path.isfile("FORCE_SETS"):
                run.count("--fz refused (%s)" % kind, section="oracle")
                if kind == "ordered":
                    run.broke("correspondence", "create_FORCE_SETS --fz refused correctly ordered vasprun.xml files", case)
                continue
            ds = parse_FORCE_SETS(filename="FORCE_SETS")
            got = [np.array(d["forces"]) for d in ds["first_atoms"]]
            bad = [i for i, (g, f) in enumerate(zip(got, model)) if g.shape != f.shape or np.abs(g - f).max() > 1e-8 * max(1, np.abs(f).max())]
            if len(got) != nd or bad:
                run.violation("create_FORCE_SETS", "fz-%s" % ("forces-wrong" if kind == "ordered" else kind + "-accepted"),
                              "--fz with %s: accepted, and displacement %d of FORCE_SETS does not carry (forces of that displacement - forces of the perfect supercell) "
                              "on the displaced supercell's atoms" % ("correctly ordered files" if kind == "ordered" else kind.replace("-", " "), (bad or [0])[0] + 1), case)
        finally:
            os.chdir(top)
    run.sample(dict(kind="--fz stream", unitcell=_cell_dict(cell), supercell_matrix=smat.tolist(), cases=list(kinds)), limit=16)


# --------------------------------------------------------------------------
# create_FORCE_SETS' guards vs the ForcePairing model
# --------------------------------------------------------------------------

def check_force_pairing_model(run, rng, reps=1):
    for rep in range(reps):
        _force_pairing_model_once(run, rng, rep)


def _force_pairing_model_once(run, rng, rep):
    from phonopy import Phonopy
    from phonopy.cui.create_force_sets import create_FORCE_SETS
    from phonopy.interface.phonopy_yaml import PhonopyYaml
    from phonopy.structure.atoms import PhonopyAtoms
    from phonopy.structure.dataset import get_displacements_and_forces

    top = os.getcwd()
    lines, impl, info = [], [], []
    cell, _ = U.random_cell(rng, natom=rng.randint(2, 3), layout="grouped", outside=False)
    smat = np.diag([2, 1, 1])
    with quiet():
        ph = Phonopy(cell, supercell_matrix=smat, primitive_matrix="P", log_level=0)
        ph.generate_displacements(distance=0.03)
    sc = ph.supercell
    n = len(sc)
    nd = min(3, len(ph.dataset["first_atoms"]))
    ph.dataset = {"natom": n, "first_atoms": ph.dataset["first_atoms"][:nd]}
    dcells = ph.supercells_with_displacements[:nd]
    fdisp = get_displacements_and_forces(ph.dataset)[0] @ np.linalg.inv(sc.cell)

    def rf(x):  # the number the reader gets from the 16-decimal text
        return float("%20.16f" % x)

    kinds = ["ok", "lattice-shift", "rows-permuted", "files-swapped", "one-file-missing", "row-missing", "atom-moved"]
    for c in ("vasp", "qe"):
        for kind in kinds:
            if kind == "files-swapped" and nd < 2:
                continue
            sub = os.path.join(top, "fpair_%d_%s_%s" % (rep, c, kind))
            os.makedirs(sub)
            os.chdir(sub)
            try:
                with quiet():
                    ph.save("phonopy_disp.yaml")
                phy = PhonopyYaml()
                phy.read("phonopy_disp.yaml")
                files = []
                for i, dc in enumerate(dcells):
                    pos = dc.scaled_positions.copy()
                    f = np.array([[rng.randint(-20, 20) / 64.0 for _ in range(3)] for _ in range(n)])
                    order = list(range(n))
                    if kind == "lattice-shift":
                        pos += np.array([[rng.randint(-2, 2) for _ in range(3)] for _ in range(n)])
                    elif kind == "rows-permuted":
                        order = order[1:] + order[:1]
                    elif kind == "atom-moved" and i == nd - 1:
                        pos[n - 1, 0] += 1.0 / 64
                    elif kind == "row-missing" and i == 0:
                        order = order[:-1]
                    files.append((pos[order], f[order]))
                if kind == "files-swapped":
                    files[0], files[1] = files[1], files[0]
                if kind == "one-file-missing":
                    files = files[:-1]
                names = []
                for i, (pos, f) in enumerate(files):
                    fcell = PhonopyAtoms(cell=sc.cell, symbols=["H"] * len(pos), scaled_positions=pos)
                    FO.write_output(c, "o-%d" % i, f, fcell)
                    names.append("o-%d" % i)
                outcome = "ok"
                try:
                    with quiet():
                        create_FORCE_SETS(c, names, phpy_yaml=phy, disp_filename="phonopy_disp.yaml", force_sets_filename="FORCE_SETS", log_level=0)
                    if not os.path.isfile("FORCE_SETS"):
                        outcome = "nothing-written"
                except RuntimeError as e:
                    if "match" not in str(e):
                        raise
                    outcome = "position"
                except KeyError:
                    outcome = "nothing-written"  # vasp: parser returns {} for a file with another number of rows
                toks = ["fpair", "1" if c == "vasp" else "0", str(n), U.lattice_wire(sc.cell, True), "1/10000000000", str(n)]
                toks += [U.fr(x) for x in sc.scaled_positions.ravel()]
                toks.append(str(nd))
                toks += [U.fr(x) for x in fdisp[:nd].ravel()]
                toks.append(str(len(files)))
                for pos, f in files:
                    toks.append(str(len(pos)))
                    for p, g in zip(pos, f):
                        toks += [U.fr(x) for x in g] + [U.fr(rf(x)) for x in p]
                lines.append(" ".join(toks))
                impl.append(outcome)
                info.append((c, kind))
                run.case(("fpair", c, kind) + _cell_case(cell), nontrivial=kind != "ok")
                # oracle on the implementation: pairs or refuses
                if c == "vasp" and kind in ("rows-permuted", "files-swapped", "atom-moved") and outcome == "ok":
                    run.violation("create_FORCE_SETS", "accepts-mismatching-positions", "vasp output with %s accepted" % kind, dict(kind=kind, unitcell=_cell_dict(cell)))
                if kind in ("ok", "lattice-shift") and outcome != "ok":
                    run.count("refusal of a matching output (%s %s): allowed by the statement, decided by the model comparison" % (c, kind), section="oracle")
                if kind in ("one-file-missing", "row-missing") and outcome == "ok":
                    run.violation("create_FORCE_SETS", "accepts-wrong-count", "%s output with %s accepted" % (c, kind), dict(kind=kind, unitcell=_cell_dict(cell)))
                run.count("oracle-create_FORCE_SETS-guards", section="oracle")
            finally:
                os.chdir(top)
    out = common.lean_run_driver("C17", lines)
    for (c, kind), a, b in zip(info, out, impl):
        run.count("create_FORCE_SETS guards vs ForcePairing.collect", section="correspondence")
        model = {"ok": "ok", "count": "nothing-written"}.get(a, "nothing-written" if a.startswith("natom") else "position" if a.startswith("position") else a)
        if model != b:
            run.broke("correspondence", "create_FORCE_SETS(%s, %s): implementation %s, model %s" % (c, kind, b, a))
    run.sample(dict(kind="force pairing guards", request=lines[0][:160] + " ...", model=out[0] if out else None, implementation=impl[0]), limit=12)


# --------------------------------------------------------------------------
# force collection: same physical forces through every interface's parser
# --------------------------------------------------------------------------

def check_force_collection(run, rng, reps=1):
    import phonopy.units as PU
    from phonopy import Phonopy
    from phonopy.cui.create_force_sets import create_FORCE_SETS
    from phonopy.file_IO import parse_FORCE_SETS
    from phonopy.interface import calculator as C
    from phonopy.interface.phonopy_yaml import PhonopyYaml
    from phonopy.structure.atoms import PhonopyAtoms

    top = os.getcwd()
    status = {}
    convention = {}
    TOL = 2e-8  # eV/Angstrom; FORCE_SETS carries 10 decimals in the calculator's force unit
    # LAMMPS orientations: supercell bases that are lower triangular (the LAMMPS convention) with positive diagonal, with
    # NEGATIVE diagonal components (unit cell given that way, or negative DIM entries), the others are generic
    lmp_kinds = ["lammps-oriented", "lammps-negative-diagonal-cell", "lammps-negative-dim"]
    for rep, layout in enumerate(["grouped", "interleaved"] * reps + ["left-handed"] * reps + lmp_kinds * reps):
        lh = layout == "left-handed"
        lmp = layout if layout in lmp_kinds else None
        if lh or lmp:
            layout = rng.choice(["grouped", "interleaved"])
        cell, meta = U.random_cell(rng, natom=3 if rep < 2 else rng.randint(3, 4), layout=layout, outside=False)
        smat = np.diag(rng.choice([[2, 1, 1], [1, 2, 1], [1, 1, 2]]))
        if lmp:
            from phonopy.structure.atoms import PhonopyAtoms as _PA

            low = np.linalg.cholesky(cell.cell @ cell.cell.T)
            low = np.round(low * 8) / 8  # a = (ax 0 0), b = (bx by 0), c = (cx cy cz), entries k/8, positive diagonal
            if lmp == "lammps-negative-diagonal-cell":
                low = low @ np.diag([-1.0, -1.0, 1.0]) if rng.random() < 0.5 else low @ np.diag([-1.0, 1.0, -1.0])
            elif lmp == "lammps-negative-dim":
                d = [2, 1, 1]
                rng.shuffle(d)
                sg = rng.choice([[-1, -1, 1], [-1, 1, -1], [1, -1, -1]])
                smat = np.diag([a * b for a, b in zip(d, sg)])
            cell = _PA(cell=low, symbols=cell.symbols, scaled_positions=cell.scaled_positions)
            layout = layout + "-" + lmp
            run.count("force collection: %s" % lmp, section="oracle")
        if lh:
            cell = gen.relabelled_cell(cell, gen.UNIMODULAR[rng.choice(["swap12", "negate3", "invert"])])[0]
            layout = layout + "-left-handed"
            run.count("force collection on a left-handed supercell", section="oracle")
        with quiet():
            ph = Phonopy(cell, supercell_matrix=smat, primitive_matrix="P", log_level=0)
            ph.generate_displacements(distance=0.03)
        sc = ph.supercell
        n = len(sc)
        fc = gen.pair_fc(sc, cutoff=4.0)
        dcells = ph.supercells_with_displacements[:4]
        phys = []
        for dc in dcells:
            d = dc.positions - sc.positions
            drift = np.array([rng.choice([-1, 1]) * rng.randint(8, 40) / 1000.0 for _ in range(3)])  # net force per atom, eV/A
            phys.append(-np.einsum("ijab,jb->ia", fc, d) + drift)
        want = [f - f.mean(axis=0) for f in phys]
        ph.dataset = {"natom": n, "first_atoms": ph.dataset["first_atoms"][:len(dcells)]}
        variants = [(c, None, None) for c in FO.INTERFACES]
        # LAMMPS dump lines carry atom ids and may come in any order: a 3-cycle and a random non-involutive permutation
        cyc = list(range(n))
        cyc[0], cyc[1], cyc[2] = 1, 2, 0
        rnd = list(range(n))
        while rnd == sorted(rnd) or [rnd[k] for k in rnd] == list(range(n)):
            rng.shuffle(rnd)
        variants += [("lammps", "lines-3-cycle", cyc), ("lammps", "lines-shuffled", rnd)]
        if lmp:
            variants = [v for v in variants if v[0] == "lammps"]
        for c, vname, line_perm in variants:
            sub = os.path.join(top, "fcoll_%d_%s_%s%s" % (rep, layout, c, "_" + vname if vname else ""))
            os.makedirs(sub)
            os.chdir(sub)
            try:
                with quiet():
                    ph.save("phonopy_disp.yaml")
                phy = PhonopyYaml()
                phy.read("phonopy_disp.yaml")
                native = _unit_value(FO.NATIVE_UNIT[c], PU)
                out_unit = _unit_value(C.get_default_physical_units(c)["force_unit"], PU)
                try:
                    with quiet():
                        order = FO.file_order(c, sc, sub)
                except (Exception, SystemExit):
                    order = None  # structure round trip broken: reported by check_roundtrips
                if order is None:
                    order = list(range(n))
                regrouped = order != list(range(n))
                names = []
                for i, (dc, f) in enumerate(zip(dcells, phys)):
                    fcell = PhonopyAtoms(cell=dc.cell, symbols=[dc.symbols[k] for k in order], scaled_positions=dc.scaled_positions[order])
                    nm = "out-%03d" % (i + 1)
                    FO.write_output(c, nm, f[order] / native, fcell, line_perm=line_perm)
                    names.append(nm)
                if vname:
                    run.count("force collection: lammps dump with ids in permuted line order", section="oracle")
                case = dict(interface=c, layout=layout, line_order=line_perm, variant=vname, unitcell=_cell_dict(cell), supercell_matrix=smat.tolist(), file_order=order,
                            native_unit=FO.NATIVE_UNIT[c], drift_eV_per_A=[p.mean(axis=0).tolist() for p in phys])
                run.case(("fcoll", c, layout, vname) + _cell_case(cell), nontrivial=True)
                run.count("oracle-force-collection", section="oracle")
                refused = False
                try:
                    with quiet():
                        create_FORCE_SETS(c, names, phpy_yaml=phy, disp_filename="phonopy_disp.yaml", force_sets_filename="FORCE_SETS",
                                          wien2k_P1_mode=(c == "wien2k"), log_level=0)
                except RuntimeError as e:
                    if "match" not in str(e):
                        raise
                    refused = True
                if refused:
                    run.count("force collection refused (atom order of the output differs)", section="oracle")
                    if not regrouped:
                        run.broke("correspondence", "create_FORCE_SETS(%s) refused synthetic outputs written in supercell order" % c, case)
                    status.setdefault(c, set()).add("refused-regrouped")
                    continue
                if not os.path.isfile("FORCE_SETS"):
                    # nothing collected = a refusal (allowed by the statement) or the synthetic layout is no longer what the parser reads
                    run.broke("correspondence", "%s: forces of a synthetic output in the program's own layout were not collected (no FORCE_SETS)" % c, case)
                    continue
                ds = parse_FORCE_SETS(filename="FORCE_SETS")
                got = [np.array(d["forces"]) * out_unit for d in ds["first_atoms"]]
                # two accepted conventions: drift-corrected F - mean(F), or the raw forces F (exactly one of them, atom by atom)
                err = max(np.abs(g - w).max() for g, w in zip(got, want))
                raw = max(np.abs(g - p).max() for g, p in zip(got, phys))
                if err <= TOL or raw <= TOL:
                    status.setdefault(c, set()).add("ok")
                    convention.setdefault(c, set()).add("drift-corrected F - mean(F)" if err <= TOL else "raw F (net force kept)")
                    continue
                by_file = min(max(np.abs(g - w[order]).max() for g, w in zip(got, want)),
                              max(np.abs(g - p[order]).max() for g, p in zip(got, phys)))
                if regrouped and by_file <= TOL:
                    if c in FO.NO_POSITIONS:
                        run.count("regrouped output without positions: pairing by file order not judged (%s)" % c, section="oracle")
                        continue
                    run.violation("create_FORCE_SETS", "%s-forces-paired-by-file-order" % c,
                                  "%s, supercell with interleaved species: the structure file groups the atoms by species (order %r), the output follows it, "
                                  "FORCE_SETS pairs the forces with the supercell order without checking or refusing" % (c, order), case)
                    continue
                err = min(err, raw)
                what = "%s%s: collected forces are neither F nor F - mean(F) (nearest differs by %.3g eV/A)" % (
                    c, " (dump lines in id order %r)" % [k + 1 for k in line_perm] if line_perm else "", err)
                run.violation("create_FORCE_SETS", "%s-forces-wrong%s" % (c, "-" + vname if vname else ""), what + "; unit %s -> %s, drift %r" % (
                    FO.NATIVE_UNIT[c], C.get_default_physical_units(c)["force_unit"], phys[0].mean(axis=0).round(4).tolist()), case)
            finally:
                os.chdir(top)
        run.sample(dict(kind="force collection", layout=layout, unitcell=_cell_dict(cell), supercell_matrix=smat.tolist(), files=len(dcells),
                        drift_eV_per_A=phys[0].mean(axis=0).tolist()), limit=10)
    run.cov["force_collection"] = {
        "covered": sorted(status), "result": {c: sorted(v) for c, v in status.items()},
        "net_force_convention": {c: sorted(v) for c, v in convention.items()},
        "native_units": FO.NATIVE_UNIT,
        "note": "all 16 force parsers are fed synthetic outputs in the program's layout (castep layout from the parser's documentation, "
                "no castep output in the repository; wien2k in P1 mode; cp2k parser needs no cp2k-input-tools)"}


# --------------------------------------------------------------------------
# end-to-end: one physical crystal in every unit system
# --------------------------------------------------------------------------

def _load_routes(run, c, u, ucell, smat, fc_native, qpts, f_plain, f_nac, scale, case):
    """the same crystal in calculator c's units through the LOAD routes: Phonopy object -> save -> phonopy.load(yaml)
    without / with calculator argument, and load(unitcell_filename=<native structure file>, calculator=c)"""
    import phonopy
    from phonopy import Phonopy

    def eig(f):
        return f * np.abs(f)

    with quiet():
        pho = Phonopy(ucell, supercell_matrix=smat, primitive_matrix="P", factor=u["factor"], calculator=c, log_level=0)
        pho.force_constants = fc_native
        pho.save("phonopy_params.yaml", settings={"force_constants": True})
    routes = [("phonopy.load(yaml)", dict(phonopy_yaml="phonopy_params.yaml"), "yaml-calculator"),
              ("phonopy.load(yaml, calculator)", dict(phonopy_yaml="phonopy_params.yaml", calculator=c), "yaml-and-argument")]
    if c not in ("cp2k", "turbomole") and c not in U.ROTATING:  # rotating formats change the Cartesian frame of fc and Born tensors
        try:
            with quiet():
                path = "unitcell_" + c
                from phonopy.interface.calculator import write_crystal_structure

                write_crystal_structure(path, ucell, interface_mode=c, optional_structure_info=U.structure_info(c, ucell, filename=path))
                path = U.complete_file(c, path, ucell)
            routes.append(("phonopy.load(unitcell_filename, calculator)",
                           dict(unitcell_filename=path, calculator=c, supercell_matrix=smat, primitive_matrix="P", force_constants_filename="FORCE_CONSTANTS"),
                           "structure-file"))
        except (Exception, SystemExit):
            run.count("load route via native structure file not available (%s)" % c, section="oracle")
    for label, kw, klass in routes:
        # phonopy.yaml carries force constants / lattice with its own printed precision, structure files with theirs:
        # a unit mix-up changes eigenvalues by factors, these windows are relative 2e-6
        etol = 2e-6 * scale ** 2
        run.count("oracle-unit-invariance-load-routes", section="oracle")
        run.case(("loadroute", c, klass, case["crystal"], case["born"]), nontrivial=(klass == "yaml-calculator"))
        rcase = dict(case, route=label)
        try:
            with quiet():
                ph = phonopy.load(is_nac=False, log_level=0, **kw)
        except (Exception, SystemExit) as e:
            if _site_of(e) is None:
                raise
            run.violation(label, "%s-%s-raises" % (c, klass), "%s for %s: %s: %s" % (label, c, type(e).__name__, e), rcase)
            continue
        if ph.calculator != c:
            run.count("observation: %s gives calculator %r for a %s crystal" % (label, ph.calculator, c), section="oracle")
        fac = ph.unit_conversion_factor
        ph.run_qpoints(qpts)
        f = ph.get_qpoints_dict()["frequencies"]
        if abs(fac - u["factor"]) > 1e-12 * u["factor"]:
            run.count("observation: unit_conversion_factor differs from the calculator's default (%s)" % klass, section="oracle")
        if np.abs(eig(f) - eig(f_plain)).max() > etol:
            run.violation(label, "%s-%s-frequency-units" % (c, klass),
                          "%s: the crystal saved in %s units comes back with unit_conversion_factor %.9g (default of %s: %.9g); frequencies differ from the "
                          "eV/Angstrom description by %.3g THz" % (label, c, fac, c, u["factor"], np.abs(f - f_plain).max()), rcase)
        if u["nac_factor"] is None:
            continue
        with quiet():
            phn = phonopy.load(is_nac=True, born_filename="BORN", log_level=0, **kw)
        nf = phn.nac_params["factor"] if phn.nac_params else None
        phn.run_qpoints(qpts)
        fn = phn.get_qpoints_dict()["frequencies"]
        if nf is None or abs(nf - u["nac_factor"]) > 1e-12 * u["nac_factor"]:
            run.count("observation: default NAC factor differs from the calculator's default (%s)" % klass, section="oracle")
        if np.abs(eig(fn) - eig(f_nac)).max() > etol:
            run.violation(label, "%s-%s-nac-units" % (c, klass),
                          "%s: BORN without factor gets NAC factor %r (default of %s: %.9g); frequencies with NAC differ from the eV/Angstrom description by %.3g THz"
                          % (label, nf, c, u["nac_factor"], np.abs(fn - f_nac).max()), rcase)


def check_unit_invariance(run, rng, names=None):
    names = names or [rng.choice(["nacl_prim", "zincblende_prim", "cscl"])]
    for k, name in enumerate(names):
        _unit_invariance_once(run, rng, name, k)
    # the same on a left-handed description of the crystal (lattice vectors relabelled with det -1)
    _unit_invariance_once(run, rng, rng.choice(names), len(names), relabel=rng.choice(["swap12", "negate3", "invert"]))


def _unit_invariance_once(run, rng, name, rep, relabel=None):
    import phonopy
    import phonopy.units as PU
    from phonopy import Phonopy
    from phonopy.file_IO import write_FORCE_CONSTANTS
    from phonopy.interface import calculator as C
    from phonopy.structure.atoms import PhonopyAtoms

    cell, _ = gen.make_cell(name)
    smat = np.diag([2, 2, 2])
    qmap = None
    if relabel:
        cell_rh = cell
        cell, qmap, smap = gen.relabelled_cell(cell, gen.UNIMODULAR[relabel])
        smat = smap(smat)
        name = "%s[%s, left-handed]" % (name, relabel)
        run.count("unit invariance on a left-handed description", section="oracle")
    with quiet():
        ref = Phonopy(cell, supercell_matrix=smat, primitive_matrix="P", log_level=0)
    fc = gen.pair_fc(ref.supercell, cutoff=4.5)
    z = 1.0 + rng.randint(0, 8) / 8.0
    born = np.array([np.eye(3) * z, -np.eye(3) * z])
    eps = np.eye(3) * (2.0 + rng.randint(0, 8) / 4.0)
    qpts = [[0.0, 0.0, 0.0], [0.01, 0.0, 0.0], [0.5, 0.0, 0.0], [0.3, 0.2, 0.1], [0.02, 0.02, 0.0]]
    qpts_rh = qpts
    if qmap is not None:
        qpts = [qmap(q).tolist() for q in qpts]
    top = os.getcwd()

    def born_file():
        with open("BORN", "w") as w:
            w.write("default\n")
            w.write(" ".join("%.12f" % x for x in eps.ravel()) + "\n")
            for b in born:
                w.write(" ".join("%.12f" % x for x in b.ravel()) + "\n")

    # reference: the eV/Angstrom description through the same entry point (calculator=None)
    os.makedirs("units_ref_%d" % rep)
    os.chdir("units_ref_%d" % rep)
    try:
        write_FORCE_CONSTANTS(fc, filename="FORCE_CONSTANTS")
        born_file()
        with quiet():
            ref = phonopy.load(unitcell=cell, supercell_matrix=smat, primitive_matrix="P", is_nac=False,
                               force_constants_filename="FORCE_CONSTANTS", log_level=0)
            try:
                refn = phonopy.load(unitcell=cell, supercell_matrix=smat, primitive_matrix="P", is_nac=True, born_filename="BORN",
                                    force_constants_filename="FORCE_CONSTANTS", log_level=0)
            except (ValueError, ZeroDivisionError, FloatingPointError, IndexError) as e:
                if _site_of(e) is None:
                    raise
                refn = e
    finally:
        os.chdir(top)
    ref.run_qpoints(qpts)
    f_plain = ref.get_qpoints_dict()["frequencies"].copy()
    try:
        if isinstance(refn, Exception):
            raise refn
        refn.run_qpoints(qpts)
    except (ValueError, ZeroDivisionError, FloatingPointError, IndexError) as e:
        if _site_of(e) is None:
            raise
        # no THz frequencies at all for a well-formed crystal description (eV/Angstrom units, Born charges given)
        run.violation("phonopy.load(calculator)", "nac-frequencies-raise" + ("-left-handed" if qmap is not None else ""),
                      "%s with Born charges: phonopy.load / run_qpoints raises %s: %s at %s" % (name, type(e).__name__, e, _site_of(e)),
                      dict(crystal=name, lattice=cell.cell.tolist(), scaled_positions=cell.scaled_positions.tolist(), symbols=list(cell.symbols),
                           supercell_matrix=np.array(smat).tolist(), born=z, dielectric=float(eps[0, 0]), qpoints=qpts))
        return
    f_nac = refn.get_qpoints_dict()["frequencies"].copy()
    if np.abs(f_nac - f_plain).max() < 1e-3:
        raise RuntimeError("harness: NAC has no effect on the reference")
    if qmap is not None:
        # the right-handed description of the same crystal: same spectrum at the mapped q-points (not a statement of C17
        # itself - C02/C08 own it - so a difference breaks the correspondence of this stream, it is not a C17 failing input)
        with quiet():
            rh = Phonopy(cell_rh, supercell_matrix=np.diag([2, 2, 2]), primitive_matrix="P", log_level=0)
        rh.force_constants = gen.pair_fc(rh.supercell, cutoff=4.5)
        rh.run_qpoints(qpts_rh)
        f_rh = rh.get_qpoints_dict()["frequencies"].copy()
        rh.nac_params = {"born": born, "dielectric": eps, "factor": PU.Hartree * PU.Bohr}
        rh.run_qpoints(qpts_rh)
        f_rh_nac = rh.get_qpoints_dict()["frequencies"].copy()
        sc2 = max(1.0, np.abs(f_rh_nac).max()) ** 2
        d1 = np.abs(f_plain * np.abs(f_plain) - f_rh * np.abs(f_rh)).max()
        d2 = np.abs(f_nac * np.abs(f_nac) - f_rh_nac * np.abs(f_rh_nac)).max()
        run.count("left-handed vs right-handed description compared (spectrum at mapped q, without and with NAC)", section="oracle")
        if d1 > 2e-6 * sc2 or d2 > 2e-6 * sc2:
            run.broke("description-invariance", "%s: left-handed description gives another spectrum than the right-handed one at the mapped q-points "
                      "(eigenvalue difference %.3g without NAC, %.3g with NAC)" % (name, d1, d2))
    ref.run_mesh([4, 4, 4])
    ref.run_thermal_properties(t_min=100, t_max=300, t_step=200)
    tp_ref = ref.get_thermal_properties_dict()
    scale = max(1.0, np.abs(f_nac).max())
    for c in list(C.calculator_info):
        u = C.get_default_physical_units(c)
        fcu = _unit_value(u["force_constants_unit"], PU)  # eV/A^2 per unit
        lenu = _unit_value(u["length_unit"], PU)  # A per unit
        ucell = PhonopyAtoms(cell=cell.cell / lenu, symbols=cell.symbols, scaled_positions=cell.scaled_positions)
        sub = os.path.join(top, "units_%d_%s" % (rep, c))
        os.makedirs(sub)
        os.chdir(sub)
        try:
            write_FORCE_CONSTANTS(fc / fcu, filename="FORCE_CONSTANTS")
            born_file()
            case = dict(calculator=c, crystal=name, born=z, dielectric=float(eps[0, 0]))
            with quiet():
                ph = phonopy.load(unitcell=ucell, supercell_matrix=smat, primitive_matrix="P", calculator=c, is_nac=False,
                                  force_constants_filename="FORCE_CONSTANTS", log_level=0)
            ph.run_qpoints(qpts)
            f = ph.get_qpoints_dict()["frequencies"]
            run.count("oracle-unit-invariance", section="oracle")
            run.case(("unitinv", c, name, z), nontrivial=(c not in ("vasp", "aims", "lammps", "pwmat", "crystal", "castep")))
            # acoustic modes at Gamma are sqrt(rounding noise): compare the signed squares (eigenvalues)
            if np.abs(f * np.abs(f) - f_plain * np.abs(f_plain)).max() > 1e-9 * scale ** 2:
                run.violation("phonopy.load(calculator)", "%s-frequencies" % c,
                              "%s: the same crystal in %s units gives frequencies differing by %.3g THz" % (c, c, np.abs(f - f_plain).max()), case)
            ph.run_mesh([4, 4, 4])
            ph.run_thermal_properties(t_min=100, t_max=300, t_step=200)
            tp = ph.get_thermal_properties_dict()
            for k in ("free_energy", "entropy", "heat_capacity"):
                if np.abs(tp[k] - tp_ref[k]).max() > 1e-7 * max(1.0, np.abs(tp_ref[k]).max()):
                    run.violation("phonopy.load(calculator)", "%s-thermal" % c, "%s: %s differs by %.3g" % (c, k, np.abs(tp[k] - tp_ref[k]).max()), case)
            _load_routes(run, c, u, ucell, smat, fc / fcu, qpts, f_plain, f_nac, scale, case)
            if u["nac_factor"] is None:
                run.count("unit invariance: NAC not implemented (%s)" % c, section="oracle")
                continue
            with quiet():
                phn = phonopy.load(unitcell=ucell, supercell_matrix=smat, primitive_matrix="P", calculator=c, is_nac=True, born_filename="BORN",
                                   force_constants_filename="FORCE_CONSTANTS", log_level=0)
            phn.run_qpoints(qpts)
            fn = phn.get_qpoints_dict()["frequencies"]
            run.count("oracle-unit-invariance-nac", section="oracle")
            if np.abs(fn * np.abs(fn) - f_nac * np.abs(f_nac)).max() > 1e-9 * scale ** 2:
                run.violation("get_default_physical_units", "%s-nac_factor" % c,
                              "%s: with Born charges the same crystal gives frequencies differing by %.3g THz from the eV/Angstrom calculation (LO mode %.6f vs %.6f)" % (
                                  c, np.abs(fn - f_nac).max(), fn[1].max(), f_nac[1].max()), case)
        finally:
            os.chdir(top)
    run.sample(dict(kind="unit invariance", crystal=name, born_charge=z, dielectric=float(eps[0, 0]), qpoints=qpts, frequencies_THz=f_nac[1].tolist()), limit=8)


# --------------------------------------------------------------------------

def _dedupe(run):
    """report each (site, class) once; further instances are counted"""
    orig = run.violation
    seen = set()

    def violation(site, klass, what, case):
        if (site, klass) in seen:
            run.count("further failing inputs of an already reported (site, class)", section="oracle")
            return
        seen.add((site, klass))
        orig(site, klass, what, case)

    run.violation = violation


def main(run):
    rng = run.rng
    _dedupe(run)
    common.setup_phonopy("omp")
    thorough = run.tier == "thorough"

    # T-units: regenerate Gen/Units.lean from the working tree, then build and audit the theorems about it
    sys.path.insert(0, os.path.join(common.VERIF, "tools"))
    import units2lean

    try:
        txt = units2lean.generate(common.REPO, os.path.join(common.LEAN_DIR, "PhononModel", "Gen", "Units.lean"))
        run.cov["units_translation_route"] = "symbolic trace of calculator.py's public functions (tools/units_trace.py)" if "symbolic trace" in txt[:400] else "ast"
    except units2lean.Untranslatable as e:
        run.broke("proof", "T-units: phonopy/units.py or interface/calculator.py left the translatable subset: %s" % e)
    import writers2lean

    try:
        writers2lean.generate(common.REPO, os.path.join(common.LEAN_DIR, "PhononModel", "Gen", "WriterFormats.lean"))
    except writers2lean.Untranslatable as e:
        run.broke("proof", "T-tables: a structure writer left the shape tools/writers2lean.py knows: %s" % e)
    except Exception as e:  # changed source the tool cannot digest: the proof step is broken, the oracles still run
        run.broke("proof", "tools/writers2lean.py failed on the working tree: %s: %s" % (type(e).__name__, e))
    run.proof_step(leancheck=thorough)

    run.cov["rule"] = (
        "units: every module-level name of units.py and every calculator of calculator_info (exhaustive), every (unit, calculator) pair of the "
        "conversion function; crystals: per interface (15 of 16; cp2k reader unavailable) random triclinic rational cells (lattice k/8, positions "
        "k/16 plus integers, 1-3 species interleaved/grouped, collinear moments where the reader returns them) written and read back through "
        "calculator.py's dispatchers, plus every displaced supercell of a small Phonopy run through write_supercells_with_displacements; the pair "
        "goes to the verified checkEquiv in Lean (exact rationals). Non-trivial = species interleaved, or positions outside [0,1), or moments, or "
        "a displaced supercell; unit cases: a definition whose normal form has >= 2 symbols. Force collection: for all 16 force parsers the same "
        "physical forces (harmonic model + random net force) in the program's output layout/unit/atom order, grouped and interleaved cell, "
        "collected by create_FORCE_SETS and compared in eV/Angstrom; accepted: raw F or F - mean(F), atom by atom (see coverage.force_collection). " + U.PRECISION_NOTE)
    run.cov["trusted_base"] = [
        "Lean 4.33 kernel; Mathlib v4.33; axioms per theorem in coverage.theorems",
        "tools/units2lean.py (ast translator; when the per-calculator tables are no longer if/elif chains it falls back to tools/units_trace.py: calculator.py executed on symbolic unit constants, public functions called per calculator): every generated definition is re-evaluated in floats against phonopy.units / get_default_physical_units on every run",
        "the specification's constants (Model/UnitSpec.lean: textbook formulas for a0, Eh, eps0) and the reading of unit names (UAtom.meaning)",
        "hand-written CrystalEquiv model; checkEquiv is proved sound, its completeness is not needed (a false 'false' would be an alarm, and is cross-checked by a float re-statement)",
        "per-format completion of structure-block-only outputs (QE namelist, Siesta species block, Fleur markers, CRYSTAL output emulation) in harness/props/c17_util.py",
        "snapping of read-back numbers to the input grid within the format's printed precision",
    ]
    run.assumptions += [
        "cp2k-input-tools is not installed: the CP2K structure reader is unreachable; CP2K is covered for units only",
        "CRYSTAL: the reader parses program output, so the written EXTERNAL file is converted by the harness (Cartesian -> fractional) into the output sections the reader takes",
        "the 16 text grammars are not modelled; round trips are differential tests judged by a proved-sound checker",
        "float rounding of printed numbers is outside the theorems: " + U.PRECISION_NOTE,
    ]

    check_units(run)
    try:
        check_formats(run, rng, thorough)
    except common.Broken as b:
        run.broke("correspondence", "format table / model unavailable: %s" % b.what, b.detail)
    check_stable_group(run, rng, 1000 if thorough else 25)

    top = os.getcwd()
    work = tempfile.mkdtemp(prefix="verif-c17-", dir="/tmp")
    os.chdir(work)
    try:
        rt = RoundTrips(run)
        not_covered = check_roundtrips(run, rng, rt, ncells=160 if thorough else 8)
        check_directed_formats(run, rng, rt)
        check_reader_state(run, rng, rt)
        check_displaced(run, rng, rt, thorough)
        rt.flush()
        run.cov["not_covered"] = not_covered
        check_force_sets(run, rng)
        check_force_sets_zero_mode(run, rng)
        check_force_collection(run, rng, reps=6 if thorough else 1)
        check_force_pairing_model(run, rng, reps=6 if thorough else 1)
        check_unit_invariance(run, rng, names=["nacl_prim", "zincblende_prim", "cscl"] * 3 if thorough else None)
    finally:
        os.chdir(top)
        shutil.rmtree(work, ignore_errors=True)
